"""Coordinator tool: rewrite lean/Lcapy.lean so that the umbrella module imports every module of the library
(everything under lean/Lcapy/ except the driver roots Lcapy/Driver/*, which are linked into the lean_exe targets).
MANIFEST.setup_cmd builds `Lcapy`, so after this every Spec/Model/Generated/Proofs/Props file is compiled by setup
and name clashes between modules show up there.   usage: python3 harness/tools_umbrella.py"""
import os
VERIF = os.path.dirname(os.path.dirname(os.path.abspath(__file__)))
root = os.path.join(VERIF, 'lean')
mods = []
for d, _, fs in os.walk(os.path.join(root, 'Lcapy')):
    for f in fs:
        if f.endswith('.lean'):
            m = os.path.relpath(os.path.join(d, f), root)[:-5].replace(os.sep, '.')
            if not m.startswith('Lcapy.Driver.'):
                mods.append(m)
order = {'Spec': 0, 'Model': 1, 'Generated': 2, 'Proofs': 3, 'Props': 4}
mods.sort(key=lambda m: (order.get(m.split('.')[1], 9), m))
head = '-- Umbrella module: imports every Spec / Model / Generated / Proofs / Props module (written by harness/tools_umbrella.py)\n'
open(os.path.join(root, 'Lcapy.lean'), 'w').write(head + ''.join('import %s\n' % m for m in mods))
print(len(mods), 'modules')
