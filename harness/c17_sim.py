"""C17, round 3: streams for the last clause of the property ("responses computed numerically from sampled inputs converge
to the symbolic response as the step shrinks") and for the propagation of the causal assumption.

  G. simulator   cct.sim(tv) vs the Lean stepper (`sim.run`: exact rational companion arithmetic, same non-uniform / uniform
                 rational grids; floats vs rationals with tolerance 1e-9*scale); Lean-judged Spec on Lcapy's OWN outputs
                 (`sim.law`: the discretised element law for the ACTUAL step t_n - t_{n-1}); exactness on polynomial solutions
                 for any grid; convergence to the symbolic response on refined non-uniform grids.
  H. response()  `_response_bilinear` / `_response_impulse_invariance` vs the Lean models on rational data; Lean-judged Spec
                 (lag-indexed convolution sum); start-time invariance (time vectors starting at 0, before and after 0, input
                 delayed past t[0]: the responses must agree after shifting); convergence to the closed form, all methods.
  I. causal ops  the causal flag after subs / call / + / - / *: evaluate() at negative regular points against the Lean
                 specEval of the resulting expression.
  J. fallbacks   evaluate() at removable singularities / poles of rational functions: which fallback (ZeroDivisionError,
                 nan, inf) applies for scalar, NumPy-scalar, list, ndarray and complex arguments, and the value (Lean `lim.eval`).
  K. floats      evaluate() of a rational function at a float point is bit-for-bit the straight-line float program that
                 lambdify prints, run by Lean's `Float` (TESTS, not theorems).
"""
import math
from fractions import Fraction

from common import fstr

SIM_TOL = Fraction(1, 10 ** 9)


def fr(x):
    """float -> exact Fraction"""
    return Fraction(float(x))


def rat_src(x):
    return '(%d/%d)' % (x.numerator, x.denominator) if x.denominator != 1 else ('(%d)' % x.numerator)


# ----------------------------------------------------------------------------------------------- G. simulator

def src_text(terms):
    """terms: list of (a, b, d) meaning (a + b t) Heaviside(t - d), or ('dc', a)"""
    parts = []
    for tm in terms:
        if tm[0] == 'dc':
            parts.append(rat_src(tm[1]))
        else:
            a, b, d = tm
            parts.append('(%s + %s*t)*Heaviside(t - %s)' % (rat_src(a), rat_src(b), rat_src(d)))
    return '{' + ' + '.join(parts) + '}'


def src_tok(terms):
    return '+'.join(('dc:%s' % fstr(tm[1])) if tm[0] == 'dc' else '%s:%s:%s' % (fstr(tm[0]), fstr(tm[1]), fstr(tm[2])) for tm in terms)


def src_val(terms, t):
    v = Fraction(0)
    for tm in terms:
        if tm[0] == 'dc':
            v += tm[1]
        else:
            a, b, d = tm
            body = a + b * t
            v += 0 if t < d else (body / 2 if t == d else body)
    return v


def netlist_text(cpts):
    lines, count = [], {}
    names = []
    for c in cpts:
        k = c[0]
        count[k] = count.get(k, 0) + 1
        nm = '%s%d' % (k, count[k])
        names.append(nm)
        if k in ('V', 'I'):
            lines.append('%s %d %d %s' % (nm, c[1], c[2], src_text(c[3])))
        else:
            lines.append('%s %d %d %s' % (nm, c[1], c[2], fstr(c[3])))
    return '\n'.join(lines), names


def netlist_toks(cpts):
    return ' | '.join('%s %d %d %s' % (c[0], c[1], c[2], src_tok(c[3]) if c[0] in ('V', 'I') else fstr(c[3])) for c in cpts)


def gen_value(rng):
    return Fraction(rng.choice([1, 2, 3, 5, 1, 4]), rng.choice([1, 2, 4, 10, 3]))


def gen_source(rng, kind=None):
    kind = kind or rng.choice(['step', 'step', 'ramp', 'affine', 'delayed', 'two'])
    a = Fraction(rng.randint(1, 10), rng.choice([1, 2]))
    b = Fraction(rng.randint(1, 6), rng.choice([1, 2, 3]))
    if kind == 'step':
        return [(a, Fraction(0), Fraction(0))]
    if kind == 'ramp':
        return [(Fraction(0), b, Fraction(0))]
    if kind == 'affine':
        return [(a, b, Fraction(0))]
    if kind == 'delayed':
        return [(a, Fraction(0), Fraction(rng.choice([1, 2, 3]), 8))]
    return [(a, Fraction(0), Fraction(0)), (-a / 2, b, Fraction(1, 4))]


TEMPLATES = ['RC', 'RL', 'RLC', 'parRC', 'IRCL', 'ladder', 'highpass', 'floatL']


def gen_circuit(rng, tmpl=None, source=None):
    tmpl = tmpl or rng.choice(TEMPLATES)
    s = source or gen_source(rng)
    v = lambda: gen_value(rng)   # noqa
    if tmpl == 'RC':
        return tmpl, [('V', 1, 0, s), ('R', 1, 2, v()), ('C', 2, 0, v())]
    if tmpl == 'RL':
        return tmpl, [('V', 1, 0, s), ('R', 1, 2, v()), ('L', 2, 0, v())]
    if tmpl == 'RLC':
        return tmpl, [('V', 1, 0, s), ('R', 1, 2, v()), ('L', 2, 3, v()), ('C', 3, 0, v())]
    if tmpl == 'parRC':
        return tmpl, [('I', 0, 1, s), ('R', 1, 0, v()), ('C', 1, 0, v())]
    if tmpl == 'IRCL':
        return tmpl, [('I', 0, 1, s), ('R', 1, 0, v()), ('C', 1, 2, v()), ('L', 2, 0, v()), ('R', 2, 0, v())]
    if tmpl == 'ladder':
        return tmpl, [('V', 1, 0, s), ('R', 1, 2, v()), ('C', 2, 0, v()), ('R', 2, 3, v()), ('C', 3, 0, v())]
    if tmpl == 'highpass':
        return tmpl, [('V', 1, 0, s), ('C', 1, 2, v()), ('R', 2, 0, v())]
    return tmpl, [('V', 1, 0, s), ('R', 1, 2, v()), ('L', 2, 3, v()), ('R', 3, 0, v())]


def gen_grid(rng, kind=None, n=None):
    kind = kind or rng.choice(['uniform', 'random', 'random', 'fine-coarse', 'doubling', 'negative-start', 'quadratic'])
    n = n or rng.randint(5, 9)
    h = Fraction(1, rng.choice([8, 16, 5, 10]))
    if kind == 'uniform':
        return kind, [k * h for k in range(n + 1)]
    if kind == 'random':
        g = [Fraction(0)]
        for _ in range(n):
            g.append(g[-1] + Fraction(rng.choice([1, 2, 3, 4, 1]), rng.choice([16, 32, 8])))
        return kind, g
    if kind == 'fine-coarse':
        g = [k * h / 2 for k in range(n // 2 + 2)]
        for _ in range(n - n // 2):
            g.append(g[-1] + 3 * h)
        return kind, g
    if kind == 'doubling':
        g, step = [Fraction(0)], Fraction(1, 64)
        for _ in range(n):
            g.append(g[-1] + step)
            step *= 2
        return kind, g
    if kind == 'negative-start':
        g = [Fraction(-rng.choice([1, 2, 3]), 8)]
        for _ in range(n + 2):
            g.append(g[-1] + Fraction(rng.choice([1, 2, 3]), 16))
        return kind, g
    return kind, [Fraction(k * k, n * n) * 2 for k in range(n + 1)]


class SimStreams:
    def __init__(self, ctx):
        self.__dict__.update(ctx)

    # ---- helpers
    def lcapy_sim(self, cpts, grid, integ):
        L, np = self.L, self.L.np
        text, names = netlist_text(cpts)
        cct = L.lcapy.Circuit(text)
        tv = np.array([float(t) for t in grid])
        try:
            with self.time_limit(60):
                res = cct.sim(tv, integrator={'trap': 'trapezoid', 'be': 'backward-euler'}[integ])
        except self.Timeout:
            return text, names, cct, ('timeout',)
        except Exception as ex:   # noqa
            return text, names, cct, ('err', type(ex).__name__)
        return text, names, cct, ('ok', res)

    def extract(self, res, cpts, names, nsteps):
        """per step: (node voltages 1..maxnode, [(v, i) per reactive])"""
        maxnode = max(max(c[1], c[2]) for c in cpts)
        nodes = [res[str(k)].v for k in range(1, maxnode + 1)]
        reac = [(res[nm].v, res[nm].i) for c, nm in zip(cpts, names) if c[0] in ('C', 'L')]
        out = []
        for n in range(nsteps):
            out.append(([fr(v[n]) for v in nodes], [(fr(v[n]), fr(i[n])) for v, i in reac]))
        return out

    def parse_model(self, reply):
        steps = []
        for grp in reply.split(' ; '):
            a, _, b = grp.partition(' | ')
            vs = [Fraction(x) for x in a.strip().split(',')] if a.strip() else []
            rs = [tuple(Fraction(x) for x in p.split(',')) for p in b.split()] if b.strip() else []
            steps.append((vs, rs))
        return steps

    def check_sim(self, cpts, grid, integ, tmpl, gkind, origin='generated'):
        chk, drv = self.chk, self.drv
        inp = {'stream': 'sim', 'netlist': netlist_toks(cpts), 'grid': [fstr(t) for t in grid], 'integrator': integ}
        text, names, cct, r = self.lcapy_sim(cpts, grid, integ)
        chk.case(('sim', inp['netlist'], tuple(inp['grid']), integ), nontrivial=True)
        chk.count('sim_template', tmpl)
        chk.count('sim_grid', gkind)
        chk.count('sim_integrator', integ)
        if r[0] == 'timeout':
            chk.count('degenerate', 'sympy-timeout')
            return
        reply = drv.ask1('sim.run %s %s | %s' % (integ, ','.join(fstr(t) for t in grid), netlist_toks(cpts)))
        chk.coverage['correspondence']['compared'] += 1
        if r[0] == 'err' or reply == 'refused':
            chk.count('sim_outcome', 'lcapy:%s/model:%s' % (r[1] if r[0] == 'err' else 'ok', 'refused' if reply == 'refused' else 'ok'))
            if (r[0] == 'err') != (reply == 'refused'):
                self.disagree('simStep-acceptance', dict(inp, lcapy=str(r[:2]), model=reply[:60]))
            return
        res = r[1]
        real = self.extract(res, cpts, names, len(grid))
        model = self.parse_model(reply)
        scale = max([Fraction(1)] + [abs(x) for vs, rs in model for x in vs] + [abs(x) for vs, rs in model for p in rs for x in p])
        bad = None
        for n, ((rv, rr), (mv, mr)) in enumerate(zip(real, model)):
            for k, (a, b) in enumerate(zip(rv, mv)):
                if abs(a - b) > SIM_TOL * scale and bad is None:
                    bad = 'step %d node %d: lcapy %.12g, model %s' % (n, k + 1, float(a), fstr(b))
            for k, (pa, pb) in enumerate(zip(rr, mr)):
                for which, a, b in (('v', pa[0], pb[0]), ('i', pa[1], pb[1])):
                    if abs(a - b) > SIM_TOL * scale and bad is None:
                        bad = 'step %d reactive %d %s: lcapy %.12g, model %s' % (n, k, which, float(a), fstr(b))
        if len(real) != len(model):
            bad = 'lengths %d / %d' % (len(real), len(model))
        chk.count('sim_outcome', 'agree' if bad is None else 'differ')
        if bad:
            self.disagree('simRun', dict(inp, first_difference=bad))
        # ---- oracle: the Lean Spec (discretised element law for the ACTUAL step) on Lcapy's own output
        reac = [c for c in cpts if c[0] in ('C', 'L')]
        for n in range(1, len(grid)):
            h = grid[n] - grid[n - 1]
            for k, c in enumerate(reac):
                v0, i0 = real[n - 1][1][k]
                v1, i1 = real[n][1][k]
                j = drv.ask1('sim.law %s %d %s %s %s %s %s %s %s' % (integ, 1 if c[0] == 'L' else 0, fstr(c[3]), fstr(h), fstr(v0), fstr(i0),
                                                                   fstr(v1), fstr(i1), fstr(SIM_TOL * 100)))
                chk.count('sim_law_checked', c[0])
                if j != 'true':
                    self.counter['n'] += 1
                    chk.counterexample({'kind': 'sim', 'what': 'step-law', 'integrator': integ},
                                       dict(input=dict(inp, step=n, component=names[cpts.index(c)]), lcapy={'v0': float(v0), 'i0': float(i0), 'v1': float(v1), 'i1': float(i1)},
                                            spec='lawDefect %s %s val=%s h = t[%d] - t[%d] = %s must vanish' % (integ, c[0], fstr(c[3]), n, n - 1, fstr(h)),
                                            netlist=text, origin=origin),
                                       'cct.sim: a step does not satisfy the discretised element law for its own step size t_n - t_(n-1)')
                    return
            # sources hold their value at t_n
            for c, nm in zip(cpts, names):
                if c[0] == 'V':
                    want = src_val(c[3], grid[n])
                    got = fr(res[nm].v[n])
                    if abs(got - want) > SIM_TOL * max(1, abs(want)):
                        self.counter['n'] += 1
                        chk.counterexample({'kind': 'sim', 'what': 'source-value'}, dict(input=dict(inp, step=n), lcapy=float(got), spec='V source value %s at t = %s' % (fstr(want), fstr(grid[n])), netlist=text),
                                           'cct.sim: the voltage source does not hold its value at t_n')
                        return

    def check_sim_exact(self, i):
        """polynomial solutions: a ramp current b t u(t) into R + C gives v_C = b t^2 / (2C), exactly reproduced by the
        trapezoidal rule on ANY grid containing 0 first (trap_exact_quadratic); a step current a u(t) into C gives
        v_C = a t / C, exactly reproduced by backward Euler (be_exact_linear).  Dual: voltage ramp across L."""
        chk, rng = self.chk, self.rng
        gk, grid = gen_grid(rng, rng.choice(['random', 'fine-coarse', 'doubling', 'quadratic', 'uniform']), rng.randint(5, 8))
        val = gen_value(rng)
        rr = gen_value(rng)
        b = Fraction(rng.randint(1, 6), rng.choice([1, 2]))
        if i % 4 == 0:
            integ, cpts, what = 'trap', [('I', 1, 0, [(Fraction(0), b, Fraction(0))]), ('R', 1, 2, rr), ('C', 2, 0, val)], 'cap-ramp'
            exact = lambda t: b * t * t / (2 * val)   # noqa
            pick = lambda vi: vi[0]   # noqa
        elif i % 4 == 1:
            integ, cpts, what = 'be', [('I', 1, 0, [(b, Fraction(0), Fraction(0))]), ('R', 1, 2, rr), ('C', 2, 0, val)], 'cap-step'
            exact = lambda t: b * t / val   # noqa
            pick = lambda vi: vi[0]   # noqa
        elif i % 4 == 2:
            integ, cpts, what = 'trap', [('V', 1, 0, [(Fraction(0), b, Fraction(0))]), ('L', 1, 0, val), ('R', 1, 0, rr)], 'ind-ramp'
            exact = lambda t: b * t * t / (2 * val)   # noqa
            pick = lambda vi: vi[1]   # noqa
        else:
            integ, cpts, what = 'be', [('V', 1, 0, [(b, Fraction(0), Fraction(0))]), ('L', 1, 0, val), ('R', 1, 0, rr)], 'ind-step'
            exact = lambda t: b * t / val   # noqa
            pick = lambda vi: vi[1]   # noqa
        inp = {'stream': 'sim-exact', 'netlist': netlist_toks(cpts), 'grid': [fstr(t) for t in grid], 'integrator': integ, 'what': what}
        text, names, cct, r = self.lcapy_sim(cpts, grid, integ)
        chk.case(('sim-exact', inp['netlist'], tuple(inp['grid']), integ), nontrivial=True)
        chk.count('sim_exact', what + '/' + gk)
        if r[0] != 'ok':
            chk.count('degenerate', 'sim-exact-' + r[0])
            return
        real = self.extract(r[1], cpts, names, len(grid))
        scale = max(Fraction(1), abs(exact(grid[-1])))
        for n in range(1, len(grid)):
            got = pick(real[n][1][0])
            if abs(got - exact(grid[n])) > SIM_TOL * 100 * scale:
                self.counter['n'] += 1
                chk.counterexample({'kind': 'sim', 'what': 'polynomial-exactness', 'integrator': integ},
                                   dict(input=dict(inp, step=n), lcapy=float(got), spec='exact solution %s at t = %s (the rule is exact for this degree on any grid)' % (fstr(exact(grid[n])), fstr(grid[n])), netlist=text),
                                   'cct.sim on a non-uniform grid does not reproduce a polynomial solution the integration rule is exact for')
                return

    def check_sim_convergence(self, i):
        """cct.sim on refined NON-UNIFORM grids against the symbolic response of the same circuit"""
        chk, rng, L, np = self.chk, self.rng, self.L, self.L.np
        tmpl = ['RC', 'RL', 'RLC', 'ladder', 'highpass', 'parRC'][i % 6]
        src = gen_source(rng, rng.choice(['step', 'ramp', 'affine']))
        _, cpts = gen_circuit(rng, tmpl, src)
        integ = ['trap', 'be'][(i // 2) % 2] if i % 3 else 'trap'
        shape = rng.choice(['quadratic', 'fine-coarse', 'uniform', 'quadratic'])
        T = 2.0
        text, names = netlist_text(cpts)
        cct = L.lcapy.Circuit(text)
        target = [nm for c, nm in zip(cpts, names) if c[0] in ('C', 'L')][0]
        errs = []
        top = 0.0
        try:
            with self.time_limit(120):
                sym_v = cct[target].v
                for N in (40, 80, 160):
                    s = np.arange(N + 1) / N
                    if shape == 'quadratic':
                        tv = T * s ** 2
                    elif shape == 'fine-coarse':
                        tv = np.concatenate((np.linspace(0, T / 8, N // 2, endpoint=False), np.linspace(T / 8, T, N // 2 + 1)))
                    else:
                        tv = T * s
                    res = cct.sim(tv, integrator={'trap': 'trapezoid', 'be': 'backward-euler'}[integ])
                    exact = np.real(sym_v.evaluate(tv))
                    got = res[target].v
                    errs.append(float(np.max(np.abs(got[1:] - exact[1:]))))
                    top = max(top, float(np.max(np.abs(exact))))
        except self.Timeout:
            chk.count('degenerate', 'sympy-timeout')
            return
        except Exception as ex:   # noqa
            errs = ['%s: %s' % (type(ex).__name__, str(ex)[:100])]
        chk.case(('sim-convergence', netlist_toks(cpts), integ, shape), nontrivial=True)
        chk.count('sim_convergence', '%s/%s/%s' % (tmpl, integ, shape))
        # step 0 of cct.sim is all zero (no initial-value problem): with a source that jumps at t = 0 the first trapezoidal step uses
        # i(0) = 0 instead of i(0+), an O(h) error that persists: first-order convergence, like backward Euler
        jumps = any(tm[0] != 'dc' and tm[0] != 0 for tm in src)
        tol = (0.01 if integ == 'trap' and not jumps else 0.06) * max(top, 1e-9)
        ok = len(errs) == 3 and errs[2] <= tol and (errs[2] <= 0.7 * errs[0] or errs[0] <= 1e-9 * max(top, 1.0))
        self.ho('sim-convergence', ok, {'netlist': netlist_toks(cpts), 'integrator': integ, 'grid_shape': shape, 'component': target,
                                        'max_abs_error_for_N_40_80_160': errs, 'tolerance': tol, 'scale': top})

    # ------------------------------------------------------------------------------------------- H. response()
    def lcapy_H(self, num, den, delay, mk):
        """H(s) = exp(-delay s) num(s)/den(s), coefficient lists lowest power first"""
        L, sym = self.L, self.L.sym
        s_ = L.vars['s'].sympy
        N = sum(L.R(c) * s_ ** k for k, c in enumerate(num))
        D = sum(L.R(c) * s_ ** k for k, c in enumerate(den))
        e = N / D
        if delay:
            e = sym.exp(-L.R(delay) * s_) * e
        if mk == 'expr':
            return L.lcapy.expr(e), str(e)
        return getattr(L.lcapy, mk)(L.lcapy.expr(e)), str(e)

    def check_resp_bilinear(self, i):
        chk, rng, drv, np = self.chk, self.rng, self.drv, self.L.np
        method, alpha = rng.choice([('bilinear', Fraction(1, 2)), ('tustin', Fraction(1, 2)), ('backward-euler', Fraction(1)), ('backward-diff', Fraction(1)),
                                    ('gbf', Fraction(5, 8)), ('gbf', Fraction(3, 4)), ('trapezoidal', Fraction(1, 2))])
        # alpha < 1/2 is left to the convergence stream: those filters are unstable for stiff poles and amplify the rounding
        # of the float recursion beyond any fixed tolerance against exact rationals
        nd = rng.choice([1, 2, 2])
        den = [Fraction(rng.randint(1, 6), rng.choice([1, 2])) for _ in range(nd)] + [Fraction(1)]
        num = [Fraction(rng.randint(-4, 4) or 1, rng.choice([1, 2])) for _ in range(rng.randint(1, nd + 1))]
        dt = Fraction(1, rng.choice([2, 4, 8, 5]))
        N = rng.randint(8, 14)
        m = rng.choice([0, 0, 1, 2, 3])
        t0 = Fraction(rng.randint(-6, 6)) * dt
        x = [Fraction(rng.randint(-8, 8), rng.choice([1, 2, 4])) for _ in range(N)]
        mk = rng.choice(['expr', 'transfer', 'impedance', 'voltage'])
        H, hs = self.lcapy_H(num, den, m * dt, mk)
        tv = np.array([float(t0 + k * dt) for k in range(N)])
        inp = {'stream': 'resp-bilinear', 'H': hs, 'quantity': mk, 'method': method, 'alpha': fstr(alpha), 'dt': fstr(dt), 't0': fstr(t0),
               'ndelay': m, 'x': [fstr(v) for v in x]}
        chk.case(('resp-bilinear', hs, method, fstr(alpha), fstr(dt), fstr(t0), tuple(inp['x'])), nontrivial=True)
        chk.count('resp_method', method)
        chk.count('resp_start', 'zero' if t0 == 0 else 'negative' if t0 < 0 else 'positive')
        try:
            with self.time_limit(60):
                y = np.real(H.response(np.array([float(v) for v in x]), tv, method=method, alpha=float(alpha)))
            real = [fr(v) for v in y]
        except self.Timeout:
            chk.count('degenerate', 'sympy-timeout')
            return
        except Exception as ex:   # noqa
            real = '%s: %s' % (type(ex).__name__, str(ex)[:80])
        reply = drv.ask1('resp.bilinear %s %s %s %s %d %s' % (fstr(alpha), fstr(dt), ','.join(map(fstr, num)), ','.join(map(fstr, den)), m, ','.join(map(fstr, x))))
        chk.coverage['correspondence']['compared'] += 1
        if isinstance(real, str) or reply == 'singular':
            if not (isinstance(real, str) and reply == 'singular'):
                self.disagree('respBilinear-acceptance', dict(inp, lcapy=str(real)[:100], model=reply[:60]))
            return
        ok = drv.ask1('resp.near %s %s %s' % (fstr(SIM_TOL), ','.join(map(fstr, real)), reply)) == 'true'
        chk.count('resp_outcome', 'agree' if ok else 'differ')
        if not ok:
            self.disagree('respBilinear', dict(inp, lcapy=[float(v) for v in real][:8], model=reply[:160]))
            # the Lean model with the DOCUMENTED alpha of the method (bilinear_coeffs_value: the substitution
            # s = (1/dt)(1 - 1/z)/(alpha + (1 - alpha)/z)) is also the Spec for the real output
            self.counter['n'] += 1
            chk.counterexample({'kind': 'response', 'what': 'bilinear-family', 'method': method},
                               dict(input=inp, lcapy=[float(v) for v in real], spec='lfilter of the alpha = %s substitution: %s' % (fstr(alpha), reply[:300])),
                               'response(method=%s) is not the difference equation of the documented substitution' % method)

    def check_resp_ii(self, i):
        """impulse invariance with a POLYNOMIAL kernel: H = q0 + c0/s + c1/s^2 (+ 2 c2/s^3), h(t) = (c0 + c1 t + c2 t^2) u(t):
        every lag value is rational, the model is exact; time vector starting anywhere"""
        chk, rng, drv, L, np = self.chk, self.rng, self.drv, self.L, self.L.np
        s_ = L.vars['s'].sympy
        kern = [Fraction(rng.randint(-3, 3), rng.choice([1, 2])) for _ in range(rng.randint(1, 3))]
        if kern[-1] == 0:
            kern[-1] = Fraction(1)
        q0 = Fraction(rng.choice([0, 0, 1, -2, 3]), rng.choice([1, 2]))
        dt = Fraction(1, rng.choice([2, 4, 8]))
        N = rng.randint(6, 12)
        t0 = Fraction(rng.choice([0, -3, -1, 2, 5, 1, -6, 4])) * dt
        x = [Fraction(rng.randint(-8, 8), rng.choice([1, 2, 4])) for _ in range(N)]
        self.run_resp_ii(kern, q0, dt, t0, x)

    def run_resp_ii(self, kern, q0, dt, t0, x):
        chk, drv, L, np = self.chk, self.drv, self.L, self.L.np
        s_ = L.vars['s'].sympy
        N = len(x)
        e = L.R(q0) + sum(L.R(c) * math.factorial(k) / s_ ** (k + 1) for k, c in enumerate(kern))
        H = L.lcapy.transfer(L.lcapy.expr(e))
        tv = np.array([float(t0 + k * dt) for k in range(N)])
        inp = {'stream': 'resp-ii', 'H': str(e), 'kernel': [fstr(c) for c in kern], 'q0': fstr(q0), 'dt': fstr(dt), 't0': fstr(t0), 'x': [fstr(v) for v in x]}
        chk.case(('resp-ii', str(e), fstr(dt), fstr(t0), tuple(inp['x'])), nontrivial=True)
        chk.count('resp_method', 'impulse-invariance')
        chk.count('resp_start', 'zero' if t0 == 0 else 'negative' if t0 < 0 else 'positive')
        try:
            with self.time_limit(60):
                y = np.real(H.response(np.array([float(v) for v in x]), tv, method='impulse-invariance'))
            real = [fr(v) for v in y]
            if any(math.isnan(float(v)) for v in y):
                raise ValueError('nan in the response')
        except self.Timeout:
            chk.count('degenerate', 'sympy-timeout')
            return
        except Exception as ex:   # noqa
            real = '%s: %s' % (type(ex).__name__, str(ex)[:80])
        q = fstr(q0) if q0 != 0 else '-'
        ks, xs, tvs = ','.join(map(fstr, kern)), ','.join(map(fstr, x)), ','.join(fstr(t0 + k * dt) for k in range(N))
        reply = drv.ask1('resp.ii %s %s %s %s %s' % (ks, q, xs, tvs, fstr(dt)))
        chk.coverage['correspondence']['compared'] += 1
        if isinstance(real, str):
            chk.count('resp_outcome', 'lcapy-error')
            ok = False
        else:
            ok = drv.ask1('resp.near %s %s %s' % (fstr(SIM_TOL), ','.join(map(fstr, real)), reply)) == 'true'
            chk.count('resp_outcome', 'agree' if ok else 'differ')
        if not ok:
            self.disagree('respII', dict(inp, lcapy=str(real)[:160], model=reply[:160]))
        # ---- oracle: the Lean Spec (kernel at LAGS k dt, whatever t[0] is) + direct term, on Lcapy's own output
        spec = [Fraction(v) + q0 * xv for v, xv in zip(drv.ask1('resp.convsum %s %s %s' % (ks, xs, fstr(dt))).split(','), x)]
        good = (not isinstance(real, str)) and drv.ask1('resp.near %s %s %s' % (fstr(SIM_TOL), ','.join(map(fstr, real)), ','.join(map(fstr, spec)))) == 'true'
        if not good:
            self.counter['n'] += 1
            chk.counterexample({'kind': 'response', 'what': 'kernel-lags', 'method': 'impulse-invariance'},
                               dict(input=inp, lcapy=str(real if isinstance(real, str) else [float(v) for v in real])[:300],
                                    spec='y[n] = q0 x[n] + dt sum_k x[n-k] h(k dt) = %s' % [float(v) for v in spec]),
                               'response(method=impulse-invariance) is not the convolution with the kernel sampled at the lags k dt')

    def closed_form(self, a, b, w, T0):
        """y for H = b/(s+a), x = sin(w (t - T0)) u(t - T0)"""
        def y(tt):
            tau = tt - T0
            if tau <= 0:
                return 0.0
            return b * (w * math.exp(-a * tau) + a * math.sin(w * tau) - w * math.cos(w * tau)) / (a * a + w * w)
        return y

    def check_resp_shift(self, i):
        """start-time invariance and convergence, every method: the same delayed input given on time vectors that start at 0,
        before 0 and after 0 (always before the input starts) must give the same response after shifting, and the response
        must approach the closed form as dt shrinks"""
        chk, rng, drv, L, np = self.chk, self.rng, self.drv, self.L, self.L.np
        methods = ['impulse-invariance', 'bilinear', 'backward-euler', 'gbf', 'euler', 'impulse-invariance', 'trapezoidal']
        method = methods[i % len(methods)]
        a = float(rng.randint(1, 3))
        b = float(rng.randint(1, 4))
        w = float(rng.choice([1, 2, 3]))
        T0 = rng.choice([1.5, 2.0, 1.25])
        mk = rng.choice(['transfer', 'expr'])
        s_ = L.vars['s'].sympy
        H = getattr(L.lcapy, mk)(L.lcapy.expr(L.R(Fraction(b)) / (s_ + L.R(Fraction(a)))))
        yref = self.closed_form(a, b, w, T0)
        xfun = lambda tt: math.sin(w * (tt - T0)) if tt > T0 else 0.0   # noqa
        amp = b / math.sqrt(a * a + w * w)
        starts = [0.0, -1.0, 1.0, -0.5]
        span = 4.0
        detail = {'H': '%g/(s+%g)' % (b, a), 'quantity': mk, 'method': method, 'input': 'sin(%g (t-%g)) u(t-%g)' % (w, T0, T0), 'starts': starts}
        chk.case(('resp-shift', detail['H'], mk, method, w, T0), nontrivial=True)
        chk.count('resp_shift_method', method)
        try:
            with self.time_limit(120):
                ys = {}
                dtv = 1.0 / 64
                for st in starts:
                    n = int(round((span + 1.0 - st) / dtv)) + 1
                    tv = st + dtv * np.arange(n)
                    xv = np.array([xfun(tt) for tt in tv])
                    ys[st] = (tv, np.real(H.response(xv, tv, method=method, alpha=0.3)))
                # (1) shift agreement against the run that starts at 0, judged by Lean
                t_ref, y_ref = ys[0.0]
                for st in starts[1:]:
                    tv, y = ys[st]
                    m = int(round((0.0 - st) / dtv))     # index of t = 0 in the run starting at st (negative if st > 0)
                    if m >= 0:
                        u, v = y[m:], y_ref[:len(y) - m]
                    else:
                        u, v = y[:len(y_ref) + m], y_ref[-m:]
                    k = min(len(u), len(v))
                    u, v = u[:k:8], v[:k:8]
                    chk.count('resp_shift_pairs', 'start %g vs 0' % st)
                    j = drv.ask1('resp.near %s %s %s' % (fstr(SIM_TOL * 1000), ','.join(fstr(fr(z)) for z in u), ','.join(fstr(fr(z)) for z in v)))
                    if j != 'true':
                        self.counter['n'] += 1
                        dmax = float(np.max(np.abs(np.array(u) - np.array(v))))
                        chk.counterexample({'kind': 'response', 'what': 'start-time-invariance', 'method': method},
                                           dict(input=dict(detail, stream='resp-shift', dt=dtv, start=st), lcapy='max |y_start(t) - y_0(t)| = %.3e on the common times' % dmax,
                                                spec='causal LTI response of an input that is zero before %g: independent of where the time vector starts' % T0),
                                           'response() depends on the start time of the time vector')
                        return
                # (2) convergence to the closed form, time vector NOT starting at 0
                st = rng.choice([-1.0, 1.0, -0.5])
                errs = []
                for dtv in (1.0 / 32, 1.0 / 64, 1.0 / 128):
                    n = int(round((span + 1.0 - st) / dtv)) + 1
                    tv = st + dtv * np.arange(n)
                    xv = np.array([xfun(tt) for tt in tv])
                    y = np.real(H.response(xv, tv, method=method, alpha=0.3))
                    errs.append(float(np.max(np.abs(y - np.array([yref(tt) for tt in tv])))))
        except self.Timeout:
            chk.count('degenerate', 'sympy-timeout')
            return
        except Exception as ex:   # noqa
            errs = ['%s: %s' % (type(ex).__name__, str(ex)[:100])]
            st = None
        first_order = method in ('impulse-invariance', 'backward-euler', 'euler', 'gbf')
        tol = (0.08 if first_order else 0.01) * amp
        ok = len(errs) == 3 and errs[2] <= tol and errs[2] <= 0.7 * errs[0]
        self.ho('response-convergence-nonzero-start', ok, dict(detail, start=st, max_abs_error_for_dt_1_32_64_128=errs, tolerance=tol))

    # ------------------------------------------------------------------------------------------- I. causal flag through operations
    def check_causal_ops(self, i):
        chk, rng, drv, L, sym = self.chk, self.rng, self.drv, self.L, self.L.sym
        toks, to_sympy = self.toks, L.to_sympy
        t = L.vars['t']
        c = lambda p, q=1: ('c', Fraction(p, q))   # noqa
        var = ('var',)

        def poly():
            return rng.choice([c(rng.randint(1, 4)), ('add', var, c(rng.randint(1, 3))), ('add', ('pow', 2, var), c(1)), ('mul', c(rng.randint(2, 3)), var)])

        def affine_ast(a, b):
            e = var if a == 1 else ('mul', ('c', a), var)
            return e if b == 0 else ('add', e, ('c', b))

        def subst(e, rep):
            if e[0] == 'var':
                return rep
            if e[0] in ('c', 'nan'):
                return e
            if e[0] in ('add', 'sub', 'mul', 'div'):
                return (e[0], subst(e[1], rep), subst(e[2], rep))
            if e[0] == 'neg':
                return ('neg', subst(e[1], rep))
            if e[0] in ('pow', 'app'):
                return (e[0], e[1], subst(e[2], rep))
            raise ValueError(e[0])

        # a causal signal, three ways of getting the flag
        body = poly()
        h_ast = ('mul', body, ('app', 'heaviside', var))
        how = ['explicit', 'inferred', 'ilt'][i % 3]
        if how == 'explicit':
            h = L.lcapy.expr(to_sympy(h_ast, t.sympy), causal=True)
        elif how == 'inferred':
            h = L.lcapy.expr(to_sympy(h_ast, t.sympy))
            _ = h.is_causal      # the inference is stored in the expression's assumptions
        else:
            c0, c1 = Fraction(rng.randint(1, 4)), Fraction(rng.randint(1, 3))
            s_ = L.vars['s'].sympy
            try:
                with self.time_limit(30):
                    h = L.lcapy.expr(L.R(c0) / s_ + L.R(c1) / s_ ** 2)(t, causal=True)
            except self.Timeout:
                chk.count('degenerate', 'sympy-timeout')
                return
            h_ast = ('mul', ('add', ('c', c0), ('mul', ('c', c1), var)), ('app', 'heaviside', var))
        op = ['subs', 'call', 'add', 'radd', 'sub', 'mul', 'subs', 'add'][i % 8]
        try:
            if op in ('subs', 'call'):
                a, b = rng.choice([(1, 1), (1, Fraction(1, 2)), (1, 2), (-1, 0), (2, 1), (1, -1), (2, 0), (Fraction(1, 2), -1), (-1, 1), (1, Fraction(3, 2))])
                a, b = Fraction(a), Fraction(b)
                rep = affine_ast(a, b)
                r_ast = subst(h_ast, rep)
                arg = L.R(a) * t + L.R(b)
                R = h.subs(t, arg) if op == 'subs' else h(arg)
                opd = '%s: t -> %s*t + %s' % (op, fstr(a), fstr(b))
            else:
                d = Fraction(rng.choice([1, 2, -1, 0, -2, 1]), rng.choice([1, 2]))
                g_ast = rng.choice([('mul', poly(), ('app', 'heaviside', ('add', var, ('c', d)))), poly(), c(rng.randint(1, 3)),
                                    ('mul', poly(), ('app', 'heaviside', ('add', var, ('c', abs(d) + 1))))])
                g = L.lcapy.expr(to_sympy(g_ast, t.sympy))
                if op == 'add':
                    R, r_ast = h + g, ('add', h_ast, g_ast)
                elif op == 'radd':
                    R, r_ast = g + h, ('add', g_ast, h_ast)
                elif op == 'sub':
                    R, r_ast = h - g, ('sub', h_ast, g_ast)
                else:
                    R, r_ast = h * g, ('mul', h_ast, g_ast)
                opd = '%s with g = %s' % (op, str(g.sympy))
        except Exception as ex:   # noqa
            chk.count('degenerate', 'causal-op-raises:' + type(ex).__name__)
            return
        if not hasattr(R, 'sympy') or not R.sympy.has(t.sympy):
            chk.count('degenerate', 'variable-simplified-away')
            return
        tk = ' '.join(toks(r_ast))
        flagged = bool(R.is_causal)
        chk.count('causal_ops', '%s/%s/flag=%s' % (how, op, flagged))
        for xq in [Fraction(-1, 4), Fraction(-3, 4), Fraction(-5, 4), Fraction(-1, 8), Fraction(-3), Fraction(3, 4)]:
            chk.case(('causal-ops', how, opd, tk, xq), nontrivial=True)
            reg = drv.ask1('ev.regular %s %s' % (fstr(xq), tk)) == 'true'
            sp = drv.ask1('ev.spec %s %s' % (fstr(xq), tk))
            if not reg or not sp.startswith('val'):
                chk.count('degenerate', 'causal-ops-non-regular-point')
                continue
            want = Fraction(sp.split()[1])
            rn = L.numeric(R, float(xq))
            rs = L.symbolic(R, xq)
            if rs[0] == 'val' and rs[1] != want:
                # the model's reading of the operation itself is wrong (SymPy restructured the expression?): not judged
                chk.count('degenerate', 'causal-ops-ast-differs-from-sympy')
                continue
            ok = rn[0] == 'val' and abs(rn[1].imag) < 1e-12 and abs(Fraction(rn[1].real) - want) <= SIM_TOL * max(1, abs(want))
            if not ok:
                self.counter['n'] += 1
                key_op = 'subs' if op in ('subs', 'call') else ('add' if op in ('add', 'radd', 'sub') else op)
                chk.counterexample({'kind': 'causal', 'side': 'propagation', 'op': key_op},
                                   dict(input={'stream': 'causal-ops', 'h': str(h.sympy), 'how_causal': how, 'operation': opd, 'result': str(R.sympy), 'tokens': tk, 'x': fstr(xq)},
                                        lcapy={'is_causal': flagged, 'evaluate': str(rn), 'subs': str(rs)}, spec='specEval = %s at the regular point %s' % (sp, fstr(xq))),
                                   'the causal assumption survives an operation that makes the signal non-zero at negative times: evaluate() differs from the exact value')
                break

    # ------------------------------------------------------------------------------------------- J. fallbacks at zeros of a denominator
    def check_fallback(self, i):
        """p(t)/q(t) with a common zero of chosen multiplicities at a dyadic point x0: scalar (Python float), NumPy scalar,
        list and ndarray arguments.  Model: `lim.eval` (which fallback, which value).  Oracle: the returned number is the
        value of exact substitution into the cancelled expression; list/ndarray agree element-wise with the scalar call."""
        chk, rng, drv, L, sym, np = self.chk, self.rng, self.drv, self.L, self.L.sym, self.L.np
        vname = ['t', 's', 'f', 'omega'][i % 4]
        v = L.vars[vname].sympy
        x0 = Fraction(rng.choice([1, -2, 3, 0, 1, -1, 5]), rng.choice([1, 1, 2, 4]))
        kp, kq = rng.choice([(1, 1), (2, 1), (1, 2), (2, 2), (0, 1), (0, 2), (1, 0), (1, 1)])

        def pol(avoid):
            while True:
                cs = [Fraction(rng.randint(-4, 4)) for _ in range(rng.randint(1, 3))]
                if cs[-1] == 0:
                    cs[-1] = Fraction(1)
                if sum(c * avoid ** k for k, c in enumerate(cs)) != 0:
                    return cs

        def pmul(a, b):
            out = [Fraction(0)] * (len(a) + len(b) - 1)
            for ia, ca in enumerate(a):
                for ib, cb in enumerate(b):
                    out[ia + ib] += ca * cb
            return out
        p, q = pol(x0), pol(x0)
        den = x0.denominator
        lin = [Fraction(-x0.numerator), Fraction(den)]       # den * t - num: integer coefficients, exact in floats
        for _ in range(kp):
            p = pmul(p, lin)
        for _ in range(kq):
            q = pmul(q, lin)
        P = sum(L.R(c) * v ** k for k, c in enumerate(p))
        Q = sum(L.R(c) * v ** k for k, c in enumerate(q))
        e = sym.Mul(P, sym.Pow(Q, -1))
        if not e.has(v):
            chk.count('degenerate', 'variable-simplified-away')
            return
        fn_, fd_ = sym.fraction(e)
        if sym.expand(fn_ * Q - fd_ * P) != 0 or sym.expand(fd_ - Q) not in (0,) and sym.expand(fd_ + Q) != 0:
            # SymPy cancelled a monomial factor while the quotient was built: Lcapy holds a different object from the model's
            chk.count('degenerate', 'quotient-restructured-by-sympy')
            return
        E = L.lcapy.expr(e)
        if vname == 't' and E.is_causal:
            return
        ps, qs = ','.join(map(fstr, p)), ','.join(map(fstr, q))
        inp = {'stream': 'fallback', 'var': vname, 'expr': str(e), 'p': ps, 'q': qs, 'x0': fstr(x0), 'multiplicity': [kp, kq]}
        exact = sym.cancel(e).subs(v, L.R(x0))
        calls = []
        orig_limit, orig_simplify = sym.Expr.limit, sym.simplify

        def w_limit(self_, *a, **k):
            calls.append('limit')
            return orig_limit(self_, *a, **k)

        def w_simplify(*a, **k):
            calls.append('simplify')
            return orig_simplify(*a, **k)
        results = {}
        for form, arg, py in (('python-float', float(x0), 1), ('numpy-scalar', np.float64(float(x0)), 0), ('python-complex', complex(float(x0), 0.0), 1)):
            del calls[:]
            sym.Expr.limit, sym.simplify = w_limit, w_simplify
            try:
                rn = L.numeric(E, arg)
            finally:
                sym.Expr.limit, sym.simplify = orig_limit, orig_simplify
            trace = list(calls)
            if rn[0] == 'timeout':
                chk.count('degenerate', 'sympy-timeout')
                return
            results[form] = rn
            m = drv.ask1('lim.eval %d %s %s %s' % (py, ps, qs, fstr(x0)))
            path, _, out = m.partition(' ')
            chk.case(('fallback', str(e), vname, fstr(x0), form), nontrivial=True)
            chk.count('fallback_path', '%s/%s' % (form, path))
            want_trace = {'direct': [], 'zerodiv': ['limit'], 'nan': ['limit'], 'inf': ['simplify', 'limit']}[path]
            if out == 'other' and path in ('zerodiv', 'nan'):
                want_trace = ['limit', 'simplify', 'limit']
            chk.coverage['correspondence']['compared'] += 1
            if out.startswith('val'):
                r = Fraction(out.split()[1])
                ok = rn[0] == 'val' and abs(rn[1] - complex(float(r))) <= 1e-9 * max(1.0, abs(float(r)))
            else:
                ok = rn[0] in ('inf', 'err', 'nan')
            if not ok or trace != want_trace:
                self.disagree('evalRatfun', dict(inp, form=form, lcapy=str(rn), lcapy_fallbacks=trace, model=m, model_fallbacks=want_trace))
            # oracle: a number returned at a removable singularity is the value of exact substitution into the cancelled expression
            if rn[0] == 'val' and exact.is_Rational:
                ex = Fraction(int(exact.p), int(exact.q))
                if abs(rn[1] - complex(float(ex))) > 1e-9 * max(1.0, abs(float(ex))):
                    self.counter['n'] += 1
                    chk.counterexample({'kind': 'fallback', 'what': 'wrong-limit-value', 'repeated_root': min(kp, kq) >= 2, 'form': form},
                                       dict(input=dict(inp, form=form), lcapy=str(rn), lcapy_fallbacks=trace, spec='cancelled expression at x0: %s' % fstr(ex)),
                                       'evaluate() at a removable singularity is not the value of the simplified expression')
            elif rn[0] == 'val' and not exact.is_finite:
                self.counter['n'] += 1
                chk.counterexample({'kind': 'fallback', 'what': 'wrong-limit-value', 'repeated_root': min(kp, kq) >= 2, 'form': form},
                                   dict(input=dict(inp, form=form), lcapy=str(rn), lcapy_fallbacks=trace, spec='a pole: no finite value'),
                                   'evaluate() returns a finite number at a pole')
        # list / ndarray: element-wise the scalar results, through the other fallback
        x1 = x0 + Fraction(1, 2)
        r1 = L.numeric(E, float(x1))
        for form, arg in (('list', [float(x0), float(x1)]), ('ndarray', np.array([float(x1), float(x0)])), ('tuple', (float(x0), float(x0)))):
            chk.case(('fallback', str(e), vname, fstr(x0), form), nontrivial=True)
            try:
                with self.time_limit(30):
                    arr = [complex(z) for z in np.atleast_1d(E.evaluate(arg))]
                st = 'array'
            except self.Timeout:
                chk.count('degenerate', 'sympy-timeout')
                continue
            except Exception as ex:   # noqa
                arr, st = type(ex).__name__, 'error'
            order = {'list': ['python-float', None], 'ndarray': [None, 'python-float'], 'tuple': ['python-float', 'python-float']}[form]
            scal = [results['python-float'] if o else r1 for o in order]
            bad = None
            if st == 'array':
                for a, r in zip(arr, scal):
                    if r[0] == 'val' and not abs(a - r[1]) <= 1e-12 * max(1.0, abs(r[1])):
                        bad = 'element %r differs from the scalar result %r' % (a, r[1])
                    if r[0] == 'inf' and not (math.isinf(a.real) or math.isinf(a.imag)):
                        bad = 'element %r where the scalar call gives inf' % (a,)
            elif all(r[0] in ('val', 'inf') for r in scal):
                bad = 'raises %s although every scalar call returns' % arr
            chk.count('fallback_array', '%s/%s' % (form, 'ok' if not bad else 'differs'))
            if bad:
                self.counter['n'] += 1
                chk.counterexample({'kind': 'array', 'form': form}, dict(input=dict(inp, stream='fallback-array', form=form, xs=[fstr(x0), fstr(x1)]), lcapy=str(arr)[:200], scalar=[str(r) for r in scal], spec=bad),
                                   'array evaluation at a removable singularity does not agree element-wise with scalar evaluation')

    def check_complex_array(self, i):
        """H(s) on a 1-D array of points j w (broadcasting over the array), against element-wise scalar evaluation (exactly) and
        the exact Gaussian-rational value (1e-9)"""
        chk, rng, L, sym, np = self.chk, self.rng, self.L, self.L.sym, self.L.np
        vname = ['s', 'jomega', 'z'][i % 3]
        v = L.vars['s' if vname != 'z' else 'z'].sympy
        num = sum(L.R(Fraction(rng.randint(-4, 4), rng.choice([1, 2]))) * v ** k for k in range(rng.randint(1, 3)))
        den = v ** 2 + L.R(Fraction(rng.randint(1, 5))) * v + L.R(Fraction(rng.randint(1, 9)))
        e = num / den
        if not e.has(v):
            return
        E = L.lcapy.expr(e)
        ws = [Fraction(rng.randint(-16, 16), rng.choice([1, 2, 4])) for _ in range(4)]
        pts = [complex(0.0, float(w)) for w in ws]
        chk.case(('complex-array', str(e), tuple(fstr(w) for w in ws)), nontrivial=True)
        try:
            with self.time_limit(30):
                arr = [complex(z) for z in np.atleast_1d(E.evaluate(np.array(pts)))]
                scal = [complex(E.evaluate(p_)) for p_ in pts]
        except self.Timeout:
            chk.count('degenerate', 'sympy-timeout')
            return
        except Exception as ex:   # noqa
            self.ho('complex-array-j-omega', False, {'expr': str(e), 'points': [fstr(w) for w in ws], 'error': '%s: %s' % (type(ex).__name__, str(ex)[:80])})
            return
        ok = True
        for w, a, sc in zip(ws, arr, scal):
            ref = complex(sym.N(sym.simplify(e.subs(v, sym.I * L.R(w))), 30))
            # NumPy's and CPython's complex division round differently in the last place: a few ulp, not bit equality
            if abs(a - sc) > 1e-14 * max(1.0, abs(sc)) or abs(a - ref) > 1e-9 * max(1.0, abs(ref)):
                ok = False
        self.ho('complex-array-j-omega', ok, {'expr': str(e), 'points': ['j*' + fstr(w) for w in ws], 'array': str(arr)[:200], 'scalar': str(scal)[:200]})

    # ------------------------------------------------------------------------------------------- K. floats
    def float_program(self, expr, var):
        """the return expression of the function lambdify generates for `expr` (same module list as Expr.evaluate), as prefix
        tokens of FloatEval.FE; None if it is not a straight-line + - * / program"""
        import ast
        import inspect
        import struct
        sym = self.L.sym
        f = sym.lambdify(var, expr, [{}, 'scipy', 'numpy', 'math', 'sympy'])
        src = inspect.getsource(f)
        ret = [ln.strip() for ln in src.splitlines() if ln.strip().startswith('return ')]
        if len(ret) != 1:
            return None, src
        tree = ast.parse(ret[0][len('return '):], mode='eval').body
        bits = lambda x: struct.unpack('<Q', struct.pack('<d', float(x)))[0]   # noqa

        def go(n):
            if isinstance(n, ast.Name) and n.id == str(var):
                return ['x']
            if isinstance(n, ast.Constant) and isinstance(n.value, (int, float)) and not isinstance(n.value, bool):
                if isinstance(n.value, int) and abs(n.value) >= 2 ** 53:
                    raise ValueError('big int')
                return ['c:%d' % bits(n.value)]
            if isinstance(n, ast.BinOp) and type(n.op) in (ast.Add, ast.Sub, ast.Mult, ast.Div):
                # int (op) int is computed by Python in integers: only a true division of two literals can occur, where
                # float(a)/float(b) is the same correctly rounded quotient
                return [{ast.Add: 'add', ast.Sub: 'sub', ast.Mult: 'mul', ast.Div: 'div'}[type(n.op)]] + go(n.left) + go(n.right)
            if isinstance(n, ast.UnaryOp) and isinstance(n.op, ast.USub):
                return ['neg'] + go(n.operand)
            raise ValueError(type(n).__name__)
        try:
            return go(tree), src
        except ValueError:
            return None, src

    def float_table(self, n):
        """rows (program, argument bits, bits evaluate() returned) for the kernel-checked table; no driver needed"""
        import struct
        rng, L, sym = self.rng, self.L, self.L.sym
        bits = lambda x: struct.unpack('<Q', struct.pack('<d', float(x)))[0]   # noqa
        rows = []
        tries = 0
        while len(rows) < n and tries < 10 * n:
            tries += 1
            v = L.vars[['t', 'f', 's', 'omega'][tries % 4]].sympy
            e = L.R(Fraction(rng.randint(1, 9), rng.choice([1, 2, 3, 7])))
            for _ in range(rng.randint(1, 3)):
                e = sym.Add(L.R(Fraction(rng.randint(-9, 9) or 2, rng.choice([1, 2, 5]))), sym.Mul(v, e, evaluate=False), evaluate=False)
            d = sym.Add(L.R(Fraction(rng.randint(1, 9))), sym.Mul(v, v, evaluate=False), evaluate=False)
            E = L.lcapy.expr(sym.Mul(e, sym.Pow(d, -1, evaluate=False), evaluate=False))
            if not E.sympy.has(v):
                continue
            prog, _ = self.float_program(E.sympy, v)
            if prog is None:
                continue
            x = rng.uniform(-8, 8)
            try:
                r = E.evaluate(x)
            except Exception:   # noqa
                continue
            if isinstance(r, complex) or math.isnan(r) or math.isinf(r):
                continue
            rows.append((prog, bits(x), bits(r)))
        return rows

    def check_float(self, i, table):
        """evaluate() of a rational function in Horner form at float points == Lean Float run of lambdify's program, bit for bit"""
        import struct
        chk, rng, drv, L, sym = self.chk, self.rng, self.drv, self.L, self.L.sym
        vname = ['t', 'f', 's', 'omega', 'z'][i % 5]
        v = L.vars[vname].sympy

        def horner(n):
            e = L.R(Fraction(rng.randint(-9, 9) or 1, rng.choice([1, 1, 2, 3, 5, 7])))
            for _ in range(n):
                e = sym.Add(L.R(Fraction(rng.randint(-9, 9) or 2, rng.choice([1, 2, 3, 4, 10]))), sym.Mul(v, e, evaluate=False), evaluate=False)
            return e
        num, den = horner(rng.randint(1, 4)), horner(rng.randint(1, 3))
        e = sym.Mul(num, sym.Pow(den, -1, evaluate=False), evaluate=False)
        E = L.lcapy.expr(e)
        if not E.sympy.has(v) or (vname == 't' and E.is_causal):
            return
        prog, src = self.float_program(E.sympy, v)
        if prog is None:
            chk.count('float_tests', 'not-straight-line')
            return
        bits = lambda x: struct.unpack('<Q', struct.pack('<d', float(x)))[0]   # noqa
        pts = [rng.uniform(-4, 4), rng.uniform(-1e3, 1e3), rng.uniform(-1, 1) * 1e-3, float(rng.randint(-50, 50)) / 7.0, rng.uniform(1e5, 1e9),
               float(Fraction(rng.randint(-64, 64), 16))]
        for x in pts:
            chk.case(('float', str(e), repr(x)), nontrivial=True)
            try:
                r = E.evaluate(x)
            except Exception as ex:   # noqa
                chk.count('float_tests', 'evaluate-raises')
                continue
            if isinstance(r, complex) or math.isnan(r) or math.isinf(r):
                chk.count('float_tests', 'non-finite')
                continue
            got = bits(r)
            m = drv.ask1('flt.run %d %s' % (bits(x), ' '.join(prog)))
            chk.count('float_tests', 'bit-identical' if str(got) == m else 'DIFFERENT')
            if str(got) != m:
                self.counter['n'] += 1
                chk.counterexample({'kind': 'float', 'what': 'straight-line'}, dict(input={'stream': 'float', 'expr': str(e), 'x': repr(x), 'xbits': bits(x), 'program': ' '.join(prog),
                                                                                            'lambdify_source': src}, lcapy={'value': repr(r), 'bits': got}, spec='Lean Float run of the program: bits %s' % m),
                                   'evaluate() at a float point is not the correctly rounded straight-line evaluation of the lambdified code')
            elif len(table) < 24 and x == pts[0]:
                table.append((prog, bits(x), got))


def fe_lean(prog):
    """prefix tokens -> Lean term of FloatEval.FE"""
    toks_ = list(prog)

    def go():
        t = toks_.pop(0)
        if t == 'x':
            return '.x'
        if t.startswith('c:'):
            return '(.c %s)' % t[2:]
        if t == 'neg':
            return '(.neg %s)' % go()
        a = go()
        b = go()
        return '(.%s %s %s)' % (t, a, b)
    return go()


def float_table_text(rows):
    out = ['/- GENERATED by harness/c17.py (stream K) -- do not edit.  (program, argument bits, bits returned by Lcapy\'s evaluate()) -/',
           'import Lcapy.Model.FloatEval', 'namespace Lcapy.Gen.FloatTests', 'open Lcapy.FloatEval',
           'def table : List (FE × UInt64 × UInt64) := [']
    out.append(',\n'.join('  (%s, %d, %d)' % (fe_lean(p), xb, rb) for p, xb, rb in rows))
    out += [']', 'end Lcapy.Gen.FloatTests', '']
    return '\n'.join(out)
