"""C05 -- behaviour-preserving netlist rewrites leave retained voltages/currents unchanged.

1. lake build Lcapy.Props.C05 + drv_c05; #print axioms audit of every theorem.
2. Generated solvable netlists seeded with series chains / parallel groups of like elements
   (mixed orientation; equal / unequal / absent / mixed initial conditions; interleaved and
   observed interior nodes; chains through ground) plus dangling and disconnected parts.
3. Every rewrite of the real Lcapy is applied in worker subprocesses, one per PYTHONHASHSEED
   (2 in quick, 8 in thorough): simplify(select/ignore/keep_nodes/passes), simplify_series/parallel,
   remove_dangling/disconnected, renumber(node_map), copy, expand, subs, s_model, ac_model,
   noise_model with the noise sources killed, replace_switches(t).
4. Correspondence: the rewritten netlist (set of re-parsed components, values exact) must be one
   of the outcomes of the executable Lean model (Lcapy/Model/Rewrite.lean; the model enumerates
   every set-iteration order).
5. Oracle: original and rewritten circuits are solved by the real Lcapy (Laplace domain, exact
   values at random rational points) and the Lean spec predicate `Rewrite.firstDifference`
   (Lcapy/Spec/Retained.lean, asked through the driver) decides whether every retained node
   voltage and every untouched component's current is unchanged.
"""
import json
import os
import subprocess
import sys
import warnings
from fractions import Fraction

sys.path.insert(0, os.path.dirname(os.path.abspath(__file__)))
import common
from common import fstr

warnings.filterwarnings('ignore')

STRICT = ('simplify', 'simplify_series', 'simplify_parallel', 'remove_dangling', 'remove_disconnected',
          'renumber', 'copy')
COMPONENTWISE = ('expand', 's_model', 'ac_model', 'noise_model_killed', 'noise_model', 'replace_switches',
                 'replace_switches_before', 'subs', 'noise_killed_s_model')


# =========================================================================== worker (real Lcapy)

def worker_main():
    """reads one JSON case per line on stdin, writes one JSON result per line"""
    import sympy
    from lcapy import Circuit, s as ls
    ssym = ls.sympy

    def tofrac(x, pt):
        x = sympy.sympify(x)
        if pt is not None:
            x = x.subs(ssym, sympy.Rational(pt[0], pt[1]))
        if x.is_Float:
            x = sympy.nsimplify(x)
        if not x.is_Rational:
            x = sympy.cancel(sympy.together(x))
        if x.is_Rational:
            return '%d/%d' % (x.p, x.q) if x.q != 1 else str(x.p)
        if x.free_symbols or x.has(sympy.nan):
            return 'symbolic'       # an unresolved symbol or an undefined value: never equal to a number
        return None

    def solve(cct, pts):
        out = {'V': {}, 'I': {}}
        for n in cct.node_list:
            e = cct[n].V(ls).sympy
            out['V'][n] = [tofrac(e, p) for p in pts]
        # every node name, not only the equipotential keys
        nm = cct.node_map
        for n in cct.nodes:
            if n not in out['V'] and nm.get(n) in out['V']:
                out['V'][n] = out['V'][nm[n]]
        for name, elt in cct.elements.items():
            if elt.type in ('W', 'O', 'P', 'K', 'XX', 'A'):
                continue
            try:
                e = elt.I(ls).sympy
                out['I'][name] = [tofrac(e, p) for p in pts]
            except Exception as ex:     # noqa
                out['I'][name] = None
        return out

    def tocomplex(x, subs):
        """exact value a+bj (a, b rational) of an expression after the substitution `subs`; None otherwise"""
        x = sympy.sympify(x).subs(subs)
        x = sympy.simplify(sympy.expand_complex(sympy.cancel(sympy.together(x))))
        re, im = x.as_real_imag()
        re, im = sympy.nsimplify(re), sympy.nsimplify(im)
        if re.is_Rational and im.is_Rational:
            return '%s,%s' % (re, im)
        return None

    def canon(cct, s0, csubs=None):
        """netlist as a list of canonical element tuples (name, nodes, kw, val, ic, extra); dummy nodes
        (`_nodeanon<N>`, numbered per Circuit object) are renamed `_d1, _d2, …` in order of appearance"""
        import hashlib
        from lcapy import expr
        out = []
        for name, elt in cct.elements.items():
            ty = elt.type
            nm = name
            rel = name.split('.')[-1]
            if rel[1:].startswith('anon') and rel[0] in 'AOWP':
                nm = rel[0]
            kw = elt.keyword[1] if elt.keyword and elt.keyword[1] else ''
            args = [a for a in elt.args]
            pre = []
            if ty in ('F', 'H') and args:
                pre, args = [str(args[0])], args[1:]
            while args and args[-1] is None:
                args = args[:-1]

            def ev(a):
                try:
                    if csubs is not None:
                        return tocomplex(expr(a).sympy, csubs)
                    r = tofrac(expr(a).sympy, s0)
                    return None if r == 'symbolic' else r
                except Exception:   # noqa
                    return None
            val = ic = None
            extra = list(pre)
            if args:
                val = ev(args[0])
                if val is None:
                    extra.append('raw' + hashlib.md5(str(args[0]).encode()).hexdigest()[:8])
                rest = args[1:]
                if ty in ('L', 'C') and rest:
                    ic = ev(rest[0])
                    rest = rest[1:]
                if ty == 'E':       # Lcapy appends the default common-mode gain 0
                    rest = [r for r in rest if str(r) != '0']
                extra += [str(r).replace(' ', '') for r in rest]
            out.append([nm, list(elt.node_names), kw, val, ic, extra])
        ren = {}
        for item in out:
            for i, n in enumerate(item[1]):
                if n.startswith('_nodeanon'):
                    ren.setdefault(n, '_d%d' % (len(ren) + 1))
                    item[1][i] = ren[n]
        return out

    def apply(cct, rw):
        op = rw['op']
        kw = dict(rw.get('kwargs', {}))
        if op in ('simplify', 'simplify_series', 'simplify_parallel', 'remove_dangling', 'remove_disconnected'):
            return getattr(cct, op)(**kw)
        if op == 'renumber':
            return cct.renumber(kw.get('node_map'))
        if op in ('copy', 'expand', 's_model', 'ac_model', 'noise_model'):
            return getattr(cct, op)()
        if op == 'replace_switches_before':
            return cct.replace_switches_before(kw.get('t', 0))
        if op == 'noise_model_killed':
            n = cct.noise_model()
            noise = [name for name, e in n.elements.items() if e.type == 'V' and e.keyword[1] == 'noise']
            return n.kill(*noise) if noise else n
        if op == 'noise_killed_s_model':
            # two componentwise rewrites in a row: each allots dummy nodes, which must stay distinct
            n = cct.noise_model()
            noise = [name for name, e in n.elements.items() if e.type == 'V' and e.keyword[1] == 'noise']
            return (n.kill(*noise) if noise else n).s_model()
        if op == 'replace_switches':
            return cct.replace_switches(kw.get('t', 0))
        if op == 'subs':
            return cct.subs(kw['subs'])
        raise ValueError('unknown rewrite ' + op)

    for line in sys.stdin:
        line = line.strip()
        if not line:
            continue
        case = json.loads(line)
        res = {'id': case['id'], 'results': []}
        pts = case['pts']
        s0 = case['s0']
        try:
            cct = Circuit('\n'.join(case['lines']))
            res['orig_canon'] = canon(cct, s0)
            try:
                res['orig_ivp'] = bool(cct.is_IVP)
            except Exception:   # noqa
                res['orig_ivp'] = None
        except Exception as ex:
            res['orig_err'] = '%s: %s' % (type(ex).__name__, str(ex)[:120])
            print(json.dumps(res)); sys.stdout.flush()
            continue
        if case.get('want_orig'):
            try:
                res['orig_sol'] = solve(cct, pts)
            except Exception as ex:
                res['orig_sol_err'] = '%s: %s' % (type(ex).__name__, str(ex)[:120])
        for rw in case['rewrites']:
            r = {}
            try:
                src = cct
                if rw.get('lines'):                  # a variant netlist (symbolic values for subs)
                    src = Circuit('\n'.join(rw['lines']))
                else:
                    src = Circuit('\n'.join(case['lines']))   # fresh object: rewrites must not share caches
                if rw.get('history'):
                    # edits made IN PLACE on the one Circuit object before the rewrite
                    for h in rw['history']:
                        if h[0] == 'add':
                            src.add(h[1])
                        elif h[0] == 'remove':
                            src.remove(h[1])
                        elif h[0] == 'touch':      # populate caches (graph, analysis) before the next edit
                            src.cg
                            src.is_IVP
                    r['history_text'] = str(src).split('\n')
                    fresh = apply(Circuit(str(src)), rw)
                    r['fresh_canon'] = canon(fresh, s0)
                    r['fresh_text'] = str(fresh).split('\n')
                new = apply(src, rw)
                r['canon'] = canon(new, s0)
                r['text'] = str(new).split('\n')
                kwa = rw.get('kwargs', {})
                if rw['op'] == 'replace_switches' and 't2' in kwa:
                    # the same instant seen from just before, and another instant with no event in between
                    fresh = Circuit('\n'.join(case['lines']))
                    r['before_canon'] = canon(fresh.replace_switches_before(kwa['t']), s0)
                    r['t2_canon'] = canon(fresh.replace_switches(kwa['t2']), s0)
                if rw['op'] == 'ac_model':
                    # ac_model(omega) against s_model at s = j omega, both at omega = w0 (exact complex values)
                    from lcapy import omega as lomega
                    w0 = sympy.Rational(*kwa.get('w0', [3, 2]))
                    fresh = Circuit('\n'.join(case['lines']))
                    r['ac_at_w0'] = canon(new, s0, csubs={lomega.sympy: w0, ssym: sympy.I * w0})
                    r['s_at_jw0'] = canon(fresh.s_model(), s0, csubs={ssym: sympy.I * w0})
                try:
                    r['ivp'] = bool(new.is_IVP)
                except Exception:   # noqa
                    r['ivp'] = None
            except Exception as ex:
                r['err'] = type(ex).__name__
                r['errmsg'] = str(ex)[:120]
                res['results'].append(r)
                continue
            if ('orig_sol' in res or case.get('solve_new')) and not rw.get('no_solve'):
                try:
                    r['sol'] = solve(new, pts)
                except Exception as ex:
                    r['sol_err'] = '%s: %s' % (type(ex).__name__, str(ex)[:120])
            res['results'].append(r)
        print(json.dumps(res)); sys.stdout.flush()


# =========================================================================== generator

def rv(rng, lo=1, hi=6, dmax=3):
    return Fraction(rng.randint(lo, hi), rng.randint(1, dmax))


def rsrc(rng):
    while True:
        x = rng.randint(-6, 6)
        if x:
            return Fraction(x)


class Gen:
    """builds one netlist as a list of element dicts {name, nodes, kw, val, ic, extra}"""

    def __init__(self, rng, flavour):
        self.rng = rng
        self.flavour = flavour          # 'dc' (R + dc sources), 'step' (RLC, no ICs), 'ivp' (ICs)
        # a third of the ivp circuits carry only EXPLICIT ZERO initial conditions, and only inside groups:
        # the circuit is an initial-value problem solely because of them
        self.zero_ic = flavour == 'ivp' and rng.random() < 0.34
        self.elts = []
        self.counts = {}
        self.nnode = 0
        self.features = []

    def name(self, ty):
        self.counts[ty] = self.counts.get(ty, 0) + 1
        return '%s%d' % (ty, self.counts[ty])

    def fresh(self):
        self.nnode += 1
        return 'n%d' % self.nnode

    def kw_for(self, ty):
        if ty not in ('V', 'I'):
            return ''
        if self.flavour == 'dc':
            return self.rng.choice(['dc', 'dc', ''])
        if self.flavour == 'ivp':
            return self.rng.choice(['step', 'step', 'dc'])    # resolved after generation, see gen_circuit
        return 'step'

    def ic_modes(self, ty):
        if ty not in ('L', 'C') or self.flavour != 'ivp':
            return 'absent'
        return self.rng.choice(['absent', 'equal', 'equal', 'unequal', 'unequal', 'mixed'])

    def add(self, ty, a, b, val=None, ic=None, kw=None, flip=False, extra=None):
        if val is None:
            val = rsrc(self.rng) if ty in ('V', 'I') else rv(self.rng)
        nodes = [b, a] if flip else [a, b]
        e = {'name': self.name(ty), 'ty': ty, 'nodes': nodes, 'kw': self.kw_for(ty) if kw is None else kw,
             'val': val, 'ic': ic, 'extra': extra or []}
        self.elts.append(e)
        return e

    def passive_types(self):
        if self.flavour == 'dc':
            return ['R', 'R', 'R', 'Y', 'Z']
        if self.flavour == 'ivp':
            return ['R', 'L', 'C', 'L', 'C', 'L', 'C', 'Y', 'Z']      # initial conditions live on L and C
        return ['R', 'R', 'L', 'C', 'L', 'C', 'Y', 'Z']

    def group_ics(self, ty, k):
        mode = self.ic_modes(ty)
        if self.zero_ic and ty in ('L', 'C'):
            if self.rng.random() < 0.75:
                return 'zero', [Fraction(0)] * k
            return 'absent', [None] * k
        if mode == 'absent':
            return mode, [None] * k
        if mode == 'equal':
            x = Fraction(self.rng.randint(-3, 3))
            return mode, [x] * k
        if mode == 'unequal':
            return mode, [Fraction(self.rng.randint(-3, 3)) for _ in range(k)]
        ics = [Fraction(self.rng.randint(-3, 3)) for _ in range(k)]
        ics[self.rng.randrange(k)] = None
        return mode, ics

    def series_chain(self, a, b, ty=None):
        rng = self.rng
        if ty is None:
            ty = rng.choice(self.passive_types() + ['V', 'V'])
        k = rng.choice([2, 2, 3, 4])
        mixed = rng.random() < 0.5
        icmode, ics = self.group_ics(ty, k)
        nodes = [a] + [self.fresh() for _ in range(k - 1)] + [b]
        inter = rng.random() < 0.2 and k >= 2
        pos = rng.randrange(1, k) if inter else None
        kw = self.kw_for(ty)
        kwmix = ty == 'V' and self.flavour == 'dc' and rng.random() < 0.15
        feat = {'group': 'series', 'ty': ty, 'k': k, 'mixed_orientation': False, 'ic': icmode,
                'interleaved': bool(inter), 'observed': None}
        for j in range(k):
            u, v = nodes[j], nodes[j + 1]
            if inter and j == pos:
                w = self.fresh()
                oty = rng.choice([t for t in ['R', 'C', 'L'] if t != ty and (self.flavour != 'dc' or t == 'R')] or ['R'])
                if oty == ty:
                    oty = 'Y'
                self.add(oty, u, w)
                u = w
            flip = mixed and rng.random() < 0.5
            feat['mixed_orientation'] = feat['mixed_orientation'] or flip
            self.add(ty, u, v, ic=ics[j], flip=flip,
                     kw=(rng.choice(['dc', 'ac', '']) if kwmix else kw),
                     extra=None)
        if rng.random() < 0.12 and k >= 2:
            # something that does not carry current looks at an interior node
            obs = rng.choice(['O', 'P', 'E'])
            feat['observed'] = obs
            mid = nodes[rng.randrange(1, k)]
            if obs == 'E':
                x = self.fresh()
                self.add('E', x, '0g', val=Fraction(rng.randint(1, 3)), extra=[mid, '0g'])
                self.add('R', x, '0g')
            else:
                self.add(obs, mid, '0g', val=False)
        self.features.append(feat)
        return nodes

    def parallel_group(self, a, b, ty=None):
        rng = self.rng
        if ty is None:
            ty = rng.choice(self.passive_types() + ['I', 'I'])
        k = rng.choice([2, 2, 3])
        mixed = rng.random() < 0.5
        icmode, ics = self.group_ics(ty, k)
        kw = self.kw_for(ty)
        feat = {'group': 'parallel', 'ty': ty, 'k': k, 'mixed_orientation': False, 'ic': icmode}
        feat['wired'] = False
        for j in range(k):
            flip = mixed and rng.random() < 0.5
            feat['mixed_orientation'] = feat['mixed_orientation'] or flip
            u, v = a, b
            if rng.random() < 0.35:
                # the member reaches the rails through wires: its own node names are not the
                # canonical names of the equipotential nodes
                feat['wired'] = True
                if rng.random() < 0.8:
                    u = self.fresh()
                    self.add('W', a, u, val=False)
                if rng.random() < 0.8:
                    v = self.fresh()
                    self.add('W', b, v, val=False)
            self.add(ty, u, v, ic=ics[j], flip=flip, kw=kw)
        self.features.append(feat)


def gen_circuit_any(rng, idx):
    flavour = ['dc', 'step', 'ivp'][idx % 3]
    g = Gen(rng, flavour)
    nb = rng.choice([2, 3, 3, 4])
    base = ['0g'] + ['b%d' % i for i in range(1, nb + 1)]
    g_slots = []
    # spanning path/tree then extra edges
    for i in range(1, len(base)):
        g_slots.append((base[rng.randrange(0, i)], base[i]))
    for _ in range(rng.choice([1, 1, 2, 3])):
        a, b = rng.sample(base, 2)
        g_slots.append((a, b))
    rng.shuffle(g_slots)
    # the first slot is the driving source (V, or I shunted by R)
    (a, b) = g_slots[0]
    seeded = 0
    chain_nodes = []
    if rng.random() < 0.6:
        if rng.random() < 0.35:
            chain_nodes += g.series_chain(a, b, 'V')[1:-1]
            seeded += 1
        else:
            g.add('V', a, b)
    else:
        if rng.random() < 0.4:
            g.parallel_group(a, b, 'I')
            seeded += 1
        else:
            g.add('I', a, b)
        g.add('R', a, b)
    for (a, b) in g_slots[1:]:
        r = rng.random()
        if r < 0.4 or (seeded == 0 and (a, b) == g_slots[-1]):
            ty = None
            chain_nodes += g.series_chain(a, b, ty if ty else rng.choice(g.passive_types()))[1:-1]
            seeded += 1
        elif r < 0.65:
            g.parallel_group(a, b, rng.choice(g.passive_types() + (['I'] if rng.random() < 0.3 else [])))
            seeded += 1
        else:
            g.add(rng.choice(g.passive_types()), a, b, ic=(Fraction(rng.randint(-2, 2)) if flavour == 'ivp' and not g.zero_ic and rng.random() < 0.5 else None))
    # dangling and disconnected parts
    if rng.random() < 0.35:
        x = g.fresh()
        g.add('R', rng.choice(base), x)
        g.features.append({'part': 'dangling'})
        if rng.random() < 0.4:
            y = g.fresh()
            g.add(rng.choice(['R', 'W']), x, y, val=(False if False else None))
    if rng.random() < 0.15:
        g.add('R', g.fresh(), g.fresh())
        g.features.append({'part': 'disconnected'})
    if rng.random() < 0.1:
        g.add('W', rng.choice(base), g.fresh(), val=False)
        g.features.append({'part': 'dangling-wire'})
    # which node is ground: normally a base node, sometimes the interior node of a chain (F6)
    ground = '0g'
    if chain_nodes and rng.random() < 0.12:
        ground = rng.choice(chain_nodes)
        g.features.append({'ground': 'chain-interior'})
    names = {}
    k = 0

    def nn(x):
        nonlocal k
        if x == ground:
            return '0'
        if x not in names:
            k += 1
            names[x] = str(k)
        return names[x]
    elts = []
    any_ic = any(e['ic'] is not None for e in g.elts)
    for e in g.elts:
        e = dict(e)
        if e['kw'] == 'ac':
            e['extra'] = ['0', '3']          # phase 0, omega 3
        if g.zero_ic and any_ic and e['ty'] in ('V', 'I') and e['kw'] == 'step' and rng.random() < 0.6:
            e['kw'] = 'dc'                   # a non-causal source: zero-state transient vs steady state differ
        if flavour == 'ivp' and not any_ic and e['ty'] in ('V', 'I'):
            e['kw'] = 'step'                 # dc sources next to reactances without ICs would be a steady-state problem
        e['nodes'] = [nn(x) for x in e['nodes']]
        if e['ty'] == 'E':
            e['extra'] = [nn(x) for x in e['extra']]
        if e['ty'] in ('W', 'O', 'P'):
            e['val'] = None
            e['name'] = e['name'] if e['ty'] == 'P' else e['ty']
        elts.append(e)
    rng.shuffle(elts)
    return {'flavour': flavour, 'elts': elts, 'features': g.features}


def gen_circuit(rng, idx):
    """size-capped circuits: symbolic solving time grows quickly with the number of reactances"""
    while True:
        ck = gen_circuit_any(rng, idx)
        if len(ck['elts']) <= 15 and sum(1 for e in ck['elts'] if e['ty'] in ('L', 'C')) <= 6:
            return ck


def gen_switch_case(rng, quick):
    """a source, a resistive/reactive ladder and one or two switches (normally open / normally closed /
    unmarked) with distinct activation times; replaced at instants below, between and above the events,
    at an event, and seen from just before each of these instants"""
    T = sorted(rng.sample(range(1, 9), 2))
    kinds = [rng.choice(['no', 'nc', 'no', '']), rng.choice(['no', 'nc'])]
    two = rng.random() < 0.6
    lines = ['V1 1 0 %s %d' % (rng.choice(['dc', 'step']), rng.randint(1, 9)),
             'R1 1 2 %s' % fstr(rv(rng)),
             ('SW1 2 3 %s %d' % (kinds[0], T[0])).replace('  ', ' '),
             '%s 3 0 %s' % (rng.choice(['R2', 'C1', 'L1']), fstr(rv(rng))),
             'R3 3 0 %s' % fstr(rv(rng))]
    if two:
        lines += ['SW2 3 4 %s %d' % (kinds[1], T[1]), 'R4 4 0 %s' % fstr(rv(rng))]
    events = T if two else T[:1]
    # instants with no event: (t, another instant of the same inter-event interval)
    cuts = [Fraction(0)] + [Fraction(e) for e in events] + [Fraction(events[-1] + 4)]
    rws = []
    for lo, hi in zip(cuts, cuts[1:]):
        a = lo + (hi - lo) * Fraction(rng.randint(1, 4), 10)
        b = lo + (hi - lo) * Fraction(rng.randint(5, 9), 10)
        rws.append({'op': 'replace_switches', 'kwargs': {'t': fstr(a), 't2': fstr(b)}, 'event': False})
        rws.append({'op': 'replace_switches_before', 'kwargs': {'t': fstr(a)}})
    for e in events:
        rws.append({'op': 'replace_switches', 'kwargs': {'t': e, 't2': fstr(Fraction(e) + Fraction(1, 3))}, 'event': True})
        rws.append({'op': 'replace_switches_before', 'kwargs': {'t': e}})
    rws += [{'op': 's_model', 'kwargs': {}}, {'op': 'copy', 'kwargs': {}}]
    if quick:
        rws = rng.sample(rws, min(6, len(rws)))
    return {'flavour': 'switches', 'lines': lines, 'features': [{'part': 'switches:%d' % len(events)}], 'rewrites': rws}


def gen_polarity_cases(rng):
    """series chains, on EVERY run, in which a polarity-sensitive member (voltage source; capacitor with an initial
    voltage) is reversed with respect to the alphabetically first member of its group and separated from it by other
    components -- every position of the reversed member, with and without foreign elements in between"""
    out = []
    r = lambda: fstr(rv(rng))
    v = lambda: str(rng.choice([-5, -3, -2, 2, 3, 5, 7]))
    for rev in (2, 3, 4):
        # 1 -V1- 2 -R1- 3 -V2- 4 -L1- 5 -V3- 6 -V4- 0, the member `rev` written the other way round
        segs = [('V1', '1', '2'), ('V2', '3', '4'), ('V3', '5', '6'), ('V4', '6', '0')]
        lines = []
        for j, (nm, a, b) in enumerate(segs):
            a, b = (b, a) if j + 1 == rev else (a, b)
            lines.append('%s %s %s step %s' % (nm, a, b, v()))
        lines += ['R1 2 3 %s' % r(), 'L1 4 5 %s' % r(), 'R9 1 0 %s' % r(), 'C9 1 0 %s' % r()]
        out.append({'flavour': 'polarity', 'lines': lines, 'features': [{'part': 'reversed-V:%d' % rev}],
                    'rewrites': [{'op': 'simplify', 'kwargs': {}}, {'op': 'simplify_series', 'kwargs': {}}]})
    for rev in (2, 3):
        # capacitors with initial voltages: 1 -C1- 2 -R1- 3 -C2- 4 -R2- 5 -C3- 0
        segs = [('C1', '1', '2'), ('C2', '3', '4'), ('C3', '5', '0')]
        lines = []
        for j, (nm, a, b) in enumerate(segs):
            a, b = (b, a) if j + 1 == rev else (a, b)
            lines.append('%s %s %s %s %s' % (nm, a, b, r(), v()))
        lines += ['R1 2 3 %s' % r(), 'R2 4 5 %s' % r(), 'V1 1 0 step %s' % v()]
        out.append({'flavour': 'polarity', 'lines': lines, 'features': [{'part': 'reversed-C-ic:%d' % rev}],
                    'rewrites': [{'op': 'simplify', 'kwargs': {}}]})
    return out


def gen_opamp_case(rng, quick):
    """an inverting / non-inverting amplifier around `E… opamp` with differential gain, optional
    common-mode gain and optional (possibly zero) output resistance"""
    ad = rng.randint(2, 9)
    tail = rng.choice([[], [fstr(Fraction(rng.randint(0, 2)))], [fstr(Fraction(rng.randint(0, 2))), fstr(Fraction(rng.randint(0, 4), rng.randint(1, 2)))]])
    inv = rng.random() < 0.5
    lines = ['V1 1 0 %s %d' % (rng.choice(['dc', 'step']), rng.randint(1, 9)),
             'R1 1 2 %s' % fstr(rv(rng)),
             ' '.join(['E1 3 0 opamp'] + (['0', '2'] if inv else ['2', '4']) + [str(ad)] + tail),
             'R2 %s 3 %s' % ('2' if inv else '4', fstr(rv(rng))),
             'R3 3 0 %s' % fstr(rv(rng))]
    if not inv:
        lines += ['R4 4 0 %s' % fstr(rv(rng)), 'R5 2 0 %s' % fstr(rv(rng))]
    if rng.random() < 0.4:
        lines.append('C1 3 0 %s' % fstr(rv(rng)))
    rws = [{'op': 'expand', 'kwargs': {}}, {'op': 'copy', 'kwargs': {}}, {'op': 'noise_model_killed', 'kwargs': {}}]
    return {'flavour': 'opamp', 'lines': lines, 'features': [{'part': 'opamp:args=%d' % (1 + len(tail))}], 'rewrites': rws}


def val_text(e, s0):
    """(lcapy text, exact value at s0) of the main value; Y and Z values depend on s in step/ivp"""
    return e['val']


def lcapy_line(e):
    parts = [e['name']] + list(e['nodes'])
    if e['ty'] == 'E':
        parts += e['extra']
    if e['kw']:
        parts.append(e['kw'])
    if e['val'] is not None:
        parts.append(fstr(e['val']))
        if e['ic'] is not None:
            parts.append(fstr(e['ic']))
    if e['ty'] in ('V', 'I') and e['kw'] == 'ac':
        parts += e['extra']
    return ' '.join(parts)


def driver_line(e):
    return lcapy_line(e)


def canon_of_elt(e):
    nodes = list(e['nodes']) + (list(e['extra']) if e['ty'] == 'E' else [])
    return [e['name'], nodes, e['kw'], None if e['val'] is None else fstr(e['val']),
            None if e['ic'] is None else fstr(e['ic']), []]


def canon_line(c):
    """canonical tuple -> driver grammar line"""
    name, nodes, kw, val, ic, extra = c
    parts = [name] + list(nodes)
    ty = name[0]
    pre = []
    extra = list(extra)
    if ty in ('F', 'H') and extra:
        pre, extra = extra[:1], extra[1:]
    if kw:
        parts.append(kw)
    parts += pre
    if val is not None:
        parts.append(val)
        if ic is not None:
            parts.append(ic)
    elif ic is not None:
        parts += ['0', ic]
    parts += extra
    return ' '.join(parts)


def parse_model_net(txt):
    out = []
    for item in txt.split(';'):
        if not item:
            continue
        f = item.split('|')
        out.append([f[0], f[1].split(','), '' if f[2] == '-' else f[2], None if f[3] == '-' else f[3],
                    None if f[4] == '-' else f[4], [] if f[5] == '-' else f[5].split(',')])
    return out


def blank_sources(canon, orig_canon, op):
    """values of the independent sources are arbitrary signal expressions that the element-level model does
    not transform (s_model re-emits them as Laplace expressions, noise sources are symbolic): they are compared
    by the solve-and-compare oracle, here only by name and nodes"""
    src = {x[0] for x in orig_canon if x[0][0] in 'VI'}
    out = []
    for x in canon:
        if x[0] in src or (op == 'noise_model' and x[0].startswith('Vn')):
            out.append([x[0], x[1], x[2] if x[0].startswith('Vn') else '', None, None, []])
        else:
            out.append(x)
    return out


def raw_line_set(lines):
    import re
    ren = {}
    out = []
    for ln in lines:
        toks = ln.split(';')[0].split()
        toks = [ren.setdefault(x, '_d%d' % (len(ren) + 1)) if x.startswith('_nodeanon') else x for x in toks]
        while len(toks) > 1 and toks[-1] == '0' and toks[0][0] == 'E' and len(toks) > 6:
            toks = toks[:-1]          # trailing default arguments (Ac = 0, Ro = 0) of an E line
        if toks:
            out.append(tuple(toks))
    return sorted(out)


def key_of(canon):
    return tuple(sorted((c[0], tuple(c[1]), c[2], c[3], c[4], tuple(c[5])) for c in canon))


def gen_rewrites(rng, ck, quick):
    names = [e['name'] for e in ck['elts'] if e['ty'] not in ('W', 'O')]
    nodes = sorted({n for e in ck['elts'] for n in e['nodes']})
    comb = [n for n in names if n[0] in 'RLCVIYZ']
    rws = [{'op': 'simplify', 'kwargs': {}}]
    pool = []
    if comb:
        sel = rng.sample(comb, max(1, len(comb) * 2 // 3))
        pool.append({'op': 'simplify', 'kwargs': {'select': sorted(sel)}})
        pool.append({'op': 'simplify', 'kwargs': {'ignore': sorted(rng.sample(comb, max(1, len(comb) // 3)))}})
    pool.append({'op': 'simplify', 'kwargs': {'passes': 1}})
    pool.append({'op': 'simplify', 'kwargs': {'dangling': True, 'disconnected': True}})
    pool.append({'op': 'simplify', 'kwargs': {'keep_nodes': sorted(rng.sample(nodes, min(2, len(nodes)))), 'dangling': True}})
    pool.append({'op': 'simplify_series', 'kwargs': {}})
    pool.append({'op': 'simplify_parallel', 'kwargs': {}})
    pool.append({'op': 'remove_dangling', 'kwargs': {}})
    pool.append({'op': 'remove_dangling', 'kwargs': {'keep_nodes': sorted(rng.sample(nodes, min(2, len(nodes))))}})
    pool.append({'op': 'remove_disconnected', 'kwargs': {}})
    pool.append({'op': 'renumber', 'kwargs': {}})
    others = [n for n in nodes if n != '0']
    if others:
        pick = rng.sample(others, min(2, len(others)))
        fresh = [str(50 + i) for i in range(len(pick))]
        pool.append({'op': 'renumber', 'kwargs': {'node_map': dict(zip(pick, fresh))}})
    if len(others) >= 3:
        # partial maps whose targets are small numbers the automatic numbering would also hand out
        for _ in range(1 if quick else 3):
            keys = rng.sample(others, rng.choice([1, 1, 2]))
            small = [str(i) for i in range(1, len(nodes) + 1) if str(i) not in keys]
            if len(small) >= len(keys):
                pool.append({'op': 'renumber', 'kwargs': {'node_map': dict(zip(keys, rng.sample(small, len(keys))))}, 'must': True})
    for op in ('copy', 'expand', 'noise_model_killed'):
        pool.append({'op': op, 'kwargs': {}})
    pool.append({'op': 's_model', 'kwargs': {}, 'must': rng.random() < 0.5})
    pool.append({'op': 'ac_model', 'kwargs': {'w0': [rng.randint(1, 9), rng.randint(1, 4)]}, 'no_solve': True})
    pool.append({'op': 'noise_model', 'kwargs': {}, 'no_solve': True})
    if quick or rng.random() < 0.5:
        pool.append({'op': 'noise_killed_s_model', 'kwargs': {}})
    pool.append({'op': 'replace_switches', 'kwargs': {'t': rng.randint(0, 5)}})
    # subs: a variant with symbolic values
    syms = {}
    lines = []
    for e in ck['elts']:
        if e['val'] is not None and e['ty'] in ('R', 'L', 'C') and rng.random() < 0.5:
            sym = 'x' + e['name']
            syms[sym] = fstr(e['val'])
            e2 = dict(e)
            parts = [e['name']] + list(e['nodes']) + [sym] + ([fstr(e['ic'])] if e['ic'] is not None else [])
            lines.append(' '.join(parts))
        else:
            lines.append(lcapy_line(e))
    if syms:
        pool.append({'op': 'subs', 'kwargs': {'subs': syms}, 'lines': lines})
    # history on ONE object: attach an open-circuit / port component to a node that has exactly two real
    # connections, remove it again in place, then remove dangling parts
    cnt = {}
    for e in ck['elts']:
        if e['ty'] not in ('O', 'A'):
            for n in e['nodes']:
                cnt[n] = cnt.get(n, 0) + 1
    two = sorted(n for n, c_ in cnt.items() if c_ == 2 and n != '0')
    for n in rng.sample(two, min(len(two), 1 if quick else 3)):
        oname = rng.choice(['O9', 'O9', 'P9'])
        hist = [['add', '%s %s 0' % (oname, n)]] + ([['touch']] if rng.random() < 0.5 else []) + [['remove', oname]]
        kwargs = rng.choice([{}, {'dangling': True}])
        pool.append({'op': 'simplify' if kwargs else 'remove_dangling', 'kwargs': kwargs, 'history': hist, 'must': True})
    if quick:
        must = [r for r in pool if r.get('must')]
        rest = [r for r in pool if not r.get('must')]
        rws += must + rng.sample(rest, min(5, len(rest)))
    else:
        rws += pool
    return rws


# =========================================================================== parent

def opts_tokens(op, kw):
    t = []
    if op == 'simplify_series':
        t += ['series=1', 'parallel=0']
    elif op == 'simplify_parallel':
        t += ['series=0', 'parallel=1']
    elif op == 'remove_dangling':
        t += ['series=0', 'parallel=0', 'dangling=1']
    elif op == 'remove_disconnected':
        t += ['series=0', 'parallel=0', 'dangling=0', 'disconnected=1']
    if 'select' in kw:
        t.append('select=' + ','.join(kw['select']))
    if 'ignore' in kw:
        t.append('ignore=' + ','.join(kw['ignore']))
    if 'keep_nodes' in kw:
        t.append('keep=' + ','.join(kw['keep_nodes']))
    if 'passes' in kw:
        t.append('passes=%d' % kw['passes'])
    if kw.get('dangling'):
        t.append('dangling=1')
    if kw.get('disconnected'):
        t.append('disconnected=1')
    return t


def run_workers(cases, seeds):
    """run all cases under each hash seed in parallel subprocesses; returns {seed: {id: result}}"""
    me = os.path.abspath(__file__)
    procs = []
    for i, hs in enumerate(seeds):
        env = dict(os.environ)
        env['PYTHONHASHSEED'] = str(hs)
        env['PYTHONWARNINGS'] = 'ignore'
        if common.REPO != '/repo':
            env['PYTHONPATH'] = common.REPO + os.pathsep + env.get('PYTHONPATH', '')
        p = subprocess.Popen([sys.executable, me, '--worker'], stdin=subprocess.PIPE, stdout=subprocess.PIPE,
                             stderr=subprocess.DEVNULL, universal_newlines=True, env=env)
        procs.append((hs, p))
    import threading
    outs = {}

    def feed(hs, p, first):
        payload = []
        for c in cases:
            c = dict(c)
            c['want_orig'] = first
            c['solve_new'] = True
            payload.append(json.dumps(c))
        o, _ = p.communicate('\n'.join(payload) + '\n')
        outs[hs] = o
    ths = []
    for i, (hs, p) in enumerate(procs):
        t = threading.Thread(target=feed, args=(hs, p, i == 0))
        t.start()
        ths.append(t)
    for t in ths:
        t.join()
    res = {}
    for hs, p in procs:
        d = {}
        for line in outs.get(hs, '').split('\n'):
            line = line.strip()
            if line.startswith('{'):
                try:
                    r = json.loads(line)
                    d[r['id']] = r
                except ValueError:
                    pass
        if len(d) < len(cases):
            raise common.Infra('worker (PYTHONHASHSEED=%s) answered %d of %d cases' % (hs, len(d), len(cases)))
        res[hs] = d
    return res


def sol_tokens(sol, j):
    ok = lambda x: x is not None and x != 'symbolic'
    v = ['V'] + ['%s=%s' % (n, vals[j]) for n, vals in sorted(sol['V'].items()) if vals and ok(vals[j])]
    i = ['I'] + ['%s=%s' % (n, vals[j]) for n, vals in sorted(sol['I'].items()) if vals and ok(vals[j])]
    return ' '.join(v), ' '.join(i)


def became_symbolic(orig_sol, new_sol, ren, retained_nodes):
    """a retained node whose voltage was a number and now contains an unresolved symbol"""
    for n in retained_nodes:
        a = orig_sol['V'].get(n)
        b = new_sol['V'].get(ren.get(n, n))
        if a and b and a[0] not in (None, 'symbolic') and b[0] == 'symbolic':
            return n
    return None


def run(chk, replay=None):
    broken = chk.lean(['Lcapy/Props/C05.lean', 'Lcapy/Props/C05CW.lean', 'Lcapy/Props/C05Net.lean', 'Lcapy/Props/NonVacuityC05.lean'],
                      helper_files=['Lcapy/Proofs/Rewrite.lean', 'Lcapy/Proofs/RewriteCW.lean', 'Lcapy/Proofs/RewriteCWSteps.lean',
                                    'Lcapy/Model/Rewrite.lean', 'Lcapy/Model/RewriteCW.lean', 'Lcapy/Spec/Retained.lean',
                                    'Lcapy/Spec/PortRel.lean', 'Lcapy/Spec/Laws.lean', 'Lcapy/Driver/C05.lean'],
                      leanchecker=(chk.tier == 'thorough'))
    drv = chk.get_driver()
    rng = chk.rng
    quick = chk.tier == 'quick'
    ncirc = 45 if quick else 96
    seeds = [0, 1] if quick else [0, 1, 2, 3, 4, 5, 6, 7]
    chk.coverage['rule'] = ('each case = (generated netlist, rewrite with its arguments, PYTHONHASHSEED); netlists: random '
                            'connected skeleton of 2-4 nodes whose branches are single elements, series chains (2-4 like '
                            'elements, optional interleaved foreign element / observer / ground inside) or parallel groups '
                            '(2-3), orientation mixed in half of the groups, ICs absent/equal/unequal/mixed in the ivp third; '
                            'non-trivial = the rewrite changed the netlist and both circuits were solved; distinct by '
                            '(netlist, rewrite, outcome)')
    chk.coverage['hash_seeds'] = seeds
    # ---- generate
    cases = []
    if replay:
        rp = json.load(open(os.path.join(common.VERIF, replay) if not os.path.isabs(replay) else replay))
        inp = rp['input']
        cases.append({'id': 0, 'lines': inp['lines'], 'rewrites': [inp['rewrite']], 'pts': inp['pts'], 's0': inp['s0'],
                      'elts': None, 'features': inp.get('features', []), 'flavour': inp.get('flavour', '?')})
        if rp.get('python_hash_seed') is not None:
            seeds = sorted({int(rp['python_hash_seed'])} | set(seeds[:1]))
    else:
        corpus_dir = os.path.join(common.VERIF, 'corpus', 'C05')
        cid = 0
        if os.path.isdir(corpus_dir):
            for fn in sorted(os.listdir(corpus_dir)):
                if fn.endswith('.json'):
                    for item in json.load(open(os.path.join(corpus_dir, fn))).get('cases', []):
                        cases.append({'id': cid, 'lines': item['lines'], 'rewrites': item['rewrites'],
                                      'pts': [[3, 2], [5, 7]], 's0': [3, 2], 'elts': None,
                                      'features': item.get('features', []), 'flavour': 'corpus'})
                        cid += 1
        for k in range(ncirc):
            ck = gen_circuit(rng, k)
            pts = [[rng.randint(1, 40), rng.randint(1, 9)], [rng.randint(41, 90), rng.randint(1, 9)]]
            cases.append({'id': cid, 'lines': [lcapy_line(e) for e in ck['elts']], 'rewrites': gen_rewrites(rng, ck, quick),
                          'pts': pts, 's0': pts[0], 'elts': ck['elts'], 'features': ck['features'], 'flavour': ck['flavour']})
            cid += 1
        extra = [gen_switch_case(rng, quick) if k % 2 == 0 else gen_opamp_case(rng, quick) for k in range(6 if quick else 24)]
        for ck in extra + gen_polarity_cases(rng):
            pts = [[rng.randint(1, 40), rng.randint(1, 9)], [rng.randint(41, 90), rng.randint(1, 9)]]
            cases.append({'id': cid, 'lines': ck['lines'], 'rewrites': ck['rewrites'], 'pts': pts, 's0': pts[0], 'elts': None,
                          'features': ck['features'], 'flavour': ck['flavour']})
            cid += 1
    # ---- run the real Lcapy under every hash seed
    results = run_workers([{k: c[k] for k in ('id', 'lines', 'rewrites', 'pts', 's0')} for c in cases], seeds)
    first = seeds[0]
    disagreements = []
    counterexamples = 0
    seed_dependent = 0

    for c in cases:
        r0 = results[first][c['id']]
        chk.count('flavour', c['flavour'])
        for f in c['features']:
            for kk, vv in f.items():
                if kk in ('group', 'part', 'ground'):
                    chk.count('seeded', '%s:%s' % (kk, vv) + (':' + f['ty'] if 'ty' in f else ''))
            if f.get('group'):
                chk.count('orientation', 'mixed' if f['mixed_orientation'] else 'same')
                chk.count('ic-mode', f['ic'])
                if f.get('interleaved'):
                    chk.count('seeded', 'interleaved')
                if f.get('observed'):
                    chk.count('seeded', 'observed:' + f['observed'])
                if f.get('wired'):
                    chk.count('seeded', 'parallel-member-via-wires:' + f['ty'])
        if 'orig_err' in r0:
            chk.count('degenerate', 'lcapy-rejects-netlist:' + r0['orig_err'].split(':')[0])
            chk.case(('reject', tuple(c['lines'])), False)
            continue
        orig_canon = r0['orig_canon']
        orig_lines = [canon_line(x) for x in orig_canon]
        orig_sol = r0.get('orig_sol')
        if orig_sol is None:
            chk.count('degenerate', 'original-unsolvable:' + r0.get('orig_sol_err', '?').split(':')[0])
        chk.sample({'netlist': c['lines'], 'features': c['features'], 'rewrites': [rw['op'] for rw in c['rewrites']]})
        for ri, rw in enumerate(c['rewrites']):
            op, kw = rw['op'], rw.get('kwargs', {})
            chk.count('rewrite', op)
            strict = op in STRICT
            # ---- the model's outcomes
            model_outs = None
            model_raw = None
            if op in ('simplify', 'simplify_series', 'simplify_parallel', 'remove_dangling', 'remove_disconnected'):
                model_raw = drv.ask1('rw.simplify %s || %s' % (' '.join(opts_tokens(op, kw)), ' | '.join(orig_lines)))
                model_outs = {}
                for o in model_raw.split(' ## '):
                    if o.startswith('err:'):
                        model_outs[o] = []
                    elif o.startswith('bad-') or o.startswith('unknown'):
                        raise common.Infra('driver: %s on %s' % (o, orig_lines))
                    else:
                        net, _, log = o.partition(' @@ ')
                        model_outs[key_of(parse_model_net(net.strip()))] = [ev for ev in log.strip().split(';') if ev]
                chk.count('model-outcomes', str(min(len(model_outs), 9)))
            elif op == 'renumber':
                mp = ' '.join('%s:%s' % (a, b) for a, b in sorted(kw.get('node_map', {}).items()))
                model_raw = drv.ask1('rw.renumber %s || %s' % (mp, ' | '.join(orig_lines)))
                model_outs = ({'err:' + model_raw.split(':')[1]: []} if model_raw.startswith('err:')
                              else {key_of(parse_model_net(model_raw)): []})
            elif op == 'copy':
                model_outs = {key_of(orig_canon): []}
            elif op in ('s_model', 'noise_model_killed', 'noise_model', 'replace_switches', 'replace_switches_before'):
                req = {'s_model': 'rw.smodel %s' % fstr(Fraction(c['s0'][0], c['s0'][1])),
                       'noise_model_killed': 'rw.noise killed', 'noise_model': 'rw.noise raw',
                       'replace_switches': 'rw.switches %s after' % kw.get('t', 0),
                       'replace_switches_before': 'rw.switches %s before' % kw.get('t', 0)}[op]
                model_raw = drv.ask1('%s || %s' % (req, ' | '.join(orig_lines)))
                if model_raw.startswith('bad-') or model_raw.startswith('unknown'):
                    raise common.Infra('driver: %s on %s' % (model_raw, orig_lines))
                pm = parse_model_net(model_raw)
                model_outs = {key_of(blank_sources(pm, orig_canon, op) if op in ('s_model', 'noise_model') else pm): []}
            elif op == 'subs':
                # substituting the values back must give the numeric netlist (`Cpt.mapVal` of the model)
                model_outs = {key_of(orig_canon): []}
            elif op == 'expand':
                model_raw = drv.ask1('rw.expand || %s' % ' | '.join(c['lines']))
                if model_raw.startswith('bad-'):
                    chk.count('degenerate', 'expand-model:' + model_raw[:40])
                    model_raw = None
            outcomes_seen = set()
            for hs in seeds:
                rr = results[hs][c['id']]['results'][ri]
                if 'err' in rr:
                    lkey = 'err:' + rr['err']
                elif op in ('s_model', 'noise_model'):
                    lkey = key_of(blank_sources(rr['canon'], orig_canon, op))
                else:
                    lkey = key_of(rr['canon'])
                outcomes_seen.add(lkey)
                if op == 'expand' and model_raw is not None and 'err' not in rr:
                    # C01's `expandRaw` on the raw lines against the printed expanded netlist (as sets of token lists)
                    chk.coverage['correspondence']['compared'] += 1
                    if raw_line_set(model_raw.split(' | ')) != raw_line_set(rr['text']):
                        chk.coverage['correspondence']['disagreements'] += 1
                        if len(disagreements) < 40:
                            disagreements.append({'what': op, 'lines': c['lines'], 'kwargs': kw, 'python_hash_seed': hs,
                                                  'lcapy': rr.get('text'), 'model': model_raw[:600]})
                changed = lkey != key_of(orig_canon)
                solved = orig_sol is not None and rr.get('sol') is not None
                chk.case((tuple(c['lines']), op, json.dumps(kw, sort_keys=True), str(lkey)), nontrivial=(changed and solved) or (not strict and solved))
                events = []
                # ---- correspondence
                if model_outs is not None:
                    chk.coverage['correspondence']['compared'] += 1
                    if lkey in model_outs:
                        events = model_outs[lkey]
                    else:
                        chk.coverage['correspondence']['disagreements'] += 1
                        if len(disagreements) < 40:
                            disagreements.append({'what': op, 'lines': c['lines'], 'kwargs': kw, 'python_hash_seed': hs,
                                                  'lcapy': rr.get('text', rr.get('err')), 'model': model_raw[:600]})
                if 'err' in rr:
                    chk.count('lcapy-error', '%s:%s' % (op, rr['err']))
                    continue
                if op == 'replace_switches' and 'before_canon' in rr:
                    # no switching event between t and t2: the same netlist (theorem replace_switches_const)
                    same = key_of(rr['t2_canon']) == lkey
                    chk.count('switches', 'event-at-t' if rw.get('event') else ('const-between-events:' + ('ok' if same else 'differs')))
                    if not rw.get('event') and not same:
                        counterexamples += 1
                        chk.counterexample({'rewrite': 'replace_switches', 'cause': 'not-constant-between-events'},
                                           {'input': {'lines': c['lines'], 'rewrite': rw, 'pts': c['pts'], 's0': c['s0'],
                                                      'features': c['features'], 'flavour': c['flavour']},
                                            'lcapy': rr.get('text'), 'spec': 'C05.replace_switches_const'},
                                           'replace_switches(t) differs at two instants with no switching event in between')
                    if not rw.get('event'):
                        # at an instant with no event the circuit just before t is the circuit at t
                        b_same = key_of(rr['before_canon']) == lkey
                        chk.count('switches', 'before-vs-after-no-event:' + ('same' if b_same else 'differs'))
                        if not b_same:
                            counterexamples += 1
                            chk.counterexample({'rewrite': 'replace_switches', 'cause': 'before-rule-inverted'},
                                               {'input': {'lines': c['lines'], 'rewrite': rw, 'pts': c['pts'], 's0': c['s0'],
                                                          'features': c['features'], 'flavour': c['flavour']},
                                                'lcapy': {'replace_switches': rr.get('text'), 'replace_switches_before': rr['before_canon']},
                                                'spec': 'C05.replace_switches_noevent'},
                                               'replace_switches_before(t) differs from replace_switches(t) at an instant t with no switching event')
                if op == 'ac_model' and 'ac_at_w0' in rr:
                    chk.coverage['correspondence']['compared'] += 1
                    ok = key_of(rr['ac_at_w0']) == key_of(rr['s_at_jw0'])
                    chk.count('ac-model', 'equals-s_model-at-jw' if ok else 'differs-from-s_model-at-jw')
                    if not ok:
                        chk.coverage['correspondence']['disagreements'] += 1
                        if len(disagreements) < 40:
                            disagreements.append({'what': 'ac_model', 'lines': c['lines'], 'kwargs': kw, 'python_hash_seed': hs,
                                                  'lcapy': rr['ac_at_w0'], 'model': 's_model at j w0: %s' % rr['s_at_jw0']})
                if rw.get('no_solve'):
                    continue
                if rw.get('history'):
                    chk.count('history', 'same-as-fresh' if key_of(rr['fresh_canon']) == lkey else 'differs-from-fresh')
                    if key_of(rr['fresh_canon']) != lkey:
                        counterexamples += 1
                        chk.counterexample({'rewrite': 'simplify' if op.startswith('simplify') else op, 'cause': 'history-dependent'},
                                           {'input': {'lines': c['lines'], 'rewrite': rw, 'pts': c['pts'], 's0': c['s0'],
                                                      'features': c['features'], 'flavour': c['flavour']},
                                            'python_hash_seed': hs, 'lcapy': rr.get('text'), 'lcapy_fresh': rr.get('fresh_text'),
                                            'spec': 'a rewrite of a Circuit edited in place must equal the rewrite of a freshly parsed copy of the same netlist text'},
                                           '%s after in-place edits differs from %s of the freshly parsed netlist' % (op, op))
                if r0.get('orig_ivp') is not None and rr.get('ivp') is not None:
                    chk.count('analysis-kind', 'kept' if r0['orig_ivp'] == rr['ivp'] else
                              ('ivp->not-ivp' if r0['orig_ivp'] else 'not-ivp->ivp'))
                for ev in events:
                    f = ev.split(':')
                    chk.count('combined', '%s:%s' % (f[0], f[1]))
                    for fl in f[5].split(','):
                        if fl:
                            chk.count('guard-failure', '%s:%s:%s' % (f[0], f[1], fl))
                # ---- oracle
                if orig_sol is None:
                    continue
                ren = {}
                new_lines = [canon_line(x) for x in rr['canon']]
                if op == 'renumber':
                    # the renaming Lcapy actually performed, read off its output; it must be an injective function
                    ans = drv.ask1('rw.renaming || %s ### %s' % (' | '.join(orig_lines), ' | '.join(new_lines)))
                    chk.count('renaming', ans.split(' ')[0])
                    if ans.startswith('ok'):
                        ren = dict(x.split(':') for x in ans[2:].strip().split(',') if x)
                    else:
                        counterexamples += 1
                        chk.counterexample({'rewrite': 'renumber', 'cause': ans.split(' ')[0]},
                                           {'input': {'lines': c['lines'], 'rewrite': rw, 'pts': c['pts'], 's0': c['s0'],
                                                      'features': c['features'], 'flavour': c['flavour']},
                                            'python_hash_seed': hs, 'lcapy': rr.get('text'), 'model': model_raw[:800] if model_raw else None,
                                            'spec': 'Rewrite.renamingOf / notInjective: %s' % ans},
                                           'renumber does not rename the nodes injectively (%s): distinct nodes are merged' % ans)
                        continue
                verdict = None
                if rr.get('sol') is None:
                    verdict = 'unsolvable:' + rr.get('sol_err', '?').split(':')[0]
                    # nothing retained but ground: an empty or source-free remainder is not a failure
                    ret = drv.ask1('rw.retained %s%s || %s ### %s' % ('' if strict else 'componentwise ',
                                                                      ' '.join('%s:%s' % kv for kv in sorted(ren.items())),
                                                                      ' | '.join(orig_lines), ' | '.join(new_lines)))
                    if ret.startswith('nodes 0 cpts') and ret.split('cpts')[1].strip() == '' or ret.startswith('nodes  cpts'):
                        chk.count('degenerate', 'nothing-retained')
                        continue
                else:
                    ret = drv.ask1('rw.retained %s%s || %s ### %s' % ('' if strict else 'componentwise ',
                                                                      ' '.join('%s:%s' % kv for kv in sorted(ren.items())),
                                                                      ' | '.join(orig_lines), ' | '.join(new_lines)))
                    rnodes = [x for x in ret.split(' cpts')[0].replace('nodes', '').strip().split(',') if x]
                    symn = became_symbolic(orig_sol, rr['sol'], ren, rnodes)
                    if symn is not None:
                        verdict = 'V:%s (undefined or symbolic after the rewrite)' % symn
                    for j in range(len(c['pts'])):
                        if verdict is not None:
                            break
                        vo, io = sol_tokens(orig_sol, j)
                        vn, i_n = sol_tokens(rr['sol'], j)
                        ans = drv.ask1('rw.preserved %s%s || %s ### %s ### %s ### %s ### %s ### %s' % (
                            '' if strict else 'componentwise ', ' '.join('%s:%s' % kv for kv in sorted(ren.items())),
                            ' | '.join(orig_lines), ' | '.join(new_lines), vo, io, vn, i_n))
                        if ans.startswith('bad-') or ans.startswith('unknown'):
                            raise common.Infra('driver: %s' % ans)
                        if ans != 'ok':
                            verdict = ans
                            break
                chk.count('oracle', 'ok' if verdict is None else 'differs')
                if verdict is None:
                    continue
                level = 'node'
                if verdict.startswith('unsolvable'):
                    level = 'unsolvable'
                    if '0' not in {n for x in rr['canon'] for n in x[1]} and 'keep_nodes' in kw and '0' not in kw['keep_nodes']:
                        # the caller's explicit keep_nodes let the reference node go: nothing to compare against
                        chk.count('degenerate', 'ground-removed-by-explicit-keep_nodes')
                        continue
                else:
                    for j in range(len(c['pts'])):
                        vo, io = sol_tokens(orig_sol, j)
                        vn, i_n = sol_tokens(rr['sol'], j)
                        ans = drv.ask1('rw.preserved branch %s%s || %s ### %s ### %s ### %s ### %s ### %s' % (
                            '' if strict else 'componentwise ', ' '.join('%s:%s' % kv for kv in sorted(ren.items())),
                            ' | '.join(orig_lines), ' | '.join(new_lines), vo, io, vn, i_n))
                        if ans != 'ok':
                            level = 'branch'
                            verdict += ' and ' + ans
                            break
                chk.count('oracle-level', level)
                counterexamples += 1
                flagged = []
                for ev in events:
                    f = ev.split(':')
                    for fl in f[5].split(','):
                        if fl:
                            flagged.append((f[0], f[1], fl))
                if model_outs is not None and lkey not in model_outs:
                    flagged = [('?', '?', 'outside-model')]
                if any(x[4] is not None for x in orig_canon) and not any(x[4] is not None for x in rr['canon']) \
                        and any(x[0][0] in 'VI' and x[2] in ('dc', '') for x in orig_canon):
                    # the last initial condition disappeared: Lcapy no longer treats the circuit as an
                    # initial-value problem and analyses its dc sources in steady state
                    flagged.append(('-', '-', 'ivp-lost'))
                elif strict and r0.get('orig_ivp') and rr.get('ivp') is False:
                    flagged.append(('-', '-', 'ivp-lost'))
                if op == 'renumber' and any(x[0][0] in 'LC' and x[3] is not None and x[4] is None for x in orig_canon):
                    # Cpt._netsubs prints the absent initial condition of an L or C as the word `None`
                    flagged.append(('-', '-', 'absent-ic-printed'))
                if op == 's_model' and any(x[0][0] == 'L' and x[4] not in (None, '0') for x in orig_canon):
                    # RLC._s_model emits the inductor's initial-condition source `-L*i0` without the `s`
                    # keyword: read back as a time-domain constant
                    flagged.append(('-', '-', 's-free-ic-source'))
                def stranded(canon_net):
                    """nodes that only open-circuit components (not counted by Node._count) still touch"""
                    cnt = {}
                    for x in canon_net:
                        for n in x[1]:
                            cnt.setdefault(n, [0, 0])
                            cnt[n][0 if x[0][0] in 'OA' else 1] += 1
                    return {n for n, (o, r) in cnt.items() if o > 0 and r == 0}
                dcount = {}
                for x in rr['canon']:
                    for n in x[1]:
                        if n.startswith('_d'):
                            dcount[n] = dcount.get(n, 0) + 1
                if op == 'noise_killed_s_model' and any(v > 2 for v in dcount.values()):
                    # `_dummy_node_name` restarts at `_nodeanon1` on the netlist made by the first rewrite: a dummy node
                    # of the second rewrite coincides with one of the first and the two are merged
                    flagged.append(('-', '-', 'dummy-node-reused'))
                if stranded(rr['canon']) - stranded(orig_canon):
                    # dangling removal does not count open-circuit components: it strips everything
                    # an `O` observer is attached to and leaves the observer on a floating node
                    flagged.append(('-', '-', 'observer-stranded'))
                if not flagged:
                    flagged = [('-', '-', 'none')]
                if os.environ.get('VERIF_C05_DEBUG'):
                    print('DEBUG', level, verdict, flagged, c['lines'], rw, rr.get('text'))
                for (grp, ty, fl) in sorted(set(flagged)):
                    chk.counterexample({'rewrite': 'simplify' if op.startswith('simplify') else op, 'group': grp, 'type': ty,
                                        'cause': fl, 'level': level},
                                       {'input': {'lines': c['lines'], 'rewrite': rw, 'pts': c['pts'], 's0': c['s0'],
                                                  'features': c['features'], 'flavour': c['flavour']},
                                        'python_hash_seed': hs,
                                        'lcapy': rr.get('text'), 'model': model_raw[:800] if model_raw else None,
                                        'spec': 'Rewrite.Preserved fails at %s' % verdict, 'events': events},
                                       '%s changes a retained quantity (%s)' % (op, verdict))
            if len(outcomes_seen) > 1:
                seed_dependent += 1
                chk.count('hash-seed', 'outcome-depends-on-seed')
                counterexamples += 1
                chk.counterexample({'rewrite': 'simplify' if op.startswith('simplify') else op, 'cause': 'hash-seed-dependent'},
                                   {'input': {'lines': c['lines'], 'rewrite': rw, 'pts': c['pts'], 's0': c['s0'],
                                              'features': c['features'], 'flavour': c['flavour']},
                                    'lcapy': sorted(str(o)[:300] for o in outcomes_seen),
                                    'spec': 'the rewritten netlist must not depend on PYTHONHASHSEED (quantifier: every hash seed)'},
                                   '%s gives different netlists under different PYTHONHASHSEED values' % op)
            else:
                chk.count('hash-seed', 'same-outcome')
    chk.coverage['seed_dependent_rewrites'] = seed_dependent
    chk.coverage['correspondence']['samples_of_disagreement'] = disagreements[:5]
    if broken and counterexamples == 0:
        for b in broken[:20]:
            chk.unexplained('broken-obligation', b, chk.coverage.get('build_log_tail', '')[-600:])
    elif broken:
        chk.coverage['broken_obligations_explained_by_counterexamples'] = True
    if disagreements:
        # a disagreement is a difference between the code and its model: report unless some counterexample explains it
        expl = [d for d in disagreements]
        chk.unexplained('broken-correspondence', expl[0]['what'], expl[0])


if __name__ == '__main__':
    if len(sys.argv) > 1 and sys.argv[1] == '--worker':
        worker_main()
    else:
        common.main_wrapper('C05', run)
