"""C18, goal G3 and the constant sub-domain law (imported by c18.py).

Stream `discrete`: every quantity class of the discrete-time domain through the z-transform, the DFT and the DTFT (in
f, F, omega, Omega) and back: each step keeps the quantity and -- sums over samples -- the units (spec predicate
sampleOk); the round trip restores class and units.

Stream `constant-change`: every quantity class of the three constant domains through every domain-change method it
offers (time, laplace, as_laplace, fourier, angular_fourier, frequency_response, angular_frequency_response, phasor):
the quantity is kept, a method named after a domain lands in that domain, the result carries the units expected of
its class (freshOk).

Stream `homomorphism`: a transform of a constant response (impedance, admittance, transfer function, squared
immittance) is the constant itself, so for constants a and a constant response x:  (a op x)(D) == a(D) op x(D) in
quantity, units and value, for D in {s, jw}.  (This is what the `is_ratio` flag of the quantity mixins decides.)"""
import common


def discrete_stream(chk, R, ask, violation, wire_domain, ustr, QORDER, quick, replay_input=None):
    import lcapy
    E = R.exprclasses
    sym = {nm: getattr(lcapy, nm, None) or getattr(__import__('lcapy.symbols', fromlist=[nm]), nm) for nm in ('f', 'F', 'omega', 'Omega')}
    only = replay_input or {}
    for q in QORDER:
        if only and only.get('quantity') != q:
            continue
        try:
            x = E['discrete time'][q]('3**(-n)*u(n)')
        except Exception:   # noqa
            chk.count('discrete', 'cannot-build')
            continue
        xd = R.describe(x)
        routes = [('ZT', lambda: x.ZT(), lambda y: y.IZT(), 'Z'),
                  ('DFT', lambda: x.DFT(), lambda y: y.IDFT(), 'discrete fourier')]
        for v, dom in (('f', 'fourier'), ('F', 'norm fourier'), ('omega', 'angular fourier'), ('Omega', 'norm angular fourier')):
            routes.append(('DTFT(%s)' % v, lambda v=v: x.DTFT(sym[v]), lambda y: y.IDTFT(), dom))
        for name, fwd, back, dom in routes:
            if only and only.get('route') != name:
                continue
            inp = {'op': 'discrete', 'quantity': q, 'route': name, 'value': '3**(-n)*u(n)'}
            try:
                with common.time_limit(20):
                    y = fwd()
            except (Exception, common.TimeLimit):   # noqa
                chk.count('discrete', 'forward-not-computable:' + name)
                continue
            chk.count('operator', 'discrete-transform')
            chk.case(('discrete', q, name), True)
            yd = R.describe(y)
            fam = 'dtft' if name.startswith('DTFT') else 'other'
            if yd[2] is None:
                continue
            if yd[0] != dom:
                violation({'kind': 'transform-domain', 'family': fam, 'route': name.split('(')[0]}, inp, list(yd), 'the transform lands in the %s domain' % dom,
                          '%s of a %s is in the %s domain' % (name, q, yd[0]))
            if q == 'undefined':
                continue
            if ask('q.sampleok %s %s %s %s' % (xd[1], ustr(xd[2]), yd[1], ustr(yd[2]))) != 'true':
                key = {'kind': 'transform-quantity', 'family': 'dtft-drops-quantity'} if fam == 'dtft' else \
                    {'kind': 'transform-quantity', 'family': 'other', 'route': name, 'quantity': q}
                violation(key, inp, {'class': type(y).__name__, 'quantity': yd[1], 'units': str(y.units)},
                          'sampleOk: a transform that sums over samples keeps the quantity and the units', '%s of a %s [%s] is a %s [%s]' % (name, q, x.units, yd[1], y.units))
            try:
                with common.time_limit(20):
                    z = back(y)
            except (Exception, common.TimeLimit):   # noqa
                chk.count('discrete', 'inverse-not-computable:' + name)
                continue
            chk.count('operator', 'discrete-roundtrip')
            zd = R.describe(z)
            if zd[2] is None:
                continue
            if zd[0] != 'discrete time' or ask('q.sampleok %s %s %s %s' % (xd[1], ustr(xd[2]), zd[1], ustr(zd[2]))) != 'true':
                key = {'kind': 'roundtrip', 'family': 'dtft-idtft'} if fam == 'dtft' else \
                    {'kind': 'roundtrip', 'family': 'other', 'source': 'discrete time', 'via': dom, 'quantity': q}
                violation(key, inp, {'class': type(z).__name__, 'domain': zd[0], 'quantity': zd[1], 'units': str(z.units)},
                          'the round trip restores domain, quantity and units', 'x.%s then back is a %s [%s] in %s' % (name, zd[1], z.units, zd[0]))


CHANGE_METHODS = {'time': 'time', 'laplace': 'laplace', 'as_laplace': 'laplace', 'fourier': 'fourier', 'angular_fourier': 'angular fourier',
                  'frequency_response': 'frequency response', 'angular_frequency_response': 'angular frequency response', 'phasor': 'phasor'}


def constant_change_stream(chk, R, ask, violation, wire_domain, ustr, QORDER, replay_input=None):
    E = R.exprclasses
    only = replay_input or {}
    for d in ('constant', 'constant time', 'constant frequency response'):
        for q in QORDER:
            if only and (only.get('domain') != d or only.get('quantity') != q):
                continue
            try:
                x = E[d][q]('4')
            except Exception:   # noqa
                continue
            xd = R.describe(x)
            for m, target in CHANGE_METHODS.items():
                if only and only.get('method') != m:
                    continue
                if not hasattr(x, m):
                    continue
                try:
                    with common.time_limit(10):
                        y = getattr(x, m)()
                except (Exception, common.TimeLimit):   # noqa
                    chk.count('constant-change', 'refused:' + m)
                    continue
                if not hasattr(y, 'quantity'):
                    continue
                chk.count('operator', 'constant-change')
                chk.case(('constant-change', d, q, m), True)
                yd = R.describe(y)
                inp = {'op': 'constant-change', 'domain': d, 'quantity': q, 'method': m}
                if yd[1] != xd[1]:
                    fam = 'constant-to-phasor' if m == 'phasor' else 'other'
                    violation({'kind': 'transform-quantity', 'family': fam} if fam != 'other' else
                              {'kind': 'transform-quantity', 'family': fam, 'source': d, 'method': m}, inp,
                              {'class': type(y).__name__, 'quantity': yd[1], 'units': str(y.units)}, 'a domain change keeps the quantity',
                              '%s(4).%s() is a %s [%s]' % (type(x).__name__, m, yd[1], y.units))
                    continue
                if yd[0] != target and not (yd[0].startswith('constant')):
                    violation({'kind': 'transform-domain', 'family': 'method-named-after-domain', 'method': m}, inp,
                              {'class': type(y).__name__, 'domain': yd[0]}, 'a method named after a domain changes to that domain',
                              '%s(4).%s() is in the %s domain' % (type(x).__name__, m, yd[0]))
                # (the product quantities -- power and the squares -- are exempt as in stepOk: their class defaults
                #  describe products of spectra, not transforms of products; recorded observation of DESIGN.md C18)
                if q in ('voltage', 'current', 'impedance', 'admittance', 'transfer') and yd[2] is not None and yd[0] in R.exprclasses and \
                        ask('q.freshok %s %s %s' % (wire_domain(yd[0]), yd[1], ustr(yd[2]))) != 'true':
                    violation({'kind': 'transform', 'family': 'constant-change', 'method': m, 'quantity': q}, inp,
                              {'class': type(y).__name__, 'units': str(y.units)}, 'freshOk: units expected of the class in its domain',
                              '%s(4).%s() has units %s' % (type(x).__name__, m, y.units))


def homomorphism_stream(chk, R, ask, violation, wire_domain, ustr, replay_input=None):
    import lcapy
    import sympy
    base = [('V', lcapy.voltage(4)), ('I', lcapy.current(2)), ('Z', lcapy.impedance(3)), ('Y', lcapy.admittance(2)), ('H', lcapy.transfer(5))]
    resp = [b for b in base if b[0] in 'ZYH']
    pool = list(base)
    for an, a in resp:
        for xn, x in resp:
            for op in ('*', '/'):
                try:
                    pool.append(('(%s%s%s)' % (an, op, xn), a * x if op == '*' else a / x))
                except Exception:   # noqa
                    pass
    resp2 = [p for p in pool if p[1].quantity in ('impedance', 'admittance', 'transfer', 'impedancesquared', 'admittancesquared')]
    targets = [('s', lcapy.s), ('jw', lcapy.jw)]
    only = replay_input or {}
    for an, a in pool:
        for xn, x in resp2:
            for op in ('*', '/'):
                name = '%s%s%s' % (an, op, xn)
                if only and only.get('expr') != name:
                    continue
                try:
                    p = a * x if op == '*' else a / x
                except Exception:   # noqa
                    chk.count('homomorphism', 'product-refused')
                    continue
                for tn, tv in targets:
                    try:
                        with common.time_limit(10):
                            lhs = p(tv)
                            rhs = a(tv) * x(tv) if op == '*' else a(tv) / x(tv)
                    except (Exception, common.TimeLimit):   # noqa
                        chk.count('homomorphism', 'not-computable')
                        continue
                    chk.count('operator', 'homomorphism')
                    chk.case(('homomorphism', name, tn), True)
                    ld, rd = R.describe(lhs), R.describe(rhs)
                    if ld[2] is None or rd[2] is None:
                        continue
                    inp = {'op': 'homomorphism', 'expr': name, 'target': tn}
                    same_val = sympy.simplify(lhs.sympy - rhs.sympy) == 0
                    if ld[1] != rd[1] or ask('q.sameunits %s %s' % (ustr(ld[2]), ustr(rd[2]))) != 'true' or not same_val:
                        violation({'kind': 'homomorphism', 'family': 'constant-response-product', 'quantity': p.quantity}, inp,
                                  {'product_class': type(p).__name__, 'lhs': [type(lhs).__name__, str(lhs.units), str(lhs)],
                                   'rhs': [type(rhs).__name__, str(rhs.units), str(rhs)]},
                                  'a transform of a constant response is the constant: (a op x)(D) == a(D) op x(D) in quantity, units and value',
                                  '(%s)(%s) is %s [%s] but %s(%s) %s %s(%s) is %s [%s]' % (name, tn, lhs, lhs.units, an, tn, op, xn, tn, rhs, rhs.units))
