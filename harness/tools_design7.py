"""Rewrite section 7 of DESIGN.md (seeded changes and which checks catch them) from seeded/*/meta.json."""
import json, os, re
here = os.path.dirname(os.path.abspath(__file__))
V = os.path.join(here, '..')
rows = []
hist = {}
res = os.path.join(V, 'seeded', 'RESULTS.md')
if os.path.exists(res):
    for l in open(res):
        m = re.match(r'\| (C\d\d-\d) \| (C\d\d) \| (\S+)', l)
        if m:
            hist.setdefault(m.group(1), []).append(m.group(3))
for d in sorted(os.listdir(os.path.join(V, 'seeded'))):
    mp = os.path.join(V, 'seeded', d, 'meta.json')
    if not os.path.exists(mp):
        continue
    m = json.load(open(mp))
    c = m.get('checks', {}).get('quick', {})
    how = '; '.join(c.get('how', [])[:2]).replace('|', '/')
    first_missed = 'missed' in hist.get(d, [])[:1]
    rows.append('| %s | %s | %s | %s | %s | %s |' % (
        d, m.get('file', ''), (m.get('summary', '') + ' — needs: ' + m.get('needs', ''))[:330].replace('|', '/'),
        c.get('verdict', 'not run'), how[:200], 'missed at first; check strengthened (see notes)' if first_missed and c.get('verdict') == 'CAUGHT' else ''))
table = ('| id | file | change / what it needs to manifest | quick check | caught by | note |\n|---|---|---|---|---|---|\n' + '\n'.join(rows))
p = os.path.join(V, 'DESIGN.md')
s = open(p).read()
a = s.index('## 7. Seeded changes and which checks catch them')
b = s.index('## 8. Round-0 per-property plans')
notes = open(os.path.join(V, 'seeded', 'NOTES.md')).read() if os.path.exists(os.path.join(V, 'seeded', 'NOTES.md')) else ''
sec = '''## 7. Seeded changes and which checks catch them

Each seeded change was written by a fresh sub-agent that saw only the property text and a scratch git worktree of /repo (nothing
from /verif). It is kept under `/verif/seeded/<id>/` (`patch.diff`, `demo.py`, `meta.json`) after confirmation that the patch applies,
that the existing 315 tests still pass with it, and that its demo fails with it and passes without it. `harness/tools_seeded.py`
applies each patch to a scratch worktree of /repo's HEAD (or, with `--inplace`, to /repo itself followed by `git checkout -- .`), runs
the property's registered quick check against it and records the verdict in `meta.json` and `seeded/RESULTS.md`. "caught by" names the
oracle key / broken obligation of the first replays.

''' + table + '\n\n' + notes + '\n---------------------------------------------------------------------------\n\n'
open(p, 'w').write(s[:a] + sec + s[b:])
print(len(rows), 'rows')
