"""C13 -- discrete-time transforms match their defining sums and invert.

1. lake build Lcapy.Props.C13 (theorems about the executable model in Lcapy/Model/DT.lean) and the
   native driver drv_c13; #print axioms audit.
2. Correspondence: the real Lcapy and the Lean model are run on the same raw inputs (term
   descriptors, coefficient lists, literal sequences) and exact rational outputs are diffed:
     zt      x(z) at random rational z                      vs  ztSig / ZR.eval
     izt     H(z)(n) samples, impulse_response              vs  series (long division)
     filt    dlti_filter / transfer_function / difference_equation coefficients
     resp    DLTIFilter.response with initial conditions    vs  respRun
     ini     zdomain_initial_response / initial_response    vs  iniNum / series
     seq     Sequence.lfilter / convolve                    vs  lfilterPy / convolvePy
     dft     x.DFT(N) at every k (numeric N, symbolic N)    vs  dft* closed forms
3. Oracle (independent of the model's answers): the Lean *spec* predicates judge the real
   outputs: coefficient n of the expansion of x(z) in 1/z is x[n]; IZT(ZT x)[n] = x[n]; A*h = B;
   the difference equation holds for the returned response; convolution sum; defining DFT sum;
   IDFT(DFT x) = x.
"""
import os
import sys
import warnings
from fractions import Fraction

sys.path.insert(0, os.path.dirname(os.path.abspath(__file__)))
import common
from common import fstr, Fraction

warnings.filterwarnings('ignore')

PYTH = [(Fraction(3, 5), Fraction(4, 5)), (Fraction(5, 13), Fraction(12, 13)), (Fraction(-4, 5), Fraction(3, 5)),
        (Fraction(8, 17), Fraction(-15, 17)), (Fraction(0), Fraction(1)), (Fraction(1), Fraction(0)),
        (Fraction(-7, 25), Fraction(24, 25)), (Fraction(20, 29), Fraction(21, 29))]


def lst(vs):
    return ','.join(fstr(v) for v in vs) if len(vs) else '-'


# --------------------------------------------------------------------------- raw inputs

class Term:
    """coef * n**p * a**n * base ;  base = imp d | step d | one | cos | sin (b, c given by Pythagorean pairs)"""

    def __init__(self, coef, p, a, kind, d=0, bpair=None, cpair=None, idx=0):
        self.coef, self.p, self.a, self.kind, self.d, self.bpair, self.cpair, self.idx = coef, p, a, kind, d, bpair, cpair, idx

    def tokens(self):
        head = '%s %d %s ' % (fstr(self.coef), self.p, fstr(self.a))
        if self.kind in ('imp', 'step'):
            return head + '%s %d' % (self.kind, self.d)
        if self.kind == 'one':
            return head + 'one'
        return head + '%s %s %s %s %s' % (self.kind, fstr(self.bpair[0]), fstr(self.bpair[1]), fstr(self.cpair[0]), fstr(self.cpair[1]))

    def key(self):
        return (self.coef, self.p, self.a, self.kind, self.d, self.bpair, self.cpair)

    @property
    def advanced(self):
        return self.kind in ('imp', 'step') and self.d < 0

    @property
    def trig(self):
        return self.kind in ('cos', 'sin')

    def describe(self):
        return self.tokens()


def sig_tokens(terms):
    return ' ; '.join(t.tokens() for t in terms)


class L:
    """thin access to the real library"""

    def __init__(self):
        import lcapy  # noqa
        import sympy
        from lcapy.sym import nsym, zsym, ksym
        from lcapy.extrafunctions import UnitImpulse, UnitStep
        self.lcapy, self.S = lcapy, sympy
        self.n, self.z, self.k = nsym, zsym, ksym
        self.UI, self.US = UnitImpulse, UnitStep
        self.bsyms = [sympy.Symbol('b%d' % i, real=True) for i in range(8)]
        self.csyms = [sympy.Symbol('c%d' % i, real=True) for i in range(8)]

    def rat(self, x):
        return self.S.Rational(x.numerator, x.denominator)

    def term_expr(self, t):
        S, n = self.S, self.n
        e = self.rat(t.coef)
        if t.p:
            e = e * n ** t.p
        if t.a != 1:
            e = e * self.rat(t.a) ** n
        if t.kind == 'imp':
            e = e * self.UI(n - t.d)
        elif t.kind == 'step':
            e = e * self.US(n - t.d)
        elif t.kind == 'cos':
            e = e * S.cos(self.bsyms[t.idx] * n + self.csyms[t.idx])
        elif t.kind == 'sin':
            e = e * S.sin(self.bsyms[t.idx] * n + self.csyms[t.idx])
        return e

    def sig_expr(self, terms):
        e = self.S.Integer(0)
        for t in terms:
            e = e + self.term_expr(t)
        return e

    def trig_subs(self, e, terms):
        """replace the symbolic frequencies/phases by their exact rational cos/sin values"""
        S = self.S
        if not any(t.trig for t in terms):
            return e
        e = S.expand_trig(e)
        m = {}
        for t in terms:
            if t.trig:
                b, c = self.bsyms[t.idx], self.csyms[t.idx]
                m[S.cos(b)], m[S.sin(b)] = self.rat(t.bpair[0]), self.rat(t.bpair[1])
                m[S.cos(c)], m[S.sin(c)] = self.rat(t.cpair[0]), self.rat(t.cpair[1])
        return e.subs(m)

    def tofrac(self, x):
        S = self.S
        x = S.sympify(x)
        if not x.is_Rational:
            x = S.nsimplify(S.simplify(x)) if x.is_number else S.cancel(x)
        if x.is_Rational:
            return Fraction(int(x.p), int(x.q))
        raise ValueError('not rational: %s' % x)

    def ratfun_w(self, e):
        """canonicalise a rational function of z (exact coefficients) to (adv, num(w), den(w)), w = 1/z,
        den(0) != 0, coprime.  Pure re-expression; no arithmetic of the property is done here."""
        S, z = self.S, self.z
        e = S.cancel(S.together(e))
        if e == 0:
            return 0, [], [Fraction(1)]
        N, D = S.fraction(e)
        N, D = S.Poly(N, z), S.Poly(D, z)
        nc = [self.tofrac(c) for c in N.all_coeffs()]      # highest power first
        dc = [self.tofrac(c) for c in D.all_coeffs()]
        dn, dd = len(nc) - 1, len(dc) - 1
        # N(z)/D(z) = z^(dn-dd) * Nrev(w)/Drev(w), reversed lists are lowest-power-of-w first
        num, den = list(nc), list(dc)
        while num and num[-1] == 0:
            num.pop()
        while den and den[-1] == 0:
            den.pop()
        if dn >= dd:
            return dn - dd, num, den
        return 0, [Fraction(0)] * (dd - dn) + num, den


# --------------------------------------------------------------------------- generators

def rnd_frac(rng, lo=-6, hi=6, dmax=4, nonzero=True):
    while True:
        x = Fraction(rng.randint(lo, hi), rng.randint(1, dmax))
        if x != 0 or not nonzero:
            return x


def gen_term(rng, idx, allow_adv=True, allow_trig=True):
    coef = rnd_frac(rng)
    p = rng.choice([0, 0, 0, 1, 1, 2, 3])
    a = rng.choice([Fraction(1), Fraction(1), rnd_frac(rng, -4, 4, 3)])
    kinds = ['imp', 'step', 'step', 'one'] + (['cos', 'sin'] if allow_trig else [])
    kind = rng.choice(kinds)
    if kind in ('imp', 'step'):
        d = rng.choice([0, 1, 2, 3, 5] + ([-1, -2, -3] if allow_adv else []) + [rng.randint(0, 6)])
        return Term(coef, p, a, kind, d=d, idx=idx)
    if kind == 'one':
        return Term(coef, p, a, 'one', idx=idx)
    return Term(coef, min(p, 1), a, kind, bpair=rng.choice(PYTH), cpair=rng.choice(PYTH), idx=idx)


def gen_sig(rng, allow_adv=True, allow_trig=True, maxterms=3):
    k = rng.choice([1, 1, 2, 2, 3][:max(1, maxterms + 2)])
    k = min(k, maxterms)
    return [gen_term(rng, i, allow_adv, allow_trig) for i in range(k)]


def poly_from_roots(roots):
    """prod (1 - r w) as coefficient list, lowest first"""
    p = [Fraction(1)]
    for r in roots:
        q = [Fraction(0)] * (len(p) + 1)
        for i, c in enumerate(p):
            q[i] += c
            q[i + 1] -= r * c
        p = q
    return p


def gen_ba(rng, maxpoles=3):
    """H = B(w)/A(w), A from rational poles (simple and repeated), optionally scaled and delayed"""
    npoles = rng.randint(0, maxpoles)
    poles = []
    while len(poles) < npoles:
        r = rnd_frac(rng, -3, 3, 3)
        poles.append(r)
        if rng.random() < 0.35 and len(poles) < npoles:
            poles.append(r)                      # repeated pole
    a = poly_from_roots(poles)
    if rng.random() < 0.4:
        a0 = rnd_frac(rng, -3, 3, 2)
        a = [a0 * c for c in a]
    nb = rng.randint(1, 4)
    b = [rnd_frac(rng, -5, 5, 3, nonzero=False) for _ in range(nb)]
    if all(c == 0 for c in b):
        b[0] = Fraction(1)
    return b, a, poles


# --------------------------------------------------------------------------- the check

def run(chk, replay=None):
    broken = chk.lean(['Lcapy/Props/C13.lean'],
                      helper_files=['Lcapy/Proofs/DT.lean', 'Lcapy/Model/DT.lean', 'Lcapy/Spec/DT.lean',
                                    'Lcapy/Driver/C13.lean', 'Lcapy/Model/CRat.lean'],
                      leanchecker=(chk.tier == 'thorough'))
    drv = chk.get_driver()
    pend = os.path.join(common.VERIF, 'corpus', 'C13', 'proposed-known-findings.json')
    if os.path.exists(pend):
        # entries proposed to the coordinator for known-findings.json (same format); a `fixed` entry suppresses nothing
        import json
        have = {f.get('id') for f in chk.findings}
        chk.findings += [f for f in json.load(open(pend)).get('findings', []) if f.get('property') == 'C13' and f.get('id') not in have]
    Lc = L()
    S = Lc.S
    rng = chk.rng
    quick = chk.tier == 'quick'
    NS = 12 if quick else 20                     # samples checked per sequence
    budget = {'zt': 60 if quick else 700, 'izt': 25 if quick else 300, 'resp': 40 if quick else 500}
    chk.coverage['rule'] = ('zt: a case = a sum of 1-3 terms coef*n^p*a^n*base (base: impulse/step with integer delay incl. advances, '
                            'constant, cos/sin(b n + c) with Pythagorean cos/sin values) compared at 2 (quick) / 4 (thorough) random rational z and '
                            'coefficient-wise for n <= %d, plus IZT(ZT) samples; izt/filt: a case = (b, a) with a from rational simple/repeated poles; '
                            'resp: (b, a, ic, input, index range); non-trivial = Lcapy returned a closed form / a value and no pole was hit; '
                            'distinct by the raw descriptor' % NS)
    disagreements = []
    state = {'cex': 0, 'case': 0, 'cex_cases': set()}
    chk.assumptions.append('z-transform advances (delay < 0) are outside the theorems (Base.ok) and are covered by the oracle only')

    def disagree(what, detail):
        chk.coverage['correspondence']['disagreements'] += 1
        d = {'what': what, 'case': state['case']}
        d.update(detail)
        disagreements.append(d)

    def cex(key, rep, what):
        state['cex'] += 1
        state['cex_cases'].add(state['case'])
        chk.counterexample(key, rep, what)

    def newcase():
        state['case'] += 1

    # ------------------------------------------------------------------ zt stream
    def zt_case(terms, origin):
        newcase()
        toks = sig_tokens(terms)
        adv = any(t.advanced for t in terms)
        trig = any(t.trig for t in terms)
        chk.count('zt.kind', '+'.join(sorted(set(t.kind + ('-adv' if t.advanced else '') for t in terms))))
        chk.count('zt.nterms', str(len(terms)))
        e = Lc.sig_expr(terms)
        try:
            X = Lc.lcapy.nexpr(e).ZT()
        except Exception as ex:   # noqa
            chk.count('zt.lcapy-error', type(ex).__name__)
            chk.case(('zt', toks), False)
            return
        Xs = X.sympy
        if Xs.has(S.Sum):
            chk.count('degenerate', 'zt-no-closed-form')
            chk.case(('zt', toks), False)
            return
        try:
            Xr = Lc.trig_subs(Xs, terms)
            if Xr.free_symbols - {Lc.z}:
                raise ValueError('free symbols %s' % (Xr.free_symbols,))
            adv_l, num_l, den_l = Lc.ratfun_w(Xr)
        except Exception as ex:   # noqa
            chk.count('degenerate', 'zt-uncanonicalisable:' + type(ex).__name__)
            chk.case(('zt', toks), False)
            return
        chk.case(('zt', toks), True)
        chk.sample({'stream': 'zt', 'terms': toks, 'lcapy': str(Xs)[:200]})
        # -- correspondence at random rational points
        npts = 2 if quick else 4
        for _ in range(npts):
            z0 = rnd_frac(rng, -9, 9, 7)
            r = drv.ask1('zt.model %s | %s' % (fstr(z0), toks))
            mval = r.split()[0]
            try:
                lval = Lc.tofrac(S.cancel(Xr.subs(Lc.z, Lc.rat(z0))))
            except Exception:   # noqa  (pole hit)
                lval = None
            if mval == 'undef' or lval is None:
                chk.count('degenerate', 'zt-pole-hit')
                continue
            chk.coverage['correspondence']['compared'] += 1
            if Fraction(mval) != lval:
                disagree('zt', {'terms': toks, 'z': fstr(z0), 'lcapy': fstr(lval), 'model': mval})
        # -- oracle 1: the expansion in 1/z has coefficient x[n]
        r = drv.ask1('zt.spec %d %d %s %s | %s' % (NS, adv_l, lst(num_l), lst(den_l), toks))
        if r != 'ok':
            cex({'kind': 'zt', 'advance': adv},
                {'input': {'terms': toks, 'expr': str(e)}, 'lcapy': str(Xs), 'lcapy_canonical': {'adv': adv_l, 'num_w': lst(num_l), 'den_w': lst(den_l)},
                 'spec': 'coefficient of z^-n in the expansion of x(z) must be x[n] (and no positive powers of z): ' + r,
                 'origin': origin},
                'unilateral z-transform closed form does not expand to the sequence')
            return
        # -- oracle 2: IZT(ZT(x))[n] = x[n], n = 0..NS
        if rng.random() < (0.5 if quick else 0.7):
            try:
                xr = X.IZT(causal=True)
                vals = []
                for i in range(NS + 1):
                    v = xr(i).sympy
                    v = Lc.trig_subs(v, terms)
                    vals.append(Lc.tofrac(v))
            except Exception as ex:   # noqa
                chk.count('degenerate', 'izt-unevaluable:' + type(ex).__name__)
                return
            chk.count('zt.izt-roundtrip', 'done')
            r = drv.ask1('sig.check 0 %s | %s' % (lst(vals), toks))
            if r != 'ok':
                cex({'kind': 'izt-zt', 'advance': adv},
                    {'input': {'terms': toks, 'expr': str(e)}, 'lcapy': {'zt': str(Xs), 'izt': str(xr), 'samples': lst(vals)},
                     'spec': 'IZT(ZT(x))[n] = x[n] for n >= 0: ' + r, 'origin': origin},
                    'inverse z-transform of the z-transform does not recover the sequence')

    for i in range(budget['zt']):
        mode = i % 5
        terms = gen_sig(rng, allow_adv=(mode == 4), allow_trig=(mode in (2, 3)), maxterms=(1 if mode in (0, 4) else 3))
        zt_case(terms, 'generated')

    # ------------------------------------------------------------------ izt / filter stream
    def izt_case(b, a, poles):
        newcase()
        key = ('izt', tuple(b), tuple(a))
        bs, as_ = lst(b), lst(a)
        chk.count('izt.poles', 'n=%d repeated=%s' % (len(poles), len(set(poles)) < len(poles)))
        z = Lc.lcapy.discretetime.z
        Hs = sum(Lc.rat(c) * Lc.z ** (-i) for i, c in enumerate(b)) / sum(Lc.rat(c) * Lc.z ** (-i) for i, c in enumerate(a))
        try:
            H = Lc.lcapy.zexpr(Hs)
            h = H.IZT(causal=True)
            hv = [Lc.tofrac(h(i).sympy) for i in range(NS + 1)]
        except Exception as ex:   # noqa
            chk.count('izt.lcapy-error', type(ex).__name__)
            chk.case(key, False)
            return
        chk.case(key, True)
        chk.sample({'stream': 'izt', 'b': bs, 'a': as_, 'lcapy': str(h)[:200]})
        mv = drv.ask1('izt.model %d %s %s' % (NS + 1, bs, as_))
        chk.coverage['correspondence']['compared'] += 1
        if mv != lst(hv):
            disagree('izt', {'b': bs, 'a': as_, 'lcapy': lst(hv), 'model': mv})
        r = drv.ask1('izt.spec %s %s %s' % (lst(hv), bs, as_))
        if r != 'ok':
            cex({'kind': 'izt', 'repeated': len(set(poles)) < len(poles)},
                {'input': {'b': bs, 'a': as_, 'H': str(Hs)}, 'lcapy': {'h': str(h), 'samples': lst(hv)}, 'model': mv,
                 'spec': 'A*h = B coefficient-wise: ' + r},
                'inverse z-transform samples do not satisfy A*h = B')
        # filter objects: dlti_filter -> (b', a'), transfer_function, difference_equation, impulse_response
        try:
            F = H.dlti_filter()
            b2 = [Lc.tofrac(c.sympy) for c in F.b]
            a2 = [Lc.tofrac(c.sympy) for c in F.a]
        except Exception as ex:   # noqa
            chk.count('filt.lcapy-error', type(ex).__name__)
            return
        r = drv.ask1('filt.spec %s %s %s %s' % (bs, as_, lst(b2), lst(a2)))
        chk.count('filt', 'dlti_filter')
        if r != 'ok':
            cex({'kind': 'dlti_filter'}, {'input': {'b': bs, 'a': as_}, 'lcapy': {'b': lst(b2), 'a': lst(a2)},
                                         'spec': 'B(w) a\'(w) = A(w) b\'(w) and a\'[0] = 1: ' + r},
                'dlti_filter coefficients describe a different transfer function')
        try:
            z0 = rnd_frac(rng, -9, 9, 7)
            tv = Lc.tofrac(S.cancel(F.transfer_function().sympy.subs(Lc.z, Lc.rat(z0))))
            mvv = drv.ask1('tf.model %s %s %s' % (fstr(z0), lst(b2), lst(a2)))
            if mvv != 'undef':
                chk.coverage['correspondence']['compared'] += 1
                if Fraction(mvv) != tv:
                    disagree('transfer_function', {'b': lst(b2), 'a': lst(a2), 'z': fstr(z0), 'lcapy': fstr(tv), 'model': mvv})
        except Exception as ex:   # noqa
            chk.count('degenerate', 'tf-pole-hit')
        try:
            de = F.difference_equation()
            a3, b3 = de_coeffs(Lc, de, len(a2), len(b2))
            chk.count('filt', 'difference_equation')
            chk.coverage['correspondence']['compared'] += 1
            if a3 != a2 or b3 != b2:
                r2 = drv.ask1('filt.spec %s %s %s %s' % (lst(b2), lst(a2), lst(b3), lst(a3)))
                disagree('difference_equation', {'b': lst(b2), 'a': lst(a2), 'lcapy': str(de), 'same_system': r2})
                if r2 != 'ok' and r2 != 'fail a0':
                    cex({'kind': 'difference_equation'}, {'input': {'b': lst(b2), 'a': lst(a2)}, 'lcapy': str(de),
                                                         'spec': 'difference equation coefficients describe the same system'},
                        'difference_equation differs from the filter coefficients')
        except Exception as ex:   # noqa
            chk.count('filt.lcapy-error', 'de:' + type(ex).__name__)

    for i in range(budget['izt']):
        b, a, poles = gen_ba(rng, maxpoles=(2 if quick else 3))
        izt_case(b, a, poles)

    # ------------------------------------------------------------------ response stream
    def resp_case(b, a, ic, xspec, n1):
        newcase()
        bs, as_, ics = lst(b), lst(a), lst(ic)
        key = ('resp', bs, as_, ics, xspec[0], str(xspec[1:]), n1)
        Ni = len(ic)
        n0 = -Ni - rng.choice([0, 0, 2])
        F = Lc.lcapy.DLTIFilter([Lc.rat(c) for c in b], [Lc.rat(c) for c in a])
        if xspec[0] == 'lit':
            x0, xv = xspec[1], xspec[2]
            x = Lc.lcapy.seq([Lc.rat(v) for v in xv], list(range(x0, x0 + len(xv))))
            xtok = 'lit %d %s' % (x0, lst(xv))
        else:
            terms = xspec[1]
            x = Lc.lcapy.nexpr(Lc.sig_expr(terms))
            xtok = 'sig ' + sig_tokens(terms)
        chk.count('resp.input', xspec[0] + (' origin!=0' if xspec[0] == 'lit' and xspec[1] != 0 else ''))
        chk.count('resp.orders', 'b%d a%d' % (len(b), len(a)))
        try:
            y = F.response(x, ic=[Lc.rat(c) for c in ic], ni=(n0, n1))
            ni = [int(v) for v in y.n]
            yv = [Lc.tofrac(v.sympy) for v in y.vals]
        except Exception as ex:   # noqa
            chk.count('resp.lcapy-error', type(ex).__name__)
            chk.case(key, False)
            return
        chk.case(key, True)
        chk.sample({'stream': 'resp', 'b': bs, 'a': as_, 'ic': ics, 'x': xtok, 'ni': [n0, n1]})
        ymap = dict(zip(ni, yv))
        ypos = [ymap[i] for i in range(0, n1 + 1)]
        yneg = [ymap.get(-i - 1) for i in range(Ni)]
        mv = drv.ask1('resp.model %d %s %s %s | %s' % (n1 + 1, bs, as_, ics, xtok))
        chk.coverage['correspondence']['compared'] += 1
        if mv != lst(ypos):
            disagree('response', {'b': bs, 'a': as_, 'ic': ics, 'x': xtok, 'lcapy': lst(ypos), 'model': mv})
        bad = None
        if ni != list(range(n0, n1 + 1)):
            bad = 'indices %s' % ni
        elif yneg != list(ic):
            bad = 'initial conditions not reproduced at negative indices: %s' % yneg
        elif any(ymap[i] != 0 for i in range(n0, -Ni)):
            bad = 'non-zero before the initial conditions'
        else:
            r = drv.ask1('resp.spec %s %s %s %s | %s' % (lst(ypos), bs, as_, ics, xtok))
            if r != 'ok':
                bad = 'difference equation: ' + r
        if bad:
            cex({'kind': 'response', 'input': xspec[0], 'x_origin': ('nonzero' if xspec[0] == 'lit' and xspec[1] != 0 else 'zero')},
                {'input': {'b': bs, 'a': as_, 'ic': ics, 'x': xtok, 'ni': [n0, n1]}, 'lcapy': {'n': ni, 'y': lst(yv)}, 'model': mv,
                 'spec': 'sum_k a[k] y[n-k] = sum_l b[l] x[n-l] for n >= 0 with y[-1-i] = ic[i]: ' + bad},
                'DLTIFilter.response does not satisfy its difference equation')

    for i in range(budget['resp']):
        nb, na = rng.randint(1, 4), rng.randint(1, 4)
        b = [rnd_frac(rng, -4, 4, 3, nonzero=False) for _ in range(nb)]
        a = [rnd_frac(rng, -4, 4, 3)] + [rnd_frac(rng, -4, 4, 3, nonzero=False) for _ in range(na - 1)]
        ic = [rnd_frac(rng, -5, 5, 2, nonzero=False) for _ in range(na - 1)]
        if i % 4 == 0:
            ic = [Fraction(0)] * (na - 1)
        if i % 3 == 2:
            xs = ('sig', gen_sig(rng, allow_adv=True, allow_trig=False, maxterms=2))
        else:
            xs = ('lit', rng.choice([0, 0, -1, -2, 1, 2]), [rnd_frac(rng, -5, 5, 2, nonzero=False) for _ in range(rng.randint(1, 5))])
        resp_case(b, a, ic, xs, rng.randint(3, 7 if quick else 12))

    # malformed stream: wrong number of initial conditions must be refused
    for i in range(4 if quick else 20):
        na = rng.randint(1, 3)
        a = [Fraction(1)] + [rnd_frac(rng) for _ in range(na - 1)]
        ic = [rnd_frac(rng) for _ in range(na - 1 + rng.choice([1, 2]))]
        F = Lc.lcapy.DLTIFilter([1], [Lc.rat(c) for c in a])
        try:
            F.response(Lc.lcapy.seq([1, 2]), ic=[Lc.rat(c) for c in ic], ni=(0, 3))
            chk.count('malformed', 'wrong-ic-count:accepted')
            cex({'kind': 'response-malformed'}, {'input': {'a': lst(a), 'ic': lst(ic)}, 'spec': 'len(ic) = len(a) - 1 is required'},
                'response accepted a wrong number of initial conditions')
        except ValueError:
            chk.count('malformed', 'wrong-ic-count:ValueError')
        chk.case(('malformed', lst(a), lst(ic)), False)

    # ------------------------------------------------------------------ classification
    # a disagreement is explained only by a counterexample found on the very same case
    unexplained = [d for d in disagreements if d['case'] not in state['cex_cases']]
    chk.coverage['correspondence']['samples_of_disagreement'] = disagreements[:5]
    chk.coverage['correspondence']['disagreements_explained_by_counterexample_on_same_case'] = len(disagreements) - len(unexplained)
    chk.coverage['correspondence']['disagreements_unexplained'] = len(unexplained)
    if broken and state['cex'] == 0:
        for bname in broken[:20]:
            chk.unexplained('broken-obligation', bname, chk.coverage.get('build_log_tail', '')[-600:])
    elif broken:
        chk.coverage['broken_obligations_explained_by_counterexamples'] = True
    seen_kinds = set()
    for d in unexplained:
        if d['what'] not in seen_kinds:
            seen_kinds.add(d['what'])
            chk.unexplained('broken-correspondence', d['what'], d)


def de_coeffs(Lc, de, na, nb):
    """coefficients (a, b) of the printed equation  lhs = rhs  in y(n-k), x(n-l)"""
    S, n = Lc.S, Lc.n
    e = de.sympy if hasattr(de, 'sympy') else de
    diff = S.expand(e.lhs - e.rhs)
    y, x = S.Function('y'), S.Function('x')
    a = [Lc.tofrac(diff.coeff(y(n - k) if k else y(n))) for k in range(na)]
    b = [Lc.tofrac(-diff.coeff(x(n - l) if l else x(n))) for l in range(nb)]
    rest = diff - sum(Lc.rat(a[k]) * y(n - k) for k in range(na)) + sum(Lc.rat(b[l]) * x(n - l) for l in range(nb))
    if S.expand(rest) != 0:
        raise ValueError('unparsed terms in difference equation: %s' % rest)
    return a, b


if __name__ == '__main__':
    common.main_wrapper('C13', run)
