"""C13 -- discrete-time transforms match their defining sums and invert.

1. lake build Lcapy.Props.C13 (theorems about the executable model in Lcapy/Model/DT.lean) and the
   native driver drv_c13; #print axioms audit.
2. Correspondence: the real Lcapy and the Lean model are run on the same raw inputs (term
   descriptors, coefficient lists, literal sequences) and exact rational outputs are diffed:
     zt      x(z) at random rational z                      vs  ztSig / ZR.eval
     izt     H(z)(n) samples, impulse_response              vs  series (long division)
     filt    dlti_filter / transfer_function / difference_equation coefficients
     resp    DLTIFilter.response with initial conditions    vs  respRun
     ini     zdomain_initial_response / initial_response    vs  iniNum / series
     seq     Sequence.lfilter / convolve                    vs  lfilterPy / convolvePy (recursion at rest)
     dft     x.DFT(N) at every k (numeric N, symbolic N)    vs  dft* closed forms
     dtft    x.DTFT(Omega) at Omega = pi r (in F_P)         vs  ztSig on the unit circle
3. Oracle (independent of the model's answers): the Lean *spec* predicates judge the real
   outputs: coefficient n of the expansion of x(z) in 1/z is x[n]; IZT(ZT x)[n] = x[n]; A*h = B;
   the difference equation holds for the returned response; convolution sum; defining DFT sum;
   IDFT(DFT x) = x.
"""
import os
import sys
import warnings
from fractions import Fraction

sys.path.insert(0, os.path.dirname(os.path.abspath(__file__)))
import common
from common import fstr, Fraction

warnings.filterwarnings('ignore')

PYTH = [(Fraction(3, 5), Fraction(4, 5)), (Fraction(5, 13), Fraction(12, 13)), (Fraction(-4, 5), Fraction(3, 5)),
        (Fraction(8, 17), Fraction(-15, 17)), (Fraction(0), Fraction(1)), (Fraction(1), Fraction(0)),
        (Fraction(-7, 25), Fraction(24, 25)), (Fraction(20, 29), Fraction(21, 29))]


def lst(vs):
    return ','.join(fstr(v) for v in vs) if len(vs) else '-'


# --------------------------------------------------------------------------- raw inputs

class Term:
    """coef * n**p * a**n * base ;  base = imp d | step d | one | cos | sin (b, c given by Pythagorean pairs)"""

    def __init__(self, coef, p, a, kind, d=0, bpair=None, cpair=None, idx=0):
        self.coef, self.p, self.a, self.kind, self.d, self.bpair, self.cpair, self.idx = coef, p, a, kind, d, bpair, cpair, idx

    def tokens(self):
        head = '%s %d %s ' % (fstr(self.coef), self.p, fstr(self.a))
        if self.kind in ('imp', 'step'):
            return head + '%s %d' % (self.kind, self.d)
        if self.kind == 'one':
            return head + 'one'
        if self.kind in ('gcos', 'gsin'):
            return head + '%s %d %s %s %s %s' % (self.kind, self.d, fstr(self.bpair[0]), fstr(self.bpair[1]), fstr(self.cpair[0]), fstr(self.cpair[1]))
        return head + '%s %s %s %s %s' % (self.kind, fstr(self.bpair[0]), fstr(self.bpair[1]), fstr(self.cpair[0]), fstr(self.cpair[1]))

    def key(self):
        return (self.coef, self.p, self.a, self.kind, self.d, self.bpair, self.cpair)

    @property
    def advanced(self):
        return self.kind in ('imp', 'step') and self.d < 0

    @property
    def trig(self):
        return self.kind in ('cos', 'sin', 'gcos', 'gsin')

    def describe(self):
        return self.tokens()

    def __repr__(self):
        return '<' + self.tokens() + '>'


def parse_term(tok, idx=0):
    w = tok.split()
    coef, p, a, kind = Fraction(w[0]), int(w[1]), Fraction(w[2]), w[3]
    if kind in ('imp', 'step'):
        return Term(coef, p, a, kind, d=int(w[4]), idx=idx)
    if kind == 'one':
        return Term(coef, p, a, 'one', idx=idx)
    if kind in ('gcos', 'gsin'):
        return Term(coef, p, a, kind, d=int(w[4]), bpair=(Fraction(w[5]), Fraction(w[6])), cpair=(Fraction(w[7]), Fraction(w[8])), idx=idx)
    return Term(coef, p, a, kind, bpair=(Fraction(w[4]), Fraction(w[5])), cpair=(Fraction(w[6]), Fraction(w[7])), idx=idx)


def parse_sig(toks):
    return [parse_term(t.strip(), i) for i, t in enumerate(toks.split(';')) if t.strip()]


def flist(s):
    return [] if s.strip() == '-' else [Fraction(v) for v in s.split(',')]


def sig_tokens(terms):
    return ' ; '.join(t.tokens() for t in terms)


class L:
    """thin access to the real library"""

    def __init__(self):
        import lcapy  # noqa
        import sympy
        from lcapy.sym import nsym, zsym, ksym
        from lcapy.extrafunctions import UnitImpulse, UnitStep
        self.lcapy, self.S = lcapy, sympy
        self.n, self.z, self.k = nsym, zsym, ksym
        self.UI, self.US = UnitImpulse, UnitStep
        self.bsyms = [sympy.Symbol('b%d' % i, real=True) for i in range(8)]
        self.csyms = [sympy.Symbol('c%d' % i, real=True) for i in range(8)]

    def rat(self, x):
        return self.S.Rational(x.numerator, x.denominator)

    def term_expr(self, t):
        S, n = self.S, self.n
        e = self.rat(t.coef)
        if t.p:
            e = e * n ** t.p
        if t.a != 1:
            e = e * self.rat(t.a) ** n
        if t.kind == 'imp':
            e = e * self.UI(n - t.d)
        elif t.kind == 'step':
            e = e * self.US(n - t.d)
        elif t.kind == 'cos':
            e = e * S.cos(self.bsyms[t.idx] * n + self.csyms[t.idx])
        elif t.kind == 'sin':
            e = e * S.sin(self.bsyms[t.idx] * n + self.csyms[t.idx])
        elif t.kind == 'gcos':
            e = e * S.cos(self.bsyms[t.idx] * n + self.csyms[t.idx]) * self.US(n - t.d)
        elif t.kind == 'gsin':
            e = e * S.sin(self.bsyms[t.idx] * n + self.csyms[t.idx]) * self.US(n - t.d)
        return e

    def sig_expr(self, terms):
        e = self.S.Integer(0)
        for t in terms:
            e = e + self.term_expr(t)
        return e

    def trig_subs(self, e, terms):
        """replace the symbolic frequencies/phases by their exact rational cos/sin values"""
        S = self.S
        if not any(t.trig for t in terms):
            return e
        e = S.expand_trig(e)
        m = {}
        for t in terms:
            if t.trig:
                b, c = self.bsyms[t.idx], self.csyms[t.idx]
                m[S.cos(b)], m[S.sin(b)] = self.rat(t.bpair[0]), self.rat(t.bpair[1])
                m[S.cos(c)], m[S.sin(c)] = self.rat(t.cpair[0]), self.rat(t.cpair[1])
        return e.subs(m)

    def tofrac(self, x):
        """exact rational value of a SymPy number expression; never approximates (no nsimplify):
        simplification first, then a degree-1 minimal polynomial as the certificate"""
        S = self.S
        x = S.sympify(x)
        if x.is_Rational:
            return Fraction(int(x.p), int(x.q))
        for f in (S.cancel, S.simplify, lambda e: S.simplify(S.expand(e, complex=True))):
            try:
                y = f(x)
            except Exception:   # noqa
                continue
            if y.is_Rational:
                return Fraction(int(y.p), int(y.q))
        if x.is_number and x.count_ops() < 120:
            mp = S.minimal_polynomial(x, polys=True)
            if mp.degree() == 1:
                c1, c0 = mp.all_coeffs()
                y = -c0 / c1
                return Fraction(int(y.p), int(y.q))
        raise ValueError('not (provably) rational: %s' % str(x)[:80])

    def ratfun_w(self, e):
        """canonicalise a rational function of z (exact coefficients) to (adv, num(w), den(w)), w = 1/z,
        den(0) != 0, coprime.  Pure re-expression; no arithmetic of the property is done here."""
        S, z = self.S, self.z
        e = S.cancel(S.together(e))
        if e == 0:
            return 0, [], [Fraction(1)]
        N, D = S.fraction(e)
        N, D = S.Poly(N, z), S.Poly(D, z)
        nc = [self.tofrac(c) for c in N.all_coeffs()]      # highest power first
        dc = [self.tofrac(c) for c in D.all_coeffs()]
        dn, dd = len(nc) - 1, len(dc) - 1
        # N(z)/D(z) = z^(dn-dd) * Nrev(w)/Drev(w), reversed lists are lowest-power-of-w first
        num, den = list(nc), list(dc)
        while num and num[-1] == 0:
            num.pop()
        while den and den[-1] == 0:
            den.pop()
        if dn >= dd:
            return dn - dd, num, den
        return 0, [Fraction(0)] * (dd - dn) + num, den


# --------------------------------------------------------------------------- exact evaluation in F_P

FP = 2305843010009098561          # = 2882880 * 799840093937 + 1, see lean/Lcapy/Model/Fp.lean
FG = 41                           # a primitive root mod FP


class Unsupported(Exception):
    pass


def zeta(M, e):
    """zeta_M ** e  with zeta_M = FG ** ((FP-1)/M): a fixed coherent system of roots of unity"""
    if (FP - 1) % M:
        raise Unsupported('no root of unity of order %d in F_P' % M)
    return pow(FG, ((FP - 1) // M) * (e % M), FP)


def fp_of_frac(x):
    x = Fraction(x)
    if x.denominator % FP == 0:
        raise ZeroDivisionError
    return x.numerator % FP * pow(x.denominator % FP, FP - 2, FP) % FP


class FpEval:
    """image of an exact SymPy number expression under the ring homomorphism
    Z[zeta_M, 1/d] -> F_P, zeta_M |-> zeta(M, 1).  Symbols are looked up in `env` (integers for k, N, n;
    F_P elements for others).  A product with an exactly-zero factor is zero (this is how Lcapy's
    `(1 - UnitImpulse(k - k0)) * (expression singular at k0)` results are meant; counted): only when the zero factor
    is such a delta / Piecewise factor; any other 0 * (1/0) is a pole (ZeroDivisionError)."""

    def __init__(self, Lc, env, fpenv=None):
        self.L, self.S, self.env, self.fpenv = Lc, Lc.S, env, fpenv or {}
        self.zero_times_singular = 0

    def rat(self, e):
        S = self.S
        v = e.subs(self.env)
        v = S.simplify(v) if not v.is_Rational else v
        if not v.is_Rational:
            raise Unsupported('not rational: %s' % v)
        return Fraction(int(v.p), int(v.q))

    def root(self, r):
        """exp(i*pi*r)"""
        return zeta(2 * r.denominator, r.numerator)

    def ev(self, e):
        S = self.S
        if e.is_Rational:
            return fp_of_frac(Fraction(int(e.p), int(e.q)))
        if e is S.I:
            return zeta(4, 1)
        if e.is_Symbol:
            if e in self.env:
                return int(self.env[e]) % FP
            if e in self.fpenv:
                return self.fpenv[e]
            raise Unsupported('free symbol %s' % e)
        if e.is_Add:
            return sum(self.ev(a) for a in e.args) % FP
        if e.is_Mul:
            vals, err, zero_by_delta = [], None, False
            for a in e.args:
                try:
                    v = self.ev(a)
                    vals.append(v)
                    if v == 0 and (a.has(self.L.UI) or a.has(S.Piecewise)):
                        zero_by_delta = True
                except (ZeroDivisionError, Unsupported) as ex:
                    err = ex
            if any(v == 0 for v in vals):
                if err is not None:
                    if not zero_by_delta and isinstance(err, ZeroDivisionError):
                        raise ZeroDivisionError          # a genuine 0/0: no (1 - delta) factor gives the product a value
                    self.zero_times_singular += 1
                return 0
            if err is not None:
                raise err
            r = 1
            for v in vals:
                r = r * v % FP
            return r
        if e.is_Pow:
            b, x = e.as_base_exp()
            xv = self.rat(x)
            if xv.denominator == 1:
                bv = self.ev(b)
                n = xv.numerator
                if n >= 0:
                    return pow(bv, n, FP)
                if bv == 0:
                    raise ZeroDivisionError
                return pow(pow(bv, FP - 2, FP), -n, FP)
            if b == -1:
                return self.root(xv)
            if xv.denominator == 2 and b.is_Integer and int(b) in (2, 3, 6):
                # positive square roots as sums of roots of unity: sqrt2 = 2cos(pi/4), sqrt3 = 2cos(pi/6)
                r2 = (zeta(8, 1) + zeta(8, -1)) % FP
                r3 = (zeta(12, 1) + zeta(12, -1)) % FP
                base = {2: r2, 3: r3, 6: r2 * r3 % FP}[int(b)]
                n = xv.numerator
                return pow(base, n, FP) if n >= 0 else pow(pow(base, FP - 2, FP), -n, FP)
            raise Unsupported('irrational power %s' % e)
        if e.func == S.exp:
            return self.root(self.rat(e.args[0] / (S.I * S.pi)))
        if e.func == S.cos:
            r = self.rat(e.args[0] / S.pi)
            return (self.root(r) + self.root(-r)) * fp_of_frac(Fraction(1, 2)) % FP
        if e.func == S.sin:
            r = self.rat(e.args[0] / S.pi)
            return (self.root(r) - self.root(-r)) * pow(2 * zeta(4, 1) % FP, FP - 2, FP) % FP
        if e.func == self.L.UI:
            return 1 if self.rat(e.args[0]) == 0 else 0
        if e.func == self.L.US or e.func == S.Heaviside:
            return 1 if self.rat(e.args[0]) >= 0 else 0
        if e.func.__name__ == 'dtrect':
            v = self.rat(e.args[0])
            return 1 if Fraction(-1, 2) <= v < Fraction(1, 2) else 0
        if e.is_Piecewise:
            for (ex, cond) in e.args:
                c = cond.subs(self.env)
                if c == True:   # noqa
                    return self.ev(ex)
            self.zero_times_singular += 1
            return 0
        raise Unsupported('node %s' % e.func)


# --------------------------------------------------------------------------- generators

def rnd_frac(rng, lo=-6, hi=6, dmax=4, nonzero=True):
    while True:
        x = Fraction(rng.randint(lo, hi), rng.randint(1, dmax))
        if x != 0 or not nonzero:
            return x


QUICK = [False]


def gen_term(rng, idx, allow_adv=True, allow_trig=True):
    coef = rnd_frac(rng)
    p = rng.choice([0, 0, 0, 1, 1, 2, 3])
    a = rng.choice([Fraction(1), Fraction(1), rnd_frac(rng, -4, 4, 3)])
    kinds = ['imp', 'step', 'step', 'one'] + (['cos', 'sin', 'gcos', 'gsin'] if allow_trig else [])
    kind = rng.choice(kinds)
    if kind in ('imp', 'step'):
        d = rng.choice([0, 1, 2, 3, 5] + ([-1, -2, -3] if allow_adv else []) + [rng.randint(0, 6)])
        return Term(coef, p, a, kind, d=d, idx=idx)
    if kind == 'one':
        return Term(coef, p, a, 'one', idx=idx)
    if kind in ('gcos', 'gsin'):     # sinusoid gated by a delayed step: rule "multiplication with u(n - n0)"
        if QUICK[0] and rng.random() < 0.6:
            p = 0                    # n * a^n * gated sinusoid is the long tail of SymPy's simplification time
        return Term(coef, min(p, 1), a, kind, d=rng.choice([0, 1, 2, 2, 3, 4, -1]), bpair=rng.choice(PYTH), cpair=rng.choice(PYTH), idx=idx)
    return Term(coef, min(p, 1), a, kind, bpair=rng.choice(PYTH), cpair=rng.choice(PYTH), idx=idx)


def gen_sig(rng, allow_adv=True, allow_trig=True, maxterms=3):
    k = rng.choice([1, 1, 2, 2, 3][:max(1, maxterms + 2)])
    k = min(k, maxterms)
    return [gen_term(rng, i, allow_adv, allow_trig) for i in range(k)]


def poly_from_roots(roots):
    """prod (1 - r w) as coefficient list, lowest first"""
    p = [Fraction(1)]
    for r in roots:
        q = [Fraction(0)] * (len(p) + 1)
        for i, c in enumerate(p):
            q[i] += c
            q[i + 1] -= r * c
        p = q
    return p


def gen_ba(rng, maxpoles=3):
    """H = B(w)/A(w), A from rational poles (simple and repeated), optionally scaled and delayed"""
    npoles = rng.randint(0, maxpoles)
    poles = []
    while len(poles) < npoles:
        r = rnd_frac(rng, -3, 3, 3)
        poles.append(r)
        if rng.random() < 0.35 and len(poles) < npoles:
            poles.append(r)                      # repeated pole
    a = poly_from_roots(poles)
    if rng.random() < 0.4:
        a0 = rnd_frac(rng, -3, 3, 2)
        a = [a0 * c for c in a]
    nb = rng.randint(1, 4)
    b = [rnd_frac(rng, -5, 5, 3, nonzero=False) for _ in range(nb)]
    if all(c == 0 for c in b):
        b[0] = Fraction(1)
    return b, a, poles


# --------------------------------------------------------------------------- the check

def run(chk, replay=None):
    import time
    from translate import tx_dtseq, branchcov
    # translator: which exponent / indices nseq.ZT and zseq.IZT use (selects the model the driver runs)
    txinfo = tx_dtseq.generate(common.REPO, os.path.join(common.VERIF, 'lean', 'Lcapy', 'Generated', 'DTSeq.lean'))
    chk.coverage['translator'] = {'tx_dtseq': txinfo}
    broken = chk.lean(['Lcapy/Props/C13.lean', 'Lcapy/Props/C13b.lean', 'Lcapy/Props/NonVacuityC13.lean'],
                      helper_files=['Lcapy/Proofs/DT.lean', 'Lcapy/Proofs/DT2.lean', 'Lcapy/Model/DT.lean', 'Lcapy/Spec/DT.lean',
                                    'Lcapy/Driver/C13.lean', 'Lcapy/Model/CRat.lean', 'Lcapy/Generated/DTSeq.lean', 'Lcapy/Model/DTSel.lean'],
                      leanchecker=(chk.tier == 'thorough'))
    drv0 = chk.get_driver()

    class SafeDrv:
        """the per-case time limit (SIGALRM) must not interrupt a request/reply exchange with the driver"""
        def ask1(self, line):
            import signal
            signal.pthread_sigmask(signal.SIG_BLOCK, {signal.SIGALRM})
            try:
                return drv0.ask1(line)
            finally:
                signal.pthread_sigmask(signal.SIG_UNBLOCK, {signal.SIGALRM})
    drv = SafeDrv()
    Lc = L()
    S = Lc.S
    # branch-coverage instrument (from the outside: sys.monitoring LINE events on the anchored functions only)
    import importlib
    _dft, _dtft, _zt, _izt, _dlti, _seq, _nseq, _zseq = [importlib.import_module('lcapy.' + m) and sys.modules['lcapy.' + m] for m in (
        'dft', 'dtft', 'ztransform', 'inverse_ztransform', 'dltifilter', 'sequence', 'nseq', 'zseq')]
    bcov = branchcov.BranchCov({
        'dft.py': (_dft, {'DFTTransformer.termXq', 'DFTTransformer.termXk', 'DFTTransformer.term', 'QkTransform.make_transform',
                          'QkTransform.add', 'QkTransform.simp_qN', 'is_in_interval', 'simp_rat'}),
        'dtft.py': (_dtft, {'DTFTTransformer.term'}),
        'ztransform.py': (_zt, {'ZTransformer.term', 'is_multiplied_with'}),
        'inverse_ztransform.py': (_izt, {'InverseZTransformer.ratfun', 'InverseZTransformer.term1', 'InverseZTransformer.term'}),
        'dltifilter.py': (_dlti, {'DLTIFilter.response', 'DLTIFilter.zdomain_initial_response', 'DLTIFilter.difference_equation',
                                  'DLTIFilter.from_transfer_function'}),
        'sequence.py': (_seq, {'Sequence.lfilter', 'Sequence.convolve', 'Sequence.zeropad'}),
        'nseq.py': (_nseq, {'DiscreteTimeDomainSequence'}),
        'zseq.py': (_zseq, {'ZDomainSequence'})})
    bcov.start()
    stream_t = {}
    slow = []
    sub_t = {}
    tmark = [time.time(), 'setup']

    only = os.environ.get('C13_ONLY')          # development aid: run only the named streams
    only = set(only.split(',')) if only else None
    cur = [True]

    def stream(name):
        cur[0] = only is None or name in only
        now = time.time()
        stream_t[tmark[1]] = round(stream_t.get(tmark[1], 0) + now - tmark[0], 1)
        tmark[0], tmark[1] = now, name
    chk.coverage['lcapy_under_test'] = os.path.dirname(Lc.lcapy.__file__)
    rng = chk.rng
    quick = chk.tier == 'quick'
    QUICK[0] = quick
    gen = replay is None                      # --replay <file>: only the recorded case is re-run
    NS = 12 if quick else 20                     # samples checked per sequence
    budget = {'zt': 150 if quick else 420, 'izt': 80 if quick else 400, 'resp': 120 if quick else 1200}
    chk.coverage['rule'] = ('zt: a case = a sum of 1-3 terms coef*n^p*a^n*base (base: impulse/step with integer delay incl. advances, '
                            'constant, cos/sin(b n + c) with Pythagorean cos/sin values) compared at 2 (quick) / 4 (thorough) random rational z and '
                            'coefficient-wise for n <= %d, plus IZT(ZT) samples; izt/filt: a case = (b, a) with a from rational simple/repeated poles; '
                            'resp: (b, a, ic, input, index range); non-trivial = Lcapy returned a closed form / a value and no pole was hit; '
                            'distinct by the raw descriptor' % NS)
    disagreements = []
    state = {'cex': 0, 'case': 0, 'cex_cases': set()}
    chk.assumptions.append('z-transform advances (delay < 0, finding F17, pinned by the upstream tests) are outside the theorems (Base.ok); the model mirrors the code there and the oracle reports them through the known keys')

    def disagree(what, detail):
        chk.coverage['correspondence']['disagreements'] += 1
        d = {'what': what, 'case': state['case']}
        d.update(detail)
        disagreements.append(d)

    def cex(key, rep, what):
        state['cex'] += 1
        state['cex_cases'].add(state['case'])
        chk.counterexample(key, rep, what)

    def newcase():
        state['case'] += 1

    CASE_LIMIT = 45 if chk.tier == 'quick' else 90

    def ev_fp(expr, env):
        """image in F_P of Lcapy's expression; raises ZeroDivisionError at a pole AND at a genuine 0/0 (a product of an exact zero and a
        singular factor only has the value 0 where a (1 - UnitImpulse) factor or a Piecewise says so)"""
        return FpEval(Lc, env).ev(expr)

    def guarded(fn, *args, **kw):
        """SymPy calls occasionally do not return: a case that exceeds the limit is counted, never reported"""
        t0g = time.time()
        try:
            with common.time_limit(CASE_LIMIT):
                fn(*args, **kw)
        except common.TimeLimit:
            chk.count('degenerate', 'case-timeout:' + fn.__name__)
        dtg = time.time() - t0g
        if dtg > 2.0:
            slow.append((round(dtg, 1), fn.__name__, ' '.join(str(a_)[:90] for a_ in args)[:200]))

    # ------------------------------------------------------------------ zt stream
    def zt_case(terms, origin):
        newcase()
        mycase = state['case']
        toks = sig_tokens(terms)
        adv = any(t.advanced for t in terms)
        trig = any(t.trig for t in terms)
        chk.count('zt.kind', '+'.join(sorted(set(t.kind + ('-adv' if t.advanced else '') for t in terms))))
        chk.count('zt.nterms', str(len(terms)))
        e = Lc.sig_expr(terms)
        t0_ = time.time()
        try:
            X = Lc.lcapy.nexpr(e).ZT()
        except Exception as ex:   # noqa
            chk.count('zt.lcapy-error', type(ex).__name__)
            chk.case(('zt', toks), False)
            return
        finally:
            sub_t['zt: lcapy ZT()'] = sub_t.get('zt: lcapy ZT()', 0) + time.time() - t0_
        Xs = X.sympy
        if Xs.has(S.Sum):
            chk.count('degenerate', 'zt-no-closed-form')
            chk.case(('zt', toks), False)
            return
        t0_ = time.time()
        try:
            Xr = Lc.trig_subs(Xs, terms)
            if Xr.free_symbols - {Lc.z}:
                raise ValueError('free symbols %s' % (Xr.free_symbols,))
            adv_l, num_l, den_l = Lc.ratfun_w(Xr)
        except Exception as ex:   # noqa
            chk.count('degenerate', 'zt-uncanonicalisable:' + type(ex).__name__)
            chk.case(('zt', toks), False)
            return
        finally:
            sub_t['zt: canonicalise'] = sub_t.get('zt: canonicalise', 0) + time.time() - t0_
        chk.case(('zt', toks), True)
        chk.sample({'stream': 'zt', 'terms': toks, 'lcapy': str(Xs)[:200]})
        # -- correspondence at random rational points
        npts = 2 if quick else 4
        for _ in range(npts):
            z0 = rnd_frac(rng, -9, 9, 7)
            r = drv.ask1('zt.model %s | %s' % (fstr(z0), toks))
            mval = r.split()[0]
            try:
                lval = Lc.tofrac(S.cancel(Xr.subs(Lc.z, Lc.rat(z0))))
            except Exception:   # noqa  (pole hit)
                lval = None
            if mval == 'undef' or lval is None:
                chk.count('degenerate', 'zt-pole-hit')
                continue
            chk.coverage['correspondence']['compared'] += 1
            if Fraction(mval) != lval:
                disagree('zt', {'terms': toks, 'z': fstr(z0), 'lcapy': fstr(lval), 'model': mval})
        # -- oracle 1: the expansion in 1/z has coefficient x[n]
        r = drv.ask1('zt.spec %d %d %s %s | %s' % (NS, adv_l, lst(num_l), lst(den_l), toks))
        if r != 'ok' and len(terms) > 1 and origin != 'shrunk':
            # shrink: a single term that already fails is the better replay
            before = state['cex']
            for t in terms:
                t1 = Term(t.coef, t.p, t.a, t.kind, t.d, t.bpair, t.cpair, 0)
                zt_case([t1], 'shrunk')
                if state['cex'] > before:
                    state['cex_cases'].add(mycase)
                    return
            state['case'] = mycase
        if r != 'ok':
            cex({'kind': 'zt', 'advance': adv},
                {'input': {'terms': toks, 'expr': str(e)}, 'lcapy': str(Xs), 'lcapy_canonical': {'adv': adv_l, 'num_w': lst(num_l), 'den_w': lst(den_l)},
                 'spec': 'coefficient of z^-n in the expansion of x(z) must be x[n] (and no positive powers of z): ' + r,
                 'origin': origin},
                'unilateral z-transform closed form does not expand to the sequence')
            return
        # -- oracle 2: IZT(ZT(x))[n] = x[n], n = 0..NS
        if rng.random() < (0.33 if quick else 0.7):
            t0_ = time.time()
            nsamp = NS if not (trig and quick) else 6        # sinusoid samples are the expensive ones to certify rational
            try:
                xr = X.IZT(causal=True)
                vals = []
                for i in range(nsamp + 1):
                    v = xr(i).sympy
                    v = Lc.trig_subs(v, terms)
                    vals.append(Lc.tofrac(v))
            except Exception as ex:   # noqa
                chk.count('degenerate', 'izt-unevaluable:' + type(ex).__name__)
                return
            finally:
                sub_t['zt: IZT round trip'] = sub_t.get('zt: IZT round trip', 0) + time.time() - t0_
            chk.count('zt.izt-roundtrip', 'done')
            r = drv.ask1('sig.check 0 %s | %s' % (lst(vals), toks))
            if r != 'ok':
                cex({'kind': 'izt-zt', 'advance': adv},
                    {'input': {'terms': toks, 'expr': str(e)}, 'lcapy': {'zt': str(Xs), 'izt': str(xr), 'samples': lst(vals)},
                     'spec': 'IZT(ZT(x))[n] = x[n] for n >= 0: ' + r, 'origin': origin},
                    'inverse z-transform of the z-transform does not recover the sequence')

    stream('zt')
    for i in (range(budget['zt']) if (gen and cur[0]) else []):
        mode = i % 5
        # quick: sums with sinusoids are limited to two terms (SymPy's simplification of three is the long tail of the run time)
        terms = gen_sig(rng, allow_adv=(mode == 4), allow_trig=(mode in (2, 3)), maxterms=(1 if mode in (0, 4) else (2 if quick and mode in (2, 3) else 3)))
        guarded(zt_case, terms, 'generated')

    # ------------------------------------------------------------------ izt / filter stream
    def izt_case(b, a, poles, zform=None, pairs=None, cpm=0):
        """pairs: the `pairs=` option of IZT (None = default True); cpm: multiplicity of a complex-conjugate pole pair in a (0 = none)"""
        newcase()
        key = ('izt', tuple(b), tuple(a), pairs)
        bs, as_ = lst(b), lst(a)
        chk.count('izt.poles', 'n=%d repeated=%s' % (len(poles), len(set(poles)) < len(poles)))
        z = Lc.lcapy.discretetime.z
        Hs = sum(Lc.rat(c) * Lc.z ** (-i) for i, c in enumerate(b)) / sum(Lc.rat(c) * Lc.z ** (-i) for i, c in enumerate(a))
        if zform is not None:          # the same H written as c z**m / (z - p)**k (the shape the code pattern-matches)
            c_, m_, p_, k_ = zform
            Hs = Lc.rat(c_) * Lc.z ** m_ / (Lc.z - Lc.rat(p_)) ** k_
        try:
            H = Lc.lcapy.zexpr(Hs)
            h = H.IZT(causal=True) if pairs is None else H.IZT(causal=True, pairs=pairs)
            hv = [Lc.tofrac(h(i).sympy) for i in range(NS + 1)]
        except Exception as ex:   # noqa
            chk.count('izt.lcapy-error', type(ex).__name__)
            chk.case(key, False)
            return
        chk.case(key, True)
        chk.sample({'stream': 'izt', 'b': bs, 'a': as_, 'lcapy': str(h)[:200]})
        mv = drv.ask1('izt.model %d %s %s' % (NS + 1, bs, as_))
        chk.coverage['correspondence']['compared'] += 1
        if mv != lst(hv):
            disagree('izt', {'b': bs, 'a': as_, 'lcapy': lst(hv), 'model': mv})
        r = drv.ask1('izt.spec %s %s %s' % (lst(hv), bs, as_))
        if r != 'ok':
            mono = sum(1 for c in b if c != 0) == 1
            kpow = len(a) - 1
            shortcut = mono and kpow >= 2 and [c / a[0] for c in a] == poly_from_roots([Fraction(1)] * kpow)
            key_ = {'kind': 'izt', 'repeated': len(set(poles)) < len(poles) or cpm > 1}
            if cpm:
                key_['complex_pair_multiplicity'] = cpm
                key_['pairs'] = pairs is not False
            if shortcut:
                key_['cause'] = 'unit-step-shortcut-repeated-pole'
            cex(key_,
                {'input': {'b': bs, 'a': as_, 'H': str(Hs), 'pairs': pairs, 'cpm': cpm, 'zform': ([fstr(zform[0]), zform[1], fstr(zform[2]), zform[3]] if zform else None)},
                 'lcapy': {'h': str(h), 'samples': lst(hv)}, 'model': mv,
                 'spec': 'A*h = B coefficient-wise: ' + r},
                'inverse z-transform samples do not satisfy A*h = B')
        # filter objects: dlti_filter -> (b', a'), transfer_function, difference_equation, impulse_response
        try:
            F = H.dlti_filter()
            b2 = [Lc.tofrac(c.sympy) for c in F.b]
            a2 = [Lc.tofrac(c.sympy) for c in F.a]
        except Exception as ex:   # noqa
            chk.count('filt.lcapy-error', type(ex).__name__)
            return
        r = drv.ask1('filt.spec %s %s %s %s' % (bs, as_, lst(b2), lst(a2)))
        chk.count('filt', 'dlti_filter')
        if r != 'ok':
            cex({'kind': 'dlti_filter'}, {'input': {'b': bs, 'a': as_}, 'lcapy': {'b': lst(b2), 'a': lst(a2)},
                                         'spec': 'B(w) a\'(w) = A(w) b\'(w) and a\'[0] = 1: ' + r},
                'dlti_filter coefficients describe a different transfer function')
        try:
            z0 = rnd_frac(rng, -9, 9, 7)
            tv = Lc.tofrac(S.cancel(F.transfer_function().sympy.subs(Lc.z, Lc.rat(z0))))
            mvv = drv.ask1('tf.model %s %s %s' % (fstr(z0), lst(b2), lst(a2)))
            if mvv != 'undef':
                chk.coverage['correspondence']['compared'] += 1
                if Fraction(mvv) != tv:
                    disagree('transfer_function', {'b': lst(b2), 'a': lst(a2), 'z': fstr(z0), 'lcapy': fstr(tv), 'model': mvv})
        except Exception as ex:   # noqa
            chk.count('degenerate', 'tf-pole-hit')
        try:
            de = F.difference_equation()
            a3, b3 = de_coeffs(Lc, de, len(a2), len(b2))
            chk.count('filt', 'difference_equation')
            chk.coverage['correspondence']['compared'] += 1
            if a3 != a2 or b3 != b2:
                r2 = drv.ask1('filt.spec %s %s %s %s' % (lst(b2), lst(a2), lst(b3), lst(a3)))
                disagree('difference_equation', {'b': lst(b2), 'a': lst(a2), 'lcapy': str(de), 'same_system': r2})
                if r2 != 'ok' and r2 != 'fail a0':
                    cex({'kind': 'difference_equation'}, {'input': {'b': lst(b2), 'a': lst(a2)}, 'lcapy': str(de),
                                                         'spec': 'difference equation coefficients describe the same system'},
                        'difference_equation differs from the filter coefficients')
            if not quick or state['case'] % 3 == 0:
                # DifferenceEquation -> transfer function (z-transform of the equation, solved for Y/X) and back to a filter
                z0 = rnd_frac(rng, -9, 9, 7)
                Hde = de.transfer_function().sympy
                chk.count('filt', 'DifferenceEquation.transfer_function')
                mvv = drv.ask1('tf.model %s %s %s' % (fstr(z0), lst(b2), lst(a2)))
                try:
                    tv = Lc.tofrac(S.cancel(Hde.subs(Lc.z, Lc.rat(z0))))
                except Exception:   # noqa
                    tv = None
                if mvv != 'undef' and tv is not None:
                    chk.coverage['correspondence']['compared'] += 1
                    if Fraction(mvv) != tv:
                        disagree('DifferenceEquation.transfer_function', {'b': lst(b2), 'a': lst(a2), 'z': fstr(z0), 'lcapy': fstr(tv), 'model': mvv})
                        cex({'kind': 'difference_equation', 'route': 'transfer_function'},
                            {'input': {'b': lst(b2), 'a': lst(a2), 'z': fstr(z0)}, 'lcapy': {'de': str(de), 'H': str(Hde), 'H(z0)': fstr(tv)},
                             'spec': 'the transfer function of the difference equation is B(1/z)/A(1/z) = %s' % mvv},
                            'transfer function derived from the difference equation differs from b/a')
                F2 = de.dlti_filter()
                b4 = [Lc.tofrac(c.sympy) for c in F2.b]
                a4 = [Lc.tofrac(c.sympy) for c in F2.a]
                r4 = drv.ask1('filt.spec %s %s %s %s' % (lst(b2), lst(a2), lst(b4), lst(a4)))
                chk.count('filt', 'DifferenceEquation.dlti_filter')
                if r4 != 'ok':
                    cex({'kind': 'difference_equation', 'route': 'dlti_filter'}, {'input': {'b': lst(b2), 'a': lst(a2)}, 'lcapy': {'b': lst(b4), 'a': lst(a4)},
                                                                                'spec': 'same rational function, a[0] = 1: ' + r4},
                        'filter rebuilt from the difference equation describes a different system')
        except Exception as ex:   # noqa
            chk.count('filt.lcapy-error', 'de:' + type(ex).__name__)


    # ------------------------------------------------------------------ z-transform with no rule: the reported unevaluated sum must be the
    # defining sum.  Generic oracle: x[m] from the input expression, Lean forms the partial defining sum  sum_{m<K} x[m] z^-m.
    def ztsum_case(e, fam):
        newcase()
        key = ('ztsum', str(e))
        chk.count('zt.fallback', fam)
        try:
            Xs = Lc.lcapy.nexpr(e).ZT().sympy
        except Exception as ex:   # noqa
            chk.count('zt.lcapy-error', 'fallback:' + type(ex).__name__)
            chk.case(key, False)
            return
        sums = list(Xs.atoms(S.Sum))
        if len(sums) != 1 or (Xs / sums[0]).has(Lc.z) or len(sums[0].args) != 2:
            chk.count('degenerate', 'zt-fallback-closed-form-or-unparsed')
            chk.case(key, False)
            return
        chk.case(key, True)
        sm = sums[0]
        (mvar, m0, m1) = sm.args[1]
        K = 5
        z0 = rnd_frac(rng, -5, 5, 3)
        try:
            if m0 != 0 or m1 != S.oo:
                raise ValueError('limits %s..%s' % (m0, m1))
            xv = [Lc.tofrac(e.subs(Lc.n, i)) for i in range(K)]
            part = sum((Lc.tofrac(S.cancel((Xs / sm) * sm.args[0].subs({mvar: i, Lc.z: Lc.rat(z0)}))) for i in range(K)), Fraction(0))
        except Exception as ex:   # noqa
            chk.count('degenerate', 'zt-fallback-unevaluable:' + type(ex).__name__)
            return
        want = Fraction(drv.ask1('seq.ztspec %s 0 %s' % (fstr(z0), lst(xv))).split()[1])
        if part != want:
            cex({'kind': 'zt', 'advance': False, 'fallback_sum': True},
                {'input': {'expr': str(e), 'z': fstr(z0), 'terms': K}, 'lcapy': str(Xs), 'lcapy_partial_sum': fstr(part),
                 'spec': 'the first %d terms of the reported sum are sum_{m<%d} x[m] z^-m = %s' % (K, K, fstr(want))},
                'the unevaluated z-transform is not the defining unilateral sum')

    stream('ztsum')
    if gen and cur[0]:
        n_ = Lc.n
        for e_, fam in [(1 / (n_ + 1), 'rational in n'), (Lc.rat(Fraction(1, 2)) ** n_ / (n_ + 2), 'rational in n times a^n'),
                        (n_ / (n_ ** 2 + 1), 'rational in n')][:(2 if quick else 3)]:
            guarded(ztsum_case, e_, fam)

    stream('izt')
    for i in (range(budget['izt']) if (gen and cur[0]) else []):
        b, a, poles = gen_ba(rng, maxpoles=(2 if quick else 3))
        guarded(izt_case, b, a, poles)
    # directed family: H = c z**m / (z - p)**k, i.e. B = c w**j, A = (1 - p w)**k -- the shape of the
    # "1/(z**m (z - 1)) -> u[n - m]" shortcut of InverseZTransformer.ratfun, simple AND repeated pole, p = 1 and p != 1
    if gen and cur[0]:
        for kpow in (1, 2, 3):
            for j in (0, 1, 2, 3):
                for pole in (Fraction(1), rnd_frac(rng, -3, 3, 3)):
                    c = rng.choice([Fraction(1), rnd_frac(rng)])
                    chk.count('izt.directed', 'p=%s k=%d' % ('1' if pole == 1 else 'other', kpow))
                    guarded(izt_case, [Fraction(0)] * j + [c], poly_from_roots([pole] * kpow), [pole] * kpow, zform=(c, kpow - j, pole, kpow))

    # directed family: complex-conjugate pole pairs of multiplicity 1..4 (Gaussian-rational poles c(1+-j), c(-1+-j), +-jc, so that the
    # samples are certified rational), optionally with a real pole, on both routes pairs=True / pairs=False; judged coefficient-wise
    # (A*h = B, the long-division spec needs no roots), n = 0..NS
    if gen and cur[0]:
        def pmul_(p_, q_):
            r_ = [Fraction(0)] * (len(p_) + len(q_) - 1)
            for i_, x_ in enumerate(p_):
                for j_, y_ in enumerate(q_):
                    r_[i_ + j_] += x_ * y_
            return r_
        combos = [(m_, pr_) for m_ in (1, 2, 3, 4) for pr_ in (True, False)]
        if not quick:
            combos = combos * 4
        for (m_, pr_) in combos:
            c_ = rng.choice([Fraction(1, 2), Fraction(1), Fraction(-1, 2), Fraction(3, 2), Fraction(1, 3)])
            re_, im_ = rng.choice([(c_, c_), (-c_, c_), (Fraction(0), c_)])
            quad = [Fraction(1), -2 * re_, re_ * re_ + im_ * im_]          # (1 - p w)(1 - conj(p) w)
            a_ = [Fraction(1)]
            for _ in range(m_):
                a_ = pmul_(a_, quad)
            if rng.random() < 0.4:
                a_ = pmul_(a_, [Fraction(1), -rnd_frac(rng, -2, 2, 3)])
            b_ = [rnd_frac(rng, -4, 4, 2, nonzero=False) for _ in range(rng.randint(1, 3))]
            if all(v_ == 0 for v_ in b_):
                b_[0] = Fraction(1)
            chk.count('izt.complex-pairs', 'multiplicity %d pairs=%s' % (m_, pr_))
            guarded(izt_case, b_, a_, [], pairs=pr_, cpm=m_)

    # ------------------------------------------------------------------ response stream
    def resp_case(b, a, ic, xspec, n1):
        newcase()
        bs, as_, ics = lst(b), lst(a), lst(ic)
        key = ('resp', bs, as_, ics, xspec[0], str(xspec[1:]), n1)
        Ni = len(ic)
        n0 = -Ni - rng.choice([0, 0, 2])
        F = Lc.lcapy.DLTIFilter([Lc.rat(c) for c in b], [Lc.rat(c) for c in a])
        if xspec[0] == 'lit':
            x0, xv = xspec[1], xspec[2]
            x = Lc.lcapy.seq([Lc.rat(v) for v in xv], list(range(x0, x0 + len(xv))))
            xtok = 'lit %d %s' % (x0, lst(xv))
        else:
            terms = xspec[1]
            x = Lc.lcapy.nexpr(Lc.sig_expr(terms))
            xtok = 'sig ' + sig_tokens(terms)
        chk.count('resp.input', xspec[0] + (' origin!=0' if xspec[0] == 'lit' and xspec[1] != 0 else ''))
        chk.count('resp.orders', 'b%d a%d' % (len(b), len(a)))
        try:
            y = F.response(x, ic=[Lc.rat(c) for c in ic], ni=(n0, n1))
            ni = [int(v) for v in y.n]
            yv = [Lc.tofrac(v.sympy) for v in y.vals]
        except Exception as ex:   # noqa
            chk.count('resp.lcapy-error', type(ex).__name__)
            chk.case(key, False)
            return
        chk.case(key, True)
        chk.sample({'stream': 'resp', 'b': bs, 'a': as_, 'ic': ics, 'x': xtok, 'ni': [n0, n1]})
        ymap = dict(zip(ni, yv))
        ypos = [ymap[i] for i in range(0, n1 + 1)]
        yneg = [ymap.get(-i - 1) for i in range(Ni)]
        mv = drv.ask1('resp.model %d %s %s %s | %s' % (n1 + 1, bs, as_, ics, xtok))
        chk.coverage['correspondence']['compared'] += 1
        if mv != lst(ypos):
            disagree('response', {'b': bs, 'a': as_, 'ic': ics, 'x': xtok, 'lcapy': lst(ypos), 'model': mv})
        bad = None
        if ni != list(range(n0, n1 + 1)):
            bad = 'indices %s' % ni
        elif yneg != list(ic):
            bad = 'initial conditions not reproduced at negative indices: %s' % yneg
        elif any(ymap[i] != 0 for i in range(n0, -Ni)):
            bad = 'non-zero before the initial conditions'
        else:
            r = drv.ask1('resp.spec %s %s %s %s | %s' % (lst(ypos), bs, as_, ics, xtok))
            if r != 'ok':
                bad = 'difference equation: ' + r
        if bad:
            cex({'kind': 'response', 'input': xspec[0], 'x_origin': ('nonzero' if xspec[0] == 'lit' and xspec[1] != 0 else 'zero')},
                {'input': {'b': bs, 'a': as_, 'ic': ics, 'x': xtok, 'ni': [n0, n1]}, 'lcapy': {'n': ni, 'y': lst(yv)}, 'model': mv,
                 'spec': 'sum_k a[k] y[n-k] = sum_l b[l] x[n-l] for n >= 0 with y[-1-i] = ic[i]: ' + bad},
                'DLTIFilter.response does not satisfy its difference equation')

    stream('resp')
    for i in (range(budget['resp']) if (gen and cur[0]) else []):
        nb, na = rng.randint(1, 4), rng.randint(1, 4)
        b = [rnd_frac(rng, -4, 4, 3, nonzero=False) for _ in range(nb)]
        a = [rnd_frac(rng, -4, 4, 3)] + [rnd_frac(rng, -4, 4, 3, nonzero=False) for _ in range(na - 1)]
        ic = [rnd_frac(rng, -5, 5, 2, nonzero=False) for _ in range(na - 1)]
        if i % 4 == 0:
            ic = [Fraction(0)] * (na - 1)
        if i % 3 == 2:
            xs = ('sig', gen_sig(rng, allow_adv=True, allow_trig=False, maxterms=2))
        else:
            xs = ('lit', rng.choice([0, 0, -1, -2, 1, 2]), [rnd_frac(rng, -5, 5, 2, nonzero=False) for _ in range(rng.randint(1, 5))])
        guarded(resp_case, b, a, ic, xs, rng.randint(3, 7 if quick else 12))

    # malformed stream: wrong number of initial conditions must be refused
    for i in (range(4 if quick else 20) if (gen and cur[0]) else []):
        na = rng.randint(1, 3)
        a = [Fraction(1)] + [rnd_frac(rng) for _ in range(na - 1)]
        ic = [rnd_frac(rng) for _ in range(na - 1 + rng.choice([1, 2]))]
        F = Lc.lcapy.DLTIFilter([1], [Lc.rat(c) for c in a])
        try:
            F.response(Lc.lcapy.seq([1, 2]), ic=[Lc.rat(c) for c in ic], ni=(0, 3))
            chk.count('malformed', 'wrong-ic-count:accepted')
            cex({'kind': 'response-malformed'}, {'input': {'a': lst(a), 'ic': lst(ic)}, 'spec': 'len(ic) = len(a) - 1 is required'},
                'response accepted a wrong number of initial conditions')
        except ValueError:
            chk.count('malformed', 'wrong-ic-count:ValueError')
        chk.case(('malformed', lst(a), lst(ic)), False)

    # ------------------------------------------------------------------ initial-condition response stream
    def ini_case(b, a, ic, xic):
        newcase()
        bs, as_, ics, xics = lst(b), lst(a), lst(ic), lst(xic)
        key = ('ini', bs, as_, ics, xics)
        longb = len(b) > len(a)
        chk.count('ini.orders', 'b%d a%d%s' % (len(b), len(a), ' (len b > len a)' if longb else ''))
        F = Lc.lcapy.DLTIFilter([Lc.rat(c) for c in b], [Lc.rat(c) for c in a])
        M = 8 if quick else 12
        try:
            yi = F.initial_response(ic=[Lc.rat(c) for c in ic], xic=[Lc.rat(c) for c in xic])
            yv = [Lc.tofrac(yi(i).sympy) for i in range(M)]
        except Exception as ex:   # noqa
            chk.count('ini.lcapy-error', type(ex).__name__)
            chk.case(key, False)
            return
        chk.case(key, True)
        chk.sample({'stream': 'ini', 'b': bs, 'a': as_, 'ic': ics, 'xic': xics, 'lcapy': str(yi)[:160]})
        mv = drv.ask1('ini.model %d %s %s %s %s' % (M, bs, as_, ics, xics))
        chk.coverage['correspondence']['compared'] += 1
        if mv != lst(yv):
            disagree('initial_response', {'b': bs, 'a': as_, 'ic': ics, 'xic': xics, 'lcapy': lst(yv), 'model': mv})
        # oracle: y obeys the difference equation with x[n] = 0 (n >= 0), x[-1-i] = xic[i], y[-1-i] = ic[i]
        xtok = 'lit %d %s' % (-len(xic), lst(list(reversed(xic)))) if xic else 'lit 0 -'
        r = drv.ask1('resp.spec %s %s %s %s | %s' % (lst(yv), bs, as_, ics, xtok))
        if r != 'ok':
            cex({'kind': 'initial_response', 'b_longer_than_a': longb},
                {'input': {'b': bs, 'a': as_, 'ic': ics, 'xic': xics}, 'lcapy': {'y': str(yi), 'samples': lst(yv)}, 'model': mv,
                 'spec': 'zero-input response obeys the difference equation with the given past samples: ' + r},
                'initial_response does not satisfy the difference equation')

    stream('ini')
    for i in (range(40 if quick else 400) if (gen and cur[0]) else []):
        na = rng.randint(2, 4)
        nb = rng.randint(1, na) if i % 4 else rng.randint(na + 1, na + 2)
        poles = [rnd_frac(rng, -3, 3, 3) for _ in range(na - 1)]          # rational poles keep the samples exactly evaluable
        if na > 2 and rng.random() < 0.3:
            poles[1] = poles[0]
        a0 = rnd_frac(rng, -3, 3, 2)
        a = [a0 * c for c in poly_from_roots(poles)]
        b = [rnd_frac(rng, -4, 4, 3, nonzero=False) for _ in range(nb)]
        ic = [rnd_frac(rng, -5, 5, 2, nonzero=False) for _ in range(na - 1)]
        xic = [rnd_frac(rng, -5, 5, 2, nonzero=False) for _ in range(na - 1)]
        guarded(ini_case, b, a, ic, xic)

    # ------------------------------------------------------------------ Sequence.lfilter / convolve stream
    def seqv(vals, n0):
        return Lc.lcapy.seq([Lc.rat(v) for v in vals], list(range(n0, n0 + len(vals))))

    def conv_case(xv, x0, hv, h0):
        newcase()
        key = ('conv', lst(xv), x0, lst(hv), h0)
        lead = hv[0] == 0
        chk.count('conv.shape', 'h leading zero' if lead else ('h trailing zero' if hv[-1] == 0 else 'plain'))
        try:
            y = seqv(xv, x0).convolve(seqv(hv, h0))
            yn = [int(v) for v in y.n]
            yv = [Lc.tofrac(v.sympy) for v in y.vals]
        except Exception as ex:   # noqa
            chk.count('conv.lcapy-error', type(ex).__name__)
            chk.case(key, False)
            return
        chk.case(key, True)
        mv = drv.ask1('conv.model %s %s' % (lst(xv), lst(hv)))
        chk.coverage['correspondence']['compared'] += 1

        def strip0(txt):
            # sequences are compared up to trailing zeros (Sequence.__eq__ prunes them; the first index is fixed)
            v = flist(txt)
            while v and v[-1] == 0:
                v.pop()
            return v
        if strip0(mv) != strip0(lst(yv)):
            disagree('convolve', {'x': lst(xv), 'h': lst(hv), 'lcapy': lst(yv), 'model': mv})
        y0 = yn[0] if yn else x0 + h0
        bad = None
        if yn != list(range(y0, y0 + len(yn))):
            bad = 'indices %s' % yn
        else:
            r = drv.ask1('conv.spec %d %s %d %s %d %s' % (y0, lst(yv), x0, lst(xv), h0, lst(hv)))
            if r != 'ok':
                bad = r
        if bad:
            cex({'kind': 'convolve', 'h_leading_zero': lead},
                {'input': {'x': lst(xv), 'x0': x0, 'h': lst(hv), 'h0': h0}, 'lcapy': {'n': yn, 'y': lst(yv)}, 'model': mv,
                 'spec': 'y[n] = sum_j h[j] x[n-j] for all n: ' + bad},
                'Sequence.convolve is not the convolution sum')

    def lfilter_case(b, a, xv):
        newcase()
        key = ('lfilter', lst(b), lst(a), lst(xv))
        recursive = len(a) > 1
        tailzeros = 0
        for v in reversed(xv):
            if v != 0:
                break
            tailzeros += 1
        wrap = len(b) - 1 > tailzeros
        chk.count('lfilter.shape', ('iir' if recursive else 'fir') + (' wraps' if wrap else ''))
        try:
            y = seqv(xv, 0).lfilter([Lc.rat(c) for c in b], [Lc.rat(c) for c in a])
            yv = [Lc.tofrac(v.sympy) for v in y.vals]
        except Exception as ex:   # noqa
            chk.count('lfilter.lcapy-error', type(ex).__name__)
            chk.case(key, False)
            return
        chk.case(key, True)
        mv = drv.ask1('lf.model %s %s %s' % (lst(b), lst(a), lst(xv)))
        chk.coverage['correspondence']['compared'] += 1
        if mv != lst(yv):
            disagree('lfilter', {'b': lst(b), 'a': lst(a), 'x': lst(xv), 'lcapy': lst(yv), 'model': mv})
        r = drv.ask1('resp.spec %s %s %s - | lit 0 %s' % (lst(yv), lst(b), lst(a), lst(xv)))
        if r != 'ok':
            cex({'kind': 'lfilter', 'recursive': recursive, 'index_wraps': wrap},
                {'input': {'b': lst(b), 'a': lst(a), 'x': lst(xv)}, 'lcapy': lst(yv), 'model': mv,
                 'spec': 'sum_k a[k] y[n-k] = sum_l b[l] x[n-l], x and y zero before the first sample: ' + r},
                'Sequence.lfilter does not implement the transfer function b/a')

    stream('seq')
    for i in (range(60 if quick else 600) if (gen and cur[0]) else []):
        xv = [rnd_frac(rng, -4, 4, 2, nonzero=(j in (0,))) for j in range(rng.randint(1, 5))]
        hv = [rnd_frac(rng, -4, 4, 2) for j in range(rng.randint(1, 4))]
        if i % 4 == 1:
            hv = [Fraction(0)] * rng.randint(1, 2) + hv
        if i % 4 == 2:
            hv = hv + [Fraction(0)]
        if i % 4 == 3:
            xv = [Fraction(0)] + xv + [Fraction(0)]
        guarded(conv_case, xv, rng.randint(-2, 2), hv, rng.randint(-2, 2))
    for i in (range(60 if quick else 600) if (gen and cur[0]) else []):
        b = [rnd_frac(rng, -3, 3, 2) for _ in range(rng.randint(1, 3))]
        a = [rnd_frac(rng, -3, 3, 2)] + ([rnd_frac(rng, -3, 3, 2) for _ in range(rng.randint(1, 2))] if i % 2 else [])
        xv = [rnd_frac(rng, -4, 4, 2) for _ in range(rng.randint(1, 5))] + [Fraction(0)] * (0 if i % 3 == 0 else 3)
        guarded(lfilter_case, b, a, xv)

    # ------------------------------------------------------------------ DFT stream
    def fterm_tokens(t, aval=None):
        # term tokens for the F_P requests; `aval` overrides the geometric base by an F_P element
        if aval is None:
            return t.tokens()
        return '%s %d %d %s' % (fstr(t.coef), t.p, aval, t.kind if t.kind == 'one' else '%s %d' % (t.kind, t.d))

    def dft_case(terms, N, symbolic, bins):
        """bins[i] = m means term i carries an extra factor exp(j 2 pi m n / N) (numeric N only)"""
        newcase()
        toks = ' ; '.join(fterm_tokens(t, None if bins[i] is None else (zeta(N, bins[i]) * fp_of_frac(t.a)) % FP)
                          for i, t in enumerate(terms))
        key = ('dft', toks, N, symbolic)
        fam = '+'.join(sorted(set(('exp*' if bins[i] is not None else '') + t.kind + ('*n^%d' % t.p if t.p else '') +
                                  ('*a^n' if t.a != 1 else '') for i, t in enumerate(terms))))
        chk.count('dft.family', fam)
        chk.count('dft.N', ('symbolic->%d' if symbolic else '%d') % N)
        e = S.Integer(0)
        for i, t in enumerate(terms):
            te = Lc.term_expr(t)
            if bins[i] is not None:
                te = te * S.exp(S.I * 2 * S.pi * bins[i] * Lc.n / N)
            e = e + te
        try:
            xe = Lc.lcapy.nexpr(e)
            X = xe.DFT() if symbolic else xe.DFT(N=N)
            Xs = X.sympy
        except Exception as ex:   # noqa
            chk.count('dft.lcapy-error', type(ex).__name__)
            chk.case(key, False)
            return
        if Xs.has(S.Sum):
            chk.count('degenerate', 'dft-no-closed-form')
            chk.case(key, False)
            return
        Nsyms = [s_ for s_ in Xs.free_symbols if s_.name == 'N']
        chk.case(key, True)
        chk.sample({'stream': 'dft', 'terms': toks, 'N': N, 'symbolic_N': symbolic, 'lcapy': str(Xs)[:200]})
        w = zeta(N, -1)                               # exp(-2 pi i / N)
        root_geo = any(bins[i] is None and t.a != 1 and pow(fp_of_frac(t.a), N, FP) == 1 for i, t in enumerate(terms))
        wrapped = (not symbolic) and any(t.kind == 'imp' and 2 * t.d > N and 0 <= t.d < N and (t.p > 0 or t.a != 1 or bins[i] is not None)
                                         for i, t in enumerate(terms))
        modelled = all(b is None for b in bins)
        Xvals = []
        for k in range(N):
            env = {Lc.k: S.Integer(k)}
            for s_ in Nsyms:
                env[s_] = S.Integer(N)
            q = pow(w, k, FP)
            fe = FpEval(Lc, env)
            try:
                lv = fe.ev(Xs)
            except ZeroDivisionError:
                lv = 'pole'
            except Unsupported as ex:
                chk.count('degenerate', 'dft-unevaluable:' + str(ex)[:30])
                return
            if fe.zero_times_singular:
                chk.count('dft.delta-convention', 'needed')
            Xvals.append(lv)
            sv = int(drv.ask1('dft.spec %d %d | %s' % (N, q, toks)))
            mv = None
            if modelled:
                mv = drv.ask1('dft.model %s %d %d | %s' % ('sym' if symbolic else 'num', N, q, toks))
                if mv == 'unmodelled' or lv == 'pole':
                    chk.count('dft.model', 'unmodelled-or-pole')
                else:
                    chk.coverage['correspondence']['compared'] += 1
                    if int(mv) != lv:
                        disagree('dft', {'terms': toks, 'N': N, 'k': k, 'symbolic_N': symbolic, 'lcapy_mod_P': lv, 'model_mod_P': int(mv)})
            if symbolic and lv == 'pole' and root_geo and mv == 'unmodelled':
                # symbolic N: the closed form (1 - (a q)^N ...)/(1 - a q)^m is 0/0 at the bin where a q = 1; whether that bin exists
                # (a an N-th root of unity) is undecided for a symbol N, the expression has no value there: nothing to compare
                chk.count('degenerate', 'dft-symbolic-N-closed-form-0/0-at-aq=1')
                continue
            if lv != sv:
                cex({'kind': 'dft', 'geo_base_is_root_of_unity': root_geo, 'impulse_index_wrapped': wrapped},
                    {'input': {'expr': str(e), 'terms': toks, 'N': N, 'symbolic_N': symbolic, 'k': k}, 'lcapy': str(Xs),
                     'lcapy_value_mod_P': lv, 'spec_value_mod_P': sv, 'P': FP,
                     'spec': 'X[k] = sum_{n<N} x[n] exp(-2 pi i n k / N), compared in F_P under exp(-2 pi i/N) -> %d' % w},
                    'DFT closed form differs from the defining sum')
                return
        # IDFT(DFT(x))[n] = x[n]
        if not symbolic and rng.random() < 0.5:
            try:
                xr = X.IDFT(N=N).sympy
                got = []
                for i in range(N):
                    got.append(FpEval(Lc, {Lc.n: S.Integer(i)}).ev(xr))
            except Exception as ex:   # noqa
                chk.count('degenerate', 'idft-unevaluable:' + type(ex).__name__)
                return
            chk.count('dft.idft-roundtrip', 'done')
            want = [int(v) for v in drv.ask1('sig.valsfp 0 %d | %s' % (N - 1, toks)).split(',')]
            if got != want:
                cex({'kind': 'idft-dft', 'geo_base_is_root_of_unity': root_geo, 'impulse_index_wrapped': wrapped,
                     'ramp_step_delay_ge2': any(t.kind == 'step' and t.p >= 1 and t.a == 1 and t.d >= 2 for t in terms)},
                    {'input': {'expr': str(e), 'terms': toks, 'N': N}, 'lcapy': {'dft': str(Xs), 'idft': str(xr)},
                     'lcapy_values_mod_P': got, 'spec_values_mod_P': want, 'spec': 'IDFT(DFT(x))[n] = x[n], n < N'},
                    'IDFT of the DFT does not recover the sequence')

    stream('dft')
    ndft = 160 if quick else 1500
    for i in (range(ndft) if (gen and cur[0]) else []):
        mode = i % 8
        symbolic = mode in (5, 6)
        nt = rng.choice([1, 1, 2])
        terms, bins = [], []
        for j in range(nt):
            t = gen_term(rng, j, allow_adv=False, allow_trig=False)
            t.p = min(t.p, 1) if mode != 7 else t.p
            terms.append(t)
            bins.append(None)
        N = rng.randint(1, 12) if not symbolic else rng.randint(8, 12)
        if mode == 4 and N > 1:        # complex exponential / sinusoid at a bin frequency (oracle only)
            m = rng.randint(1, N - 1)
            t = Term(rnd_frac(rng), 0, Fraction(1), 'one')
            if rng.random() < 0.5:
                terms, bins = [t], [m]
            else:
                half = Term(t.coef / 2, 0, Fraction(1), 'one')
                terms, bins = [half, Term(t.coef / 2, 0, Fraction(1), 'one')], [m, N - m]
        if mode == 3:                  # geometric base on the unit circle (a = -1)
            terms[0].a = Fraction(-1)
        guarded(dft_case, terms, N, symbolic, bins)
        if all(b_ is None for b_ in bins) and i % 3 == 0:
            # the same expression again with another length (and numeric after symbolic): a result must not depend on the
            # transforms taken before it in the same process (the transformers keep a result cache keyed by expression and N)
            N2 = rng.choice([m_ for m_ in range(2, 13) if m_ != N])
            chk.count('dft.same-expression-other-N', 'numeric after ' + ('symbolic' if symbolic else 'numeric'))
            guarded(dft_case, terms, N2, False, bins)

    # ------------------------------------------------------------------ DTFT stream
    # x[n] = sum of  coef * n^p * a^n * gate[n] * trig(pi rb n + pi rc)  with gate = delta[n-d] (finite support: the
    # defining bilateral sum is judged by the Lean spec `dtftSum`) or u[n-d] with |a| < 1 (causal, absolutely summable:
    # compared with the z-transform closed form of the model on the unit circle).  Everything is evaluated in F_P at
    # Omega = pi r, where e^{j Omega} is a root of unity.
    DANG = [Fraction(1, 3), Fraction(1, 2), Fraction(2, 3), Fraction(1, 4), Fraction(1, 6), Fraction(3, 4)]
    ANG = [Fraction(0), Fraction(1, 2), Fraction(1, 3), Fraction(2, 3), Fraction(1, 4), Fraction(1, 6), Fraction(-1, 3), Fraction(3, 4), Fraction(-1, 6)]

    def dt_tokens(t):
        (coef, pw, a, gate, d, trig, rb, rc) = t
        head = '%s %d %s ' % (fstr(coef), pw, fstr(a))
        if trig is None:
            return head + ('imp %d' % d if gate == 'imp' else 'step %d' % d)
        half = fp_of_frac(Fraction(1, 2))
        inv2i = pow(2 * zeta(4, 1) % FP, FP - 2, FP)

        def cs(r):
            rt = lambda x: zeta(2 * x.denominator, x.numerator)   # noqa  exp(i pi x)
            return (rt(r) + rt(-r)) * half % FP, (rt(r) - rt(-r)) * inv2i % FP
        cb, sb = cs(rb)
        cc, sc = cs(rc)
        kind = ('i' if gate == 'imp' else 'g') + trig
        return head + '%s %d %d %d %d %d' % (kind, d, cb, sb, cc, sc)

    def dt_expr(t):
        (coef, pw, a, gate, d, trig, rb, rc) = t
        n = Lc.n
        e = Lc.rat(coef)
        if pw:
            e = e * n ** pw
        if a != 1:
            e = e * Lc.rat(a) ** n
        e = e * (Lc.UI(n - d) if gate == 'imp' else Lc.US(n - d))
        if trig is not None:
            arg = S.pi * Lc.rat(rb) * n + S.pi * Lc.rat(rc)
            e = e * (S.sin(arg) if trig == 'sin' else S.cos(arg))
        return e

    def dtft_case(terms):
        newcase()
        toks = ' ; '.join(dt_tokens(t) for t in terms)
        key = ('dtft', toks)
        finite = all(t[3] == 'imp' for t in terms)
        fam = '+'.join(sorted(set(t[3] + ('*' + t[5] + ('(phase)' if t[7] != 0 else '') if t[5] else '') +
                                  ('*n' if t[1] else '') + ('*a^n' if t[2] != 1 else '') for t in terms)))
        chk.count('dtft.family', fam)
        e = sum((dt_expr(t) for t in terms), S.Integer(0))
        try:
            X = Lc.lcapy.nexpr(e).DTFT(Lc.lcapy.Omega)
            Xs = X.sympy
        except Exception as ex:   # noqa
            chk.count('dtft.lcapy-error', type(ex).__name__)
            chk.case(key, False)
            return
        if Xs.has(S.Sum) or Xs.has(S.DiracDelta):
            chk.count('degenerate', 'dtft-no-plain-closed-form')
            chk.case(key, False)
            return
        Osyms = [s_ for s_ in Xs.free_symbols if s_.name == 'Omega']
        if Xs.free_symbols - set(Osyms):
            chk.count('degenerate', 'dtft-free-symbols')
            chk.case(key, False)
            return
        chk.case(key, True)
        chk.sample({'stream': 'dtft', 'terms': toks, 'expr': str(e)[:160], 'lcapy': str(Xs)[:200]})
        sine_phase = any(t[5] == 'sin' and t[7] != 0 for t in terms)
        for r in rng.sample(ANG, 3 if quick else 5):
            env = {s_: S.pi * Lc.rat(r) for s_ in Osyms}
            try:
                lv = ev_fp(Xs, env)
            except ZeroDivisionError:
                chk.count('degenerate', 'dtft-pole-hit')
                continue
            except Unsupported as ex:
                chk.count('degenerate', 'dtft-unevaluable:' + str(ex)[:30])
                return
            zz = zeta(2 * r.denominator, r.numerator)            # e^{j Omega}
            qq = zeta(2 * r.denominator, -r.numerator)           # e^{-j Omega}
            mv = drv.ask1('dtft.model %d | %s' % (zz, toks))
            if mv == 'undef':
                chk.count('degenerate', 'dtft-pole-hit')
                continue
            chk.coverage['correspondence']['compared'] += 1
            if int(mv) != lv:
                disagree('dtft', {'terms': toks, 'expr': str(e), 'Omega': 'pi*%s' % fstr(r), 'lcapy_mod_P': lv, 'model_mod_P': int(mv)})
            if finite:
                lo = min(t[4] for t in terms)
                ln = max(t[4] for t in terms) - lo + 1
                sv = int(drv.ask1('dtft.spec %d %d %d | %s' % (lo, ln, qq, toks)))
            else:
                sv = int(mv)      # causal, |a| < 1: the model's closed form (zt_closed_form_sound + anchor on the circle)
            if lv != sv:
                cex({'kind': 'dtft', 'finite_support': finite, 'sine_with_phase': sine_phase},
                    {'input': {'expr': str(e), 'terms': toks, 'Omega': 'pi*%s' % fstr(r)}, 'lcapy': str(Xs),
                     'lcapy_value_mod_P': lv, 'spec_value_mod_P': sv, 'P': FP,
                     'spec': ('X(Omega) = sum_n x[n] exp(-j Omega n) over the finite support' if finite else
                              'X(Omega) = X(z) at z = exp(j Omega) for the causal absolutely summable sequence') +
                             ', compared in F_P under exp(j pi/M) -> zeta(2M, 1)'},
                    'DTFT differs from the defining sum on the unit circle')
                return


    # ------------------------------------------------------------------ directed DFT / IDFT families (branches of termXq / termXk
    # that the random stream does not reach).  Generic oracle: the INPUT expression is evaluated at n = 0..N-1 in F_P (same
    # homomorphic evaluator), Lean forms the defining sum of those literal values (`dft.sumlit`), Lcapy's closed form is evaluated
    # at every k.
    from lcapy.sym import miscsymbol
    Nsym = miscsymbol('N', integer=True, positive=True)

    def dft_generic_case(e, N, symbolic, fam, flags=None, piecewise=False, roundtrip=True):
        newcase()
        flags = dict(flags or {})
        key = ('dftgen', str(e), N, symbolic, piecewise)
        chk.count('dft.directed', fam + (' [symbolic N]' if symbolic else '') + (' [piecewise]' if piecewise else ''))
        before = bcov.snapshot()
        try:
            xe = Lc.lcapy.nexpr(e)
            X = xe.DFT(piecewise=piecewise) if symbolic else xe.DFT(N=N, piecewise=piecewise)
            Xs = X.sympy
        except Exception as ex:   # noqa
            chk.count('dft.lcapy-error', fam + ':' + type(ex).__name__)
            chk.case(key, False)
            return
        for (lab, fn, line) in bcov.new_since(before):
            if lab == 'dft.py':
                chk.count('dft.directed-new-branches', fam)
        if Xs.has(S.Sum):
            chk.count('degenerate', 'dft-no-closed-form')
            chk.case(key, False)
            return
        envN = {s_: S.Integer(N) for s_ in (set(Xs.free_symbols) | set(e.free_symbols)) if s_.name == 'N'}
        try:
            xv = []
            for i in range(N):
                env = {Lc.n: S.Integer(i)}
                env.update(envN)
                xv.append(FpEval(Lc, env).ev(e))
        except (Unsupported, ZeroDivisionError) as ex:
            chk.count('degenerate', 'dft-input-unevaluable:' + str(ex)[:30])
            chk.case(key, False)
            return
        chk.case(key, True)
        chk.sample({'stream': 'dft-directed', 'family': fam, 'expr': str(e)[:120], 'N': N, 'symbolic_N': symbolic, 'lcapy': str(Xs)[:200]})
        w = zeta(N, -1)
        kk = {'kind': 'dft', 'geo_base_is_root_of_unity': False, 'impulse_index_wrapped': False, 'symbolic_N': symbolic, 'family': fam}
        kk.update(flags)
        for k in range(N):
            env = {Lc.k: S.Integer(k)}
            env.update(envN)
            try:
                lv = FpEval(Lc, env).ev(Xs)
            except ZeroDivisionError:
                lv = 'pole'
            except Unsupported as ex:
                chk.count('degenerate', 'dft-unevaluable:' + str(ex)[:30])
                return
            sv = int(drv.ask1('dft.sumlit %d %s' % (pow(w, k, FP), ','.join(str(v) for v in xv))))
            if lv != sv:
                cex(kk, {'input': {'expr': str(e), 'N': N, 'symbolic_N': symbolic, 'k': k, 'piecewise': piecewise, 'family': fam}, 'lcapy': str(Xs),
                         'lcapy_value_mod_P': lv, 'spec_value_mod_P': sv, 'P': FP,
                         'spec': 'X[k] = sum_{n<N} x[n] exp(-2 pi i n k / N); x[n] from the input expression, sum by Lean (dft.sumlit), in F_P'},
                    'DFT closed form differs from the defining sum')
                return
        if roundtrip and not symbolic:
            try:
                xr = X.IDFT(N=N).sympy
                got = [FpEval(Lc, {Lc.n: S.Integer(i)}).ev(xr) for i in range(N)]
            except Exception as ex:   # noqa
                chk.count('degenerate', 'idft-unevaluable:' + type(ex).__name__)
                return
            chk.count('dft.idft-roundtrip', 'directed')
            if got != xv:
                k2 = dict(kk)
                k2['kind'] = 'idft-dft'
                k2.setdefault('ramp_step_delay_ge2', False)
                cex(k2, {'input': {'expr': str(e), 'N': N, 'family': fam}, 'lcapy': {'dft': str(Xs), 'idft': str(xr)},
                         'lcapy_values_mod_P': got, 'spec_values_mod_P': xv, 'spec': 'IDFT(DFT(x))[n] = x[n], n < N'},
                    'IDFT of the DFT does not recover the sequence')

    def idft_generic_case(Xe, N, fam):
        """X[k] given as an expression in k; oracle: the DFT defining sum of Lcapy's IDFT output is X[k] for every k"""
        newcase()
        key = ('idftgen', str(Xe), N)
        chk.count('idft.directed', fam)
        before = bcov.snapshot()
        try:
            xs = Lc.lcapy.kexpr(Xe).IDFT(N=N).sympy
        except Exception as ex:   # noqa
            chk.count('idft.lcapy-error', fam + ':' + type(ex).__name__)
            chk.case(key, False)
            return
        for (lab, fn, line) in bcov.new_since(before):
            if lab == 'dft.py':
                chk.count('dft.directed-new-branches', fam)
        if xs.has(S.Sum):
            chk.count('degenerate', 'idft-no-closed-form')
            chk.case(key, False)
            return
        try:
            xv = [FpEval(Lc, {Lc.n: S.Integer(i)}).ev(xs) for i in range(N)]
            Xv = [FpEval(Lc, {Lc.k: S.Integer(i)}).ev(Xe) for i in range(N)]
        except (Unsupported, ZeroDivisionError) as ex:
            chk.count('degenerate', 'idft-unevaluable:' + str(ex)[:30])
            chk.case(key, False)
            return
        chk.case(key, True)
        chk.sample({'stream': 'idft-directed', 'family': fam, 'X': str(Xe)[:120], 'N': N, 'lcapy': str(xs)[:200]})
        w = zeta(N, -1)
        for k in range(N):
            sv = int(drv.ask1('dft.sumlit %d %s' % (pow(w, k, FP), ','.join(str(v) for v in xv))))
            if sv != Xv[k]:
                cex({'kind': 'idft', 'family': fam},
                    {'input': {'X': str(Xe), 'N': N, 'k': k}, 'lcapy': str(xs), 'dft_of_lcapy_output_mod_P': sv, 'X_value_mod_P': Xv[k],
                     'spec': 'sum_{n<N} x[n] exp(-2 pi i n k / N) = X[k] for the returned x'},
                    'IDFT output is not a sequence whose DFT is X')
                return

    stream('dftdir')
    if gen and cur[0]:
        n_ = Lc.n
        dtrect = Lc.lcapy.extrafunctions.dtrect
        I_, pi_ = S.I, S.pi
        R = Lc.rat
        thor = not quick

        def pick(lst_, k):
            return lst_ if thor else rng.sample(lst_, min(k, len(lst_)))
        # D1 rect windows: inside / cut left / cut right / cut both / outside
        for (c, b, N) in pick([(3, 4, 8), (3, 3, 8), (0, 4, 8), (1, 5, 6), (6, 4, 7), (7, 5, 8), (3, 12, 6), (12, 3, 8), (-5, 3, 8)], 5):
            w8 = rng.choice([S.Integer(1), n_, R(Fraction(1, 2)) ** n_, n_ ** 2])
            guarded(dft_generic_case, R(rnd_frac(rng)) * w8 * dtrect((n_ - c) / S.Integer(b)), N, False, 'rect', roundtrip=(w8 == 1))
        # D2 time-reversed steps u(n0 - n); D3 advanced steps u(n + m)
        for (n0, N) in pick([(3, 8), (0, 6), (9, 6), (-2, 6), (5, 6)], 3):
            w8 = rng.choice([S.Integer(1), n_, R(Fraction(-2, 3)) ** n_])
            guarded(dft_generic_case, R(rnd_frac(rng)) * w8 * Lc.US(n0 - n_), N, False, 'reversed-step')
        for (m, N) in pick([(2, 6), (1, 5), (3, 8)], 2):
            w8 = rng.choice([S.Integer(1), n_, R(Fraction(1, 3)) ** n_])
            guarded(dft_generic_case, R(rnd_frac(rng)) * w8 * Lc.US(n_ + m), N, False, 'advanced-step')
            guarded(dft_generic_case, w8 * Lc.US(n_ + m), N, True, 'advanced-step')
        # D4 complex exponentials: bin frequency (negative and positive bins, with phase) and off-bin frequency
        for (m, N) in pick([(-1, 6), (2, 8), (-3, 8), (5, 6), (1, 4)], 3):
            base = rng.choice([S.Integer(1), Lc.US(n_ - 2), n_, R(Fraction(1, 2)) ** n_, n_ * Lc.US(n_ - 1)])
            guarded(dft_generic_case, R(rnd_frac(rng)) * S.exp(I_ * 2 * pi_ * m * n_ / N + I_ * pi_ / 3) * base, N, False, 'exp-bin')
        for (r, N) in pick([(Fraction(1, 3), 8), (Fraction(1, 2), 6), (Fraction(-1, 4), 6), (Fraction(2, 3), 4)], 2):
            base = rng.choice([S.Integer(1), Lc.US(n_ - 1), n_])
            guarded(dft_generic_case, S.exp(I_ * pi_ * R(r) * n_) * base, N, False, 'exp-offbin')
        guarded(dft_generic_case, S.exp(I_ * 2 * pi_ * 2 * n_ / Nsym), 8, True, 'exp-bin')
        # D5 sinusoids with phase: bin and off-bin
        for (r, sft, N) in pick([(Fraction(1, 2), Fraction(1, 3), 8), (Fraction(1, 3), Fraction(0), 6), (Fraction(2, 3), Fraction(1, 4), 6),
                                 (Fraction(1, 3), Fraction(1, 6), 8), (Fraction(1, 4), Fraction(1, 3), 6), (Fraction(1, 2), Fraction(0), 6)], 4):
            base = rng.choice([S.Integer(1), Lc.US(n_ - 2), n_, R(Fraction(1, 2)) ** n_])
            f = rng.choice([S.sin, S.cos])
            fam = 'sinusoid-' + ('bin' if (r * N / 2).denominator == 1 else 'offbin')
            guarded(dft_generic_case, R(rnd_frac(rng)) * f(pi_ * R(r) * n_ + pi_ * R(sft)) * base, N, False, fam)
        guarded(dft_generic_case, S.cos(2 * pi_ * 3 * n_ / Nsym + pi_ / 4), 9, True, 'sinusoid-bin')
        # D7 higher polynomial weights (generated A_l, B_u polynomials)
        for (pw, d, N) in pick([(4, 0, 6), (4, 2, 7), (5, 1, 6), (6, 0, 5)], 2):
            guarded(dft_generic_case, n_ ** pw * (Lc.US(n_ - d) if d else 1), N, False, 'n^p p>=4', flags={'ramp_step_delay_ge2': d >= 2})
        guarded(dft_generic_case, n_ ** 4, 7, True, 'n^p p>=4')
        # D8 impulses: at N - 1 for symbolic N, weighted by n, outside the window
        guarded(dft_generic_case, 3 * Lc.UI(n_ - Nsym + 1), 9, True, 'impulse at N-1')
        guarded(dft_generic_case, n_ * Lc.UI(n_ - Nsym + 2), 10, True, 'impulse at N-1', flags={'impulse_index_wrapped': True})
        guarded(dft_generic_case, R(Fraction(1, 2)) ** n_ * Lc.UI(n_ - Nsym + 1), 7, True, 'impulse at N-1', flags={'impulse_index_wrapped': True})
        for d in pick([-1, 7, 9], 2):
            guarded(dft_generic_case, 2 * Lc.UI(n_ - d), 6, False, 'impulse outside')
        # D9 piecewise=True output
        for e_ in pick([S.Integer(2), n_, n_ * Lc.US(n_ - 2), S.exp(I_ * 2 * pi_ * n_ / 6) * n_], 2):
            guarded(dft_generic_case, e_, 6, False, 'piecewise', piecewise=True, flags={'ramp_step_delay_ge2': e_.has(Lc.US)})
        # D10 forward termXk: x[n] a rational function of exp(j 2 pi n / N)
        for (a_, pw, N) in pick([(Fraction(1, 2), 1, 6), (Fraction(-2, 3), 2, 5), (Fraction(1, 3), 3, 4), (Fraction(3, 2), 1, 8)], 2):
            guarded(dft_generic_case, 1 / (1 - R(a_) * S.exp(I_ * 2 * pi_ * n_ / N)) ** pw, N, False, 'termXk forward', roundtrip=False)
        # D11 no rule matches: sympy summation fallback
        guarded(dft_generic_case, 1 / (n_ + 1), 4, False, 'fallback summation', roundtrip=False)
        # D12 geometric base that is an N-th root of unity (finding F20)
        for (e_, N) in pick([((-1) ** n_, 4), (n_ * (-1) ** n_, 6), (S.I ** n_, 8), ((-1) ** n_ * Lc.US(n_ - 1), 6), ((-1) ** n_, 5)], 3):
            guarded(dft_generic_case, e_, N, False, 'root-of-unity base', flags={'geo_base_is_root_of_unity': N % 2 == 0}, roundtrip=False)
        # I1 IDFT of rational functions of exp(-j 2 pi k / N): simple and repeated poles off the unit circle (termXk, first case)
        for (a_, pw, N) in pick([(Fraction(1, 2), 1, 6), (Fraction(-1, 3), 2, 5), (Fraction(2, 3), 3, 6), (Fraction(1, 2), 4, 4), (Fraction(-1, 2), 5, 4),
                                 (Fraction(1, 3), 6, 3)], 3 if quick else 6):
            q_ = S.exp(-I_ * 2 * pi_ * Lc.k / N)
            num = rng.choice([S.Integer(1), q_, 1 + 2 * q_]) if pw > 1 else S.Integer(1)
            guarded(idft_generic_case, num / (1 - R(a_) * q_) ** pw, N, 'ratfun pole order %d' % pw)
        # the same X[k] inverted with two lengths in a row (N and 2N: exp(-j 2 pi k / N) = exp(-j 2 pi k / 2N)**2)
        Xsame = 1 / (1 - R(Fraction(1, 2)) * S.exp(-I_ * 2 * pi_ * Lc.k / 4))
        guarded(idft_generic_case, Xsame, 4, 'same X, N then 2N')
        guarded(idft_generic_case, Xsame, 8, 'same X, N then 2N')
        # I2 round trips through the second case of termXk (pole on the unit circle, (1 - delta) factor), all table orders
        for (pw, d, N) in pick([(1, 0, 6), (1, 2, 6), (2, 0, 5), (2, 3, 7), (3, 0, 6), (3, 2, 5), (4, 0, 5), (5, 0, 4)], 4):
            guarded(dft_generic_case, n_ ** pw * (Lc.US(n_ - d) if d else 1), N, False, 'n^p roundtrip', flags={'ramp_step_delay_ge2': d >= 2})

    stream('dtft')
    for i in (range(40 if quick else 400) if (gen and cur[0]) else []):
        nt = rng.choice([1, 1, 2, 3]) if i % 2 == 0 else 1
        terms = []
        for _ in range(nt):
            trig = rng.choice([None, 'sin', 'sin', 'cos'])
            rb = rng.choice([Fraction(1, 3), Fraction(1, 2), Fraction(2, 3), Fraction(1, 4), Fraction(1, 6)])
            rc = rng.choice([Fraction(0), Fraction(1, 4), Fraction(1, 6), Fraction(1, 3), Fraction(-1, 3), Fraction(-1, 6)])
            if i % 2 == 0:       # finite support
                terms.append((rnd_frac(rng), rng.choice([0, 0, 1]) if trig is None else 0, Fraction(1), 'imp', rng.randint(-3, 5), trig, rb, rc))
            else:                # causal geometric, |a| < 1
                a = Fraction(rng.choice([1, -1, 2, -2]), rng.choice([3, 4, 5]))
                terms.append((rnd_frac(rng), rng.choice([0, 0, 1]), a, 'step', rng.randint(0, 3), trig, rb, rc))
        guarded(dtft_case, terms)


    # ------------------------------------------------------------------ sequences with an origin (nseq.ZT/DFT, zseq.IZT)
    def seqorg_case(vals, n0):
        newcase()
        key = ('seqorg', lst(vals), n0)
        org = 'zero' if n0 == 0 else ('positive' if n0 > 0 else 'negative')
        chk.count('seqorg.origin', org)
        x = Lc.lcapy.seq([Lc.rat(v) for v in vals], list(range(n0, n0 + len(vals))))
        z0 = rnd_frac(rng, -5, 5, 3)
        try:
            Z = x.ZT()
            zn = [int(v) for v in Z.n]
            zv = [Lc.tofrac(S.cancel(v.sympy.subs(Lc.z, Lc.rat(z0)))) for v in Z.vals]
        except Exception as ex:   # noqa
            chk.count('seqorg.lcapy-error', 'ZT:' + type(ex).__name__)
            chk.case(key, False)
            return
        try:
            xb = Z.IZT()
            bn = [int(v) for v in xb.n]
            bv = [Lc.tofrac(S.cancel(v.sympy.subs(Lc.z, Lc.rat(z0)))) for v in xb.vals]
        except Exception as ex:   # noqa   (e.g. the n-domain constructor refuses an element that still depends on z)
            chk.count('seqorg.lcapy-error', 'IZT:' + type(ex).__name__)
            xb = None
        chk.case(key, True)
        chk.sample({'stream': 'seqorg', 'vals': lst(vals), 'n0': n0, 'lcapy_ZT': str(Z)[:120], 'lcapy_ZT_n': zn})
        # correspondence: the element list and its first index (model selected by the regenerated flags)
        m1 = drv.ask1('seq.zt %s %d %s' % (fstr(z0), n0, lst(vals))).split()
        chk.coverage['correspondence']['compared'] += 1
        if (zn[0] if zn else 0, lst(zv)) != (int(m1[0]), m1[1]):
            disagree('seq.ZT', {'vals': lst(vals), 'n0': n0, 'z': fstr(z0), 'lcapy': [zn[:1], lst(zv)], 'model': m1})
        if xb is not None:
            m2 = drv.ask1('seq.iztzt %s %d %s' % (fstr(z0), n0, lst(vals))).split()
            chk.coverage['correspondence']['compared'] += 1
            if (bn[0] if bn else 0, lst(bv)) != (int(m2[0]), m2[1]):
                disagree('seq.IZT', {'vals': lst(vals), 'n0': n0, 'z': fstr(z0), 'lcapy': [bn[:1], lst(bv)], 'model': m2})
        # oracle 1: the terms sum to the defining sum of the sequence (unilateral = bilateral unless n0 < 0)
        bi, uni = [Fraction(v) for v in drv.ask1('seq.ztspec %s %d %s' % (fstr(z0), n0, lst(vals))).split()]
        tot = sum(zv, Fraction(0))
        if tot != uni:
            if tot == bi:      # samples before n = 0 kept: the advance finding, seen through a sequence
                kk = {'kind': 'zt', 'advance': True}
            else:
                kk = {'kind': 'seq-zt', 'origin': org}
            cex(kk, {'input': {'vals': lst(vals), 'n0': n0, 'z': fstr(z0)}, 'lcapy': {'ZT': str(Z), 'n': zn, 'sum_at_z': fstr(tot)},
                     'spec': 'sum of the z-transform terms = sum_n x[n] z^-n: unilateral %s, bilateral %s' % (fstr(uni), fstr(bi))},
                'z-transform of a sequence with an origin is not the defining sum')
        # oracle 2: IZT(ZT(x)) = x (same indices, same values)
        if xb is not None and (bn, bv) != (list(range(n0, n0 + len(vals))), list(vals)):
            cex({'kind': 'seq-izt-zt', 'origin': org},
                {'input': {'vals': lst(vals), 'n0': n0}, 'lcapy': {'n': bn, 'vals': lst(bv)}, 'spec': 'IZT(ZT(x)) = x with the same indices'},
                'sequence IZT(ZT(x)) does not return the sequence')
        # zeropad(M) is the same sequence: as many indices as values, contiguous from the first index, same x[n] everywhere
        # (Lean: x * delta = x through conv.spec with h = {1})
        M_ = 1 + state['case'] % 3
        try:
            zp = x.zeropad(M_)
            pn, pv = [int(v) for v in zp.n], [Lc.tofrac(v.sympy) for v in zp.vals]
        except Exception as ex:   # noqa
            chk.count('seqorg.lcapy-error', 'zeropad:' + type(ex).__name__)
            pn = None
        if pn is not None:
            chk.count('seqorg.zeropad', 'done')
            bad = None
            if len(pn) != len(pv) or pn != list(range(n0, n0 + len(pv))) or len(pv) != len(vals) + M_:
                bad = 'indices %s for %d values (expected %d..%d)' % (pn, len(pv), n0, n0 + len(vals) + M_ - 1)
            else:
                r = drv.ask1('conv.spec %d %s %d %s 0 1' % (n0, lst(pv), n0, lst(vals)))
                if r != 'ok':
                    bad = r
            if bad:
                cex({'kind': 'zeropad', 'origin': org}, {'input': {'vals': lst(vals), 'n0': n0, 'M': M_}, 'lcapy': {'n': pn, 'vals': lst(pv)},
                                                       'spec': 'zeropad(M) has len(vals) + M values at n0, n0+1, ... and the same samples: ' + bad},
                    'Sequence.zeropad does not keep the sequence')
        # DFT / IDFT of the sequence (periodic reading of the indices): model + defining sum in F_P, round trip
        N = len(vals)
        if (FP - 1) % N == 0 and (not quick or state['case'] % 2 == 0):
            try:
                X = x.DFT()
                Xv = [FpEval(Lc, {}).ev(v.sympy) for v in X.vals]
                xr = X.IDFT()
                rv = [Lc.tofrac(v.sympy) for v in xr.vals]
            except Exception as ex:   # noqa
                chk.count('seqorg.lcapy-error', 'dft:' + type(ex).__name__)
                return
            chk.count('seqorg.dft', 'done')
            for k in range(N):
                q = zeta(N, -k)
                mv, sv = [int(v) for v in drv.ask1('seq.dft %d %d %s' % (q, n0, ','.join(str(fp_of_frac(v)) for v in vals))).split()]
                chk.coverage['correspondence']['compared'] += 1
                if mv != Xv[k]:
                    disagree('seq.DFT', {'vals': lst(vals), 'n0': n0, 'k': k, 'lcapy_mod_P': Xv[k], 'model_mod_P': mv})
                if sv != Xv[k]:
                    cex({'kind': 'seq-dft', 'origin': org}, {'input': {'vals': lst(vals), 'n0': n0, 'k': k}, 'lcapy': str(X)[:300],
                                                           'lcapy_value_mod_P': Xv[k], 'spec_value_mod_P': sv,
                                                           'spec': 'X[k] = sum over the sequence indices of x[n] exp(-2 pi i n k / N)'},
                        'sequence DFT differs from the defining sum')
                    break
            want = [vals[(i - n0) % N] for i in range(N)]     # the N-periodic reading: index i mod N
            if rv != want:
                cex({'kind': 'seq-idft-dft', 'origin': org}, {'input': {'vals': lst(vals), 'n0': n0}, 'lcapy': lst(rv),
                                                            'spec': 'IDFT(DFT(x))[i] = x[i mod N]: ' + lst(want)},
                    'sequence IDFT(DFT(x)) does not return the sequence')


    # ------------------------------------------------------------------ directed DTFT families with finite support (generic oracle: the
    # input expression is evaluated on its support in F_P, Lean forms the bilateral defining sum `dtft.sumlit`)
    def dtft_generic_case(e, lo, hi, fam):
        newcase()
        key = ('dtftgen', str(e))
        chk.count('dtft.directed', fam)
        before = bcov.snapshot()
        try:
            Xs = Lc.lcapy.nexpr(e).DTFT(Lc.lcapy.Omega).sympy
        except Exception as ex:   # noqa
            chk.count('dtft.lcapy-error', fam + ':' + type(ex).__name__)
            chk.case(key, False)
            return
        for (lab, fn, line) in bcov.new_since(before):
            if lab == 'dtft.py':
                chk.count('dtft.directed-new-branches', fam)
        Osyms = [s_ for s_ in Xs.free_symbols if s_.name == 'Omega']
        if Xs.has(S.Sum) or Xs.has(S.DiracDelta) or (Xs.free_symbols - set(Osyms)):
            chk.count('degenerate', 'dtft-no-plain-closed-form')
            chk.case(key, False)
            return
        try:
            xv = [FpEval(Lc, {Lc.n: S.Integer(i)}).ev(e) for i in range(lo, hi + 1)]
            outside = [FpEval(Lc, {Lc.n: S.Integer(i)}).ev(e) for i in (lo - 2, lo - 1, hi + 1, hi + 2)]
        except (Unsupported, ZeroDivisionError) as ex:
            chk.count('degenerate', 'dtft-input-unevaluable:' + str(ex)[:30])
            chk.case(key, False)
            return
        if any(outside):
            raise common.Infra('directed DTFT family %s: the declared window does not contain the support' % fam)
        chk.case(key, True)
        chk.sample({'stream': 'dtft-directed', 'family': fam, 'expr': str(e)[:120], 'lcapy': str(Xs)[:200]})
        for r in ANG:
            env = {s_: S.pi * Lc.rat(r) for s_ in Osyms}
            try:
                lv = ev_fp(Xs, env)
            except ZeroDivisionError:
                chk.count('degenerate', 'dtft-pole-hit')
                continue
            except Unsupported as ex:
                chk.count('degenerate', 'dtft-unevaluable:' + str(ex)[:30])
                return
            E = zeta(2 * r.denominator, -r.numerator)
            sv = int(drv.ask1('dtft.sumlit %d %d %s' % (lo, E, ','.join(str(v) for v in xv))))
            if lv != sv:
                cex({'kind': 'dtft', 'finite_support': True, 'sine_with_phase': False, 'family': fam},
                    {'input': {'expr': str(e), 'Omega': 'pi*%s' % fstr(r), 'window': [lo, hi]}, 'lcapy': str(Xs),
                     'lcapy_value_mod_P': lv, 'spec_value_mod_P': sv, 'P': FP,
                     'spec': 'X(Omega) = sum_n x[n] exp(-j Omega n) over the support; x[n] from the input expression, sum by Lean (dtft.sumlit)'},
                    'DTFT differs from the defining sum on the unit circle')
                return

    stream('dtftdir')
    if gen and cur[0]:
        n_ = Lc.n
        dtrect_ = Lc.lcapy.extrafunctions.dtrect
        wins = [(0, 5), (2, 3), (-1, 4), (3, 7), (0, 1), (-2, 6)]
        for (c, b) in (wins if not quick else rng.sample(wins, 3)):
            l_ = c - b // 2
            guarded(dtft_generic_case, Lc.rat(rnd_frac(rng)) * dtrect_((n_ - c) / S.Integer(b)), l_, l_ + b - 1, 'dtrect window N %s' % ('odd' if b % 2 else 'even'))
        for i in range(3 if quick else 12):
            # products handled through the impulse / n / exp(j a n) rules
            d = rng.randint(-3, 4)
            r = rng.choice(DANG)
            e = Lc.rat(rnd_frac(rng)) * S.exp(S.I * S.pi * Lc.rat(r) * n_ + S.I * S.pi / 3) * (n_ if i % 2 else 1) * Lc.UI(n_ - d)
            guarded(dtft_generic_case, e, d, d, 'exp(j a n) * impulse')

    stream('seqorg')
    for i in (range(32 if quick else 120) if (gen and cur[0]) else []):
        vals = [rnd_frac(rng, -4, 4, 2, nonzero=(j == 0)) for j in range(rng.randint(1, 5))]
        guarded(seqorg_case, vals, [0, 0, 1, 2, 3, -1, -2, rng.randint(-4, 4)][i % 8])

    # ------------------------------------------------------------------ DTFT rule cascade (model of DTFTTransformer.term), incl. combs

    def eip(r):                                   # image of exp(i pi r)
        return zeta(2 * r.denominator, r.numerator)

    def d2_tokens(t):
        (coef, pw, a, gate, d, trig, rb, rc) = t
        head = '%s %d %s %s %d ' % (fstr(coef), pw, fstr(a), gate, d)
        if trig is None:
            return head + 'none'
        if trig == 'cos':
            return head + 'cos %d %d' % (eip(rb), eip(rc))
        return head + 'sin %d %d %d' % (eip(rb), eip(rc), zeta(4, 1))

    def comb_of(Xs, Om):
        """Dirac-comb part of Lcapy's DTFT: {location theta/pi (mod 2): weight/(2 pi) in F_P}, and the regular rest"""
        combs, reg = {}, S.Integer(0)
        for term in S.Add.make_args(S.expand(Xs)):
            sums = [a_ for a_ in term.atoms(S.Sum) if a_.has(S.DiracDelta)]
            if not sums:
                if term.has(S.DiracDelta):
                    raise Unsupported('bare DiracDelta')
                reg = reg + term
                continue
            if len(sums) != 1:
                raise Unsupported('product of combs')
            sm = sums[0]
            dd = sm.args[0]
            if dd.func != S.DiracDelta or len(dd.args) != 1:
                raise Unsupported('derivative of a comb')
            m = sm.args[1][0]
            arg = S.expand(dd.args[0])
            a1 = arg.coeff(Om, 1)
            rest = S.expand(arg - a1 * Om).subs(m, 0)
            if a1 not in (1, -1):
                raise Unsupported('comb argument')
            theta = Lc.tofrac(S.nsimplify(-rest / a1 / S.pi))          # location / pi, exact rational
            wgt = S.simplify(term / sm / (2 * S.pi))
            loc = theta % 2
            combs[loc] = (combs.get(loc, 0) + FpEval(Lc, {}).ev(wgt)) % FP
        return combs, reg

    def dtft2_case(terms):
        newcase()
        toks = ' ; '.join(d2_tokens(t) for t in terms)
        key = ('dtft2', toks)
        finite = all(t[3] == 'imp' for t in terms)
        fam = '+'.join(sorted(set(t[3] + ('-adv' if t[4] < 0 else '') + ('*' + t[5] if t[5] else '') + ('*n^%d' % t[1] if t[1] else '') +
                                  ('*a^n' if t[2] != 1 else '') for t in terms)))
        chk.count('dtft2.family', fam)
        e = sum((dt_expr(t) for t in terms), S.Integer(0))
        try:
            X = Lc.lcapy.nexpr(e).DTFT(Lc.lcapy.Omega)
            Xs = X.sympy
        except Exception as ex:   # noqa
            chk.count('dtft2.lcapy-error', type(ex).__name__)
            chk.case(key, False)
            return
        Osyms = [s_ for s_ in Xs.free_symbols if s_.name == 'Omega']
        try:
            if Xs.has(S.Sum) and not Xs.has(S.DiracDelta):
                raise Unsupported('unevaluated sum')
            combs, reg = comb_of(Xs, Osyms[0]) if Xs.has(S.DiracDelta) else ({}, Xs)
            if reg.free_symbols - set(Osyms):
                raise Unsupported('free symbols')
        except Exception as ex:   # noqa
            chk.count('degenerate', 'dtft2-unparsed:' + str(ex)[:24])
            chk.case(key, False)
            return
        chk.case(key, True)
        chk.sample({'stream': 'dtft2', 'terms': toks, 'expr': str(e)[:140], 'lcapy': str(Xs)[:200]})
        if combs:
            chk.count('dtft2.comb', 'present')
        first = True
        for r in rng.sample(ANG, 2 if quick else 4):
            env = {s_: S.pi * Lc.rat(r) for s_ in Osyms}
            try:
                lv = ev_fp(reg, env)
            except ZeroDivisionError:
                chk.count('degenerate', 'dtft-pole-hit')
                continue
            except Unsupported as ex:
                chk.count('degenerate', 'dtft2-unevaluable:' + str(ex)[:30])
                return
            E = zeta(2 * r.denominator, -r.numerator)            # e^{-j Omega}
            rep_ = drv.ask1('dtft2.model %d | %s' % (E, toks)).split()
            if rep_[0] == 'undef':
                chk.count('degenerate', 'dtft-pole-hit')
                continue
            chk.coverage['correspondence']['compared'] += 1
            if int(rep_[0]) != lv:
                disagree('dtft2', {'terms': toks, 'expr': str(e), 'Omega': 'pi*%s' % fstr(r), 'lcapy_mod_P': lv, 'model_mod_P': int(rep_[0])})
            if first:
                first = False
                mc = {}
                if rep_[1] != '-':
                    for pr in rep_[1].split(','):
                        loc_, w_ = [int(v) for v in pr.split(':')]
                        mc[loc_] = (mc.get(loc_, 0) + w_) % FP
                lc_ = {}
                for loc, w_ in combs.items():
                    kk_ = eip(loc)
                    lc_[kk_] = (lc_.get(kk_, 0) + w_) % FP
                mc = {k_: v for k_, v in mc.items() if v}
                lc_ = {k_: v for k_, v in lc_.items() if v}
                chk.coverage['correspondence']['compared'] += 1
                if mc != lc_:
                    disagree('dtft2.comb', {'terms': toks, 'expr': str(e), 'lcapy': str(Xs)[:300], 'lcapy_combs': lc_, 'model_combs': mc})
            summable = all(t[3] == 'step' and abs(t[2]) < 1 for t in terms)
            if finite or summable:
                if finite:
                    lo = min(t[4] for t in terms)
                    ln = max(t[4] for t in terms) - lo + 1
                    sv = int(drv.ask1('dtft2.spec %d %d %d | %s' % (lo, ln, E, toks)))
                else:
                    sv = int(rep_[0])     # |a| < 1: the model's closed form IS the sum (dtft_rule_cascade_sound + the analytic anchor)
                if lv != sv:
                    cex({'kind': 'dtft', 'finite_support': finite, 'sine_with_phase': any(t[5] == 'sin' and t[7] != 0 for t in terms)},
                        {'input': {'expr': str(e), 'terms': toks, 'Omega': 'pi*%s' % fstr(r)}, 'lcapy': str(Xs),
                         'lcapy_value_mod_P': lv, 'spec_value_mod_P': sv, 'P': FP,
                         'spec': ('X(Omega) = sum_n x[n] exp(-j Omega n) over the finite support (dtftSum), in F_P' if finite else
                                  'X(Omega) = the geometric-series closed form of the absolutely summable sequence (|a| < 1), in F_P')},
                        'DTFT differs from the defining sum on the unit circle')
                    return

    stream('dtft2')
    for i in (range(48 if quick else 360) if (gen and cur[0]) else []):
        nt = 1 if i % 3 else 2
        terms = []
        for _ in range(nt):
            trig = rng.choice([None, None, 'sin', 'cos'])
            rb, rc = rng.choice(DANG), rng.choice([Fraction(0), Fraction(1, 4), Fraction(1, 6), Fraction(1, 3), Fraction(-1, 3)])
            mode = i % 6
            if mode in (0, 1):     # finite support, delays and advances
                terms.append((rnd_frac(rng), rng.choice([0, 0, 1, 2]) if trig is None else 0, Fraction(1), 'imp', rng.randint(-4, 5), trig, rb, rc))
            elif mode in (2, 3):   # geometric, |a| < 1, delayed or advanced step
                a = Fraction(rng.choice([1, -1, 2, -2]), rng.choice([3, 4, 5]))
                pw = rng.choice([0, 0, 1, 2])
                if trig is not None:
                    # n^p a^n sin(b n + c) u[n]: SymPy's simplification of the p-th derivative takes minutes (counted as case-timeout)
                    pw = 0 if (quick or rng.random() < 0.9) else min(pw, 1)
                terms.append((rnd_frac(rng), pw, a, 'step', rng.randint(-2, 3), trig, rb, rc))
            else:                  # not summable: plain / modulated steps -> Dirac combs (formal pairs)
                terms.append((rnd_frac(rng), 0, Fraction(1), 'step', rng.randint(-2, 3), trig, rb, rc))
        guarded(dtft2_case, terms)

    # ------------------------------------------------------------------ discretize (sexpr.py): substitutions s = f(z)
    from lcapy.sym import dt as dtsym, ssym

    def disc_case(num, den, method, alpha):
        newcase()
        key = ('disc', lst(num), lst(den), method, fstr(alpha))
        chk.count('disc.method', method)
        Hs = sum(Lc.rat(c) * ssym ** i for i, c in enumerate(num)) / sum(Lc.rat(c) * ssym ** i for i, c in enumerate(den))
        H = Lc.lcapy.sexpr(Hs)
        try:
            if method == 'gbf':
                Hz = H.discretize('gbf', alpha=Lc.rat(alpha))
            else:
                Hz = H.discretize(method)
            Hz = Hz.sympy
        except Exception as ex:   # noqa
            chk.count('disc.lcapy-error', type(ex).__name__)
            chk.case(key, False)
            return
        chk.case(key, True)
        chk.sample({'stream': 'disc', 'H': str(Hs), 'method': method, 'lcapy': str(Hz)[:160]})
        kind = 'simpson' if method == 'simpson' else 'gbt'
        al = {'bilinear': Fraction(1, 2), 'tustin': Fraction(1, 2), 'trapezoidal': Fraction(1, 2), 'euler': Fraction(0), 'forward-euler': Fraction(0),
              'forward-diff': Fraction(0), 'backward-euler': Fraction(1), 'backward-diff': Fraction(1), 'gbf': alpha, 'simpson': Fraction(0)}[method]
        for _ in range(2):
            d0, z0 = rnd_frac(rng, 1, 9, 7), rnd_frac(rng, -9, 9, 7)
            mv = drv.ask1('disc.model %s %s %s %s %s %s' % (kind, fstr(al), fstr(d0), fstr(z0), lst(num), lst(den))).split()[0]
            try:
                lv = Lc.tofrac(S.cancel(Hz.subs({dtsym: Lc.rat(d0), Lc.z: Lc.rat(z0)})))
            except Exception:   # noqa
                lv = None
            if mv == 'undef' or lv is None or lv.denominator == 0:
                chk.count('degenerate', 'disc-pole-hit')
                continue
            # the code scales simpson results of an undefined-quantity expression by Delta_t (generalized bilinear: by 1)
            want = Fraction(mv) * (d0 if kind == 'simpson' else 1)
            chk.coverage['correspondence']['compared'] += 1
            if want != lv:
                disagree('discretize', {'H': str(Hs), 'method': method, 'dt': fstr(d0), 'z': fstr(z0), 'lcapy': fstr(lv), 'model': fstr(want)})
            # oracle: H at the documented map s(z) (evaluated directly, not through the coefficient-level substitution of the model)
            sv = drv.ask1('disc.spec %s %s %s %s %s %s' % (kind, fstr(al), fstr(d0), fstr(z0), lst(num), lst(den)))
            if sv != 'undef' and Fraction(sv) * (d0 if kind == 'simpson' else 1) != lv:
                cex({'kind': 'discretize', 'method': method},
                    {'input': {'H': str(Hs), 'num': lst(num), 'den': lst(den), 'method': method, 'alpha': fstr(al), 'dt': fstr(d0), 'z': fstr(z0)},
                     'lcapy': {'Hz': str(Hz), 'value': fstr(lv)},
                     'spec': 'H(s) at the documented map s(z) for this method (times Delta_t for simpson of an undefined-quantity expression): %s' % sv},
                    'discretize does not substitute the documented map')
                return

    def ii_case(r, pint, method):
        """H(s) = r / (s - p), p an integer: impulse invariance / matched-Z give  Delta r / (1 - e^{p Delta} / z)"""
        newcase()
        key = ('ii', fstr(r), pint, method)
        chk.count('disc.method', method)
        H = Lc.lcapy.sexpr(Lc.rat(r) / (ssym - pint))
        try:
            Hz = H.discretize(method).sympy
        except Exception as ex:   # noqa
            chk.count('disc.lcapy-error', type(ex).__name__)
            chk.case(key, False)
            return
        if Hz.has(S.Sum):
            chk.count('degenerate', 'disc-no-closed-form')
            chk.case(key, False)
            return
        chk.case(key, True)
        E0, d0, z0 = rnd_frac(rng, 1, 5, 4), rnd_frac(rng, 1, 9, 7), rnd_frac(rng, -9, 9, 7)
        try:
            lv = Lc.tofrac(S.cancel(S.expand(Hz).subs(S.exp(dtsym), Lc.rat(E0)).subs({dtsym: Lc.rat(d0), Lc.z: Lc.rat(z0)})))
        except Exception:   # noqa
            chk.count('degenerate', 'disc-unevaluable')
            return
        mv = drv.ask1('ii.model %s %s 4 | %s %s' % (fstr(d0), fstr(z0), fstr(r), fstr(E0 ** pint))).split()[0]
        if mv == 'undef':
            chk.count('degenerate', 'disc-pole-hit')
            return
        chk.coverage['correspondence']['compared'] += 1
        if Fraction(mv) != lv:
            disagree('discretize', {'H': str(H), 'method': method, 'lcapy': fstr(lv), 'model': mv, 'E': fstr(E0), 'dt': fstr(d0), 'z': fstr(z0)})


    # ------------------------------------------------------------------ IDTFT(DTFT(x)) = x, all frequency variables
    def idtft_case(e, domain, lo, hi, fam, shifted):
        newcase()
        key = ('idtft', str(e), domain)
        chk.count('idtft.family', fam + ' [' + domain + ']')
        var = {'f': Lc.lcapy.f, 'Omega': Lc.lcapy.Omega, 'F': Lc.lcapy.F}[domain]
        try:
            X = Lc.lcapy.nexpr(e).DTFT(var)
            xs = X.IDTFT().sympy
        except Exception as ex:   # noqa
            chk.count('idtft.lcapy-error', type(ex).__name__)
            chk.case(key, False)
            return
        if xs.has(S.Integral) or (xs.has(S.Sum) and not xs.has(S.DiracDelta)):
            chk.count('degenerate', 'idtft-no-closed-form')
            chk.case(key, False)
            return
        try:
            want = [FpEval(Lc, {Lc.n: S.Integer(i)}).ev(e) for i in range(lo, hi + 1)]
            if xs.has(S.DiracDelta):
                # a sequence cannot contain a Dirac delta of the frequency variable: the inversion did not happen
                got = 'not a sequence: contains DiracDelta'
            else:
                got = [FpEval(Lc, {}).ev(S.simplify(xs.subs(Lc.n, i))) for i in range(lo, hi + 1)]
        except (Unsupported, ZeroDivisionError) as ex:
            if xs.free_symbols - {Lc.n}:
                got = 'not a sequence: free symbols %s' % sorted(str(v) for v in xs.free_symbols - {Lc.n})
            else:
                chk.count('degenerate', 'idtft-unevaluable:' + str(ex)[:30])
                chk.case(key, False)
                return
        chk.case(key, True)
        chk.sample({'stream': 'idtft', 'expr': str(e)[:120], 'domain': domain, 'lcapy_dtft': str(X)[:120], 'lcapy_idtft': str(xs)[:160]})
        if got != want:
            cex({'kind': 'idtft-dtft', 'domain': domain, 'shifted_comb': shifted},
                {'input': {'expr': str(e), 'domain': domain, 'n': [lo, hi]}, 'lcapy': {'dtft': str(X), 'idtft': str(xs)},
                 'lcapy_values_mod_P': got, 'spec_values_mod_P': want, 'spec': 'IDTFT(DTFT(x))[n] = x[n] for every n in the window'},
                'inverse DTFT of the DTFT does not recover the sequence')

    stream('idtft')
    if gen and cur[0]:
        n_ = Lc.n
        doms = ['f', 'Omega', 'F']
        for i in range(9 if quick else 60):
            dom = doms[i % 3]
            kind = (i // 3) % 3                      # every (frequency variable, family) pair
            if kind == 0:       # finite support: weighted, delayed and advanced impulses
                e = sum((Lc.rat(rnd_frac(rng)) * Lc.UI(n_ - d) for d in rng.sample(range(-3, 5), rng.randint(1, 3))), S.Integer(0))
                guarded(idtft_case, e, dom, -4, 6, 'impulses', False)
            elif kind == 1:     # constants and complex exponentials / sinusoids: Dirac combs, shifted by the frequency
                r, sft = rng.choice(DANG), rng.choice([Fraction(0), Fraction(1, 4), Fraction(1, 3)])
                f_ = rng.choice([S.cos, S.sin])
                e = Lc.rat(rnd_frac(rng)) * f_(S.pi * Lc.rat(r) * n_ + S.pi * Lc.rat(sft))
                if rng.random() < 0.4:
                    e = e + Lc.rat(rnd_frac(rng))
                guarded(idtft_case, e, dom, -3, 5, 'sinusoid', True)
            else:
                r = rng.choice(DANG)
                e = Lc.rat(rnd_frac(rng)) * S.exp(S.I * S.pi * Lc.rat(r) * n_) if rng.random() < 0.6 else S.Integer(rng.randint(1, 4))
                guarded(idtft_case, e, dom, -3, 5, 'complex exponential' if e.has(n_) else 'constant', bool(e.has(n_)))


    # ------------------------------------------------------------------ undefined functions x(n), X(k), X(f): products and shifts
    def undef_case(which):
        newcase()
        key = ('undef', which)
        chk.count('undef.family', which)
        x_, y_ = S.Function('x'), S.Function('y')
        X_, Y_ = S.Function('X'), S.Function('Y')
        if which in ('IDFT X*Y', 'DFT x*y'):
            N = rng.choice([3, 4, 5])
            xs = [rnd_frac(rng, -3, 3, 2, nonzero=False) for _ in range(N)]
            ys = [rnd_frac(rng, -3, 3, 2, nonzero=False) for _ in range(N)]
            w = zeta(N, -1)
            fx, fy = [fp_of_frac(v) for v in xs], [fp_of_frac(v) for v in ys]
            sumlit = lambda q, vs: int(drv.ask1('dft.sumlit %d %s' % (q, ','.join(str(v) for v in vs))))   # noqa
            Xv = [sumlit(pow(w, k_, FP), fx) for k_ in range(N)]
            Yv = [sumlit(pow(w, k_, FP), fy) for k_ in range(N)]
            try:
                if which == 'IDFT X*Y':
                    res = Lc.lcapy.kexpr('X(k)*Y(k)').IDFT(N=N).sympy
                    var, fa, fb, va, vb = Lc.n, x_, y_, xs, ys
                else:
                    res = Lc.lcapy.nexpr('x(n)*y(n)').DFT(N=N).sympy
                    var, fa, fb = Lc.k, X_, Y_
                got = []
                for i in range(N):
                    e_i = res.subs(var, i).doit()
                    if which == 'IDFT X*Y':
                        e_i = e_i.replace(fa, lambda a_: Lc.rat(va[int(a_) % N])).replace(fb, lambda a_: Lc.rat(vb[int(a_) % N]))
                        got.append(fp_of_frac(Lc.tofrac(e_i)))
                    else:
                        # X(j), Y(j) -> their F_P values through fresh symbols
                        syms = {}
                        def sub_(fn, vals_):    # noqa
                            def f_(a_):
                                nm = S.Symbol('%s_%d' % (fn, int(a_) % N))
                                syms[nm] = vals_[int(a_) % N]
                                return nm
                            return f_
                        e_i = e_i.replace(fa, sub_('X', Xv)).replace(fb, sub_('Y', Yv))
                        got.append(FpEval(Lc, {}, fpenv=syms).ev(e_i))
            except Exception as ex:   # noqa
                chk.count('undef.lcapy-error', which + ':' + type(ex).__name__)
                chk.case(key, False)
                return
            chk.case(key, True)
            invN = pow(N, FP - 2, FP)
            if which == 'IDFT X*Y':
                P = [Xv[k_] * Yv[k_] % FP for k_ in range(N)]
                want = [sumlit(pow(w, (-i) % N, FP), P) * invN % FP for i in range(N)]      # (1/N) sum_k X[k] Y[k] w^{-kn}
            else:
                want = [sumlit(pow(w, k_, FP), [a_ * b_ % FP for a_, b_ in zip(fx, fy)]) for k_ in range(N)]
            if got != want:
                cex({'kind': 'idft' if which == 'IDFT X*Y' else 'dft', 'undefined_functions': True},
                    {'input': {'expr': which, 'N': N, 'x': lst(xs), 'y': lst(ys)}, 'lcapy': str(res), 'lcapy_values_mod_P': got, 'spec_values_mod_P': want,
                     'spec': 'the formula, with x, y (X, Y = their DFT sums) substituted, is the %s of the product (defining sums by Lean, F_P)' % which.split()[0]},
                    'transform of a product of undefined functions is not the (scaled) circular convolution')
            return
        from lcapy.sym import dt as dts, fsym
        sh = rng.randint(1, 4)
        try:
            if which == 'IDTFT X(f - f0)':
                res = Lc.lcapy.fexpr('X(f - %d)' % sh).IDTFT().sympy
                want = x_(Lc.n) * S.exp(2 * S.I * S.pi * sh * Lc.n * dts)                   # modulation: X(f - f0) <-> x[n] e^{j 2 pi f0 n dt}
                bad = res.has(fsym) or S.simplify(res - want) != 0
            else:
                res = Lc.lcapy.nexpr('x(n - %d)' % sh).DTFT(images=0).sympy
                want = X_(fsym) * S.exp(-2 * S.I * S.pi * fsym * dts * sh)                # delay: x[n - m] <-> X(f) e^{-j 2 pi f m dt}
                bad = S.simplify(res - want) != 0
        except Exception as ex:   # noqa
            chk.count('undef.lcapy-error', which + ':' + type(ex).__name__)
            chk.case(key, False)
            return
        chk.case(key, True)
        if bad:
            cex({'kind': 'idtft' if which.startswith('IDTFT') else 'dtft', 'undefined_functions': True},
                {'input': {'expr': which, 'shift': sh}, 'lcapy': str(res), 'spec': 'shift / modulation theorem (dtft_shift, dtft_modulate): ' + str(want)},
                'transform of a shifted undefined function does not follow the shift theorem')

    stream('undef')
    if gen and cur[0]:
        for which in ['IDFT X*Y', 'DFT x*y', 'IDTFT X(f - f0)', 'DTFT x(n - m)'] * (1 if quick else 3):
            guarded(undef_case, which)

    stream('disc')
    METHODS = ['bilinear', 'forward-euler', 'backward-euler', 'gbf', 'simpson', 'tustin', 'euler', 'backward-diff']
    for i in (range(24 if quick else 160) if (gen and cur[0]) else []):
        nn, nd = rng.randint(1, 3), rng.randint(2, 4)
        num = [rnd_frac(rng, -4, 4, 3, nonzero=(j == 0)) for j in range(nn)]
        den = [rnd_frac(rng, -4, 4, 3, nonzero=(j == nd - 1)) for j in range(nd)]
        guarded(disc_case, num, den, METHODS[i % len(METHODS)], Fraction(rng.randint(0, 4), 4))
    for i in (range(6 if quick else 40) if (gen and cur[0]) else []):
        guarded(ii_case, rnd_frac(rng), rng.choice([-3, -2, -1, 1, 2]), ['impulse-invariance', 'matched-Z'][i % 2])

    stream('end')
    bcov.stop()
    chk.coverage['stream_seconds'] = stream_t
    chk.coverage['slowest_cases'] = sorted(slow, reverse=True)[:12]
    chk.coverage['stream_seconds_detail'] = {k_: round(v_, 1) for k_, v_ in sub_t.items()}
    bt = bcov.table()
    bt['unreached'] = [u_ + (' -- not selectable: make_transform hard-wires simp_method = 1' if ' simp_rat ' in u_ else '') for u_ in bt['unreached']]
    # keep the evidence compact: per-file summary, the unreached list, and the full rows of the DFT/DTFT case analyses
    chk.coverage['branch_coverage'] = {'instrument': bt['instrument'], 'active': bt['active'], 'summary': bt['summary'],
                                       'unreached': bt['unreached'],
                                       'rows': {k: [[r['fn'], r['line'], r['kind'], r['hits']] for r in v] for k, v in bt['files'].items()
                                                if k in ('dft.py', 'dtft.py')}}

    # ------------------------------------------------------------------ replay of one recorded case
    if replay is not None:
        import json
        rp = json.load(open(replay if os.path.exists(replay) else os.path.join(common.VERIF, replay)))
        kind, inp = (rp.get('key') or {}).get('kind'), rp.get('input') or {}
        if kind in ('zt', 'izt-zt'):
            zt_case(parse_sig(inp['terms']), 'replay')
        elif kind in ('izt', 'dlti_filter', 'difference_equation'):
            bb, aa = flist(inp['b']), flist(inp['a'])
            zf = None
            if inp.get('zform'):
                zf = (Fraction(inp['zform'][0]), int(inp['zform'][1]), Fraction(inp['zform'][2]), int(inp['zform'][3]))
            izt_case(bb, aa, [], zform=zf, pairs=inp.get('pairs'), cpm=int(inp.get('cpm') or 0))
        elif kind == 'response':
            xt = inp['x'].split()
            xs = ('lit', int(xt[1]), flist(xt[2])) if xt[0] == 'lit' else ('sig', parse_sig(inp['x'][4:]))
            resp_case(flist(inp['b']), flist(inp['a']), flist(inp['ic']), xs, inp['ni'][1])
        elif kind == 'initial_response':
            ini_case(flist(inp['b']), flist(inp['a']), flist(inp['ic']), flist(inp['xic']))
        elif kind == 'convolve':
            conv_case(flist(inp['x']), inp['x0'], flist(inp['h']), inp['h0'])
        elif kind == 'lfilter':
            lfilter_case(flist(inp['b']), flist(inp['a']), flist(inp['x']))
        elif kind in ('seq-zt', 'seq-izt-zt', 'seq-dft', 'seq-idft-dft'):
            seqorg_case(flist(inp['vals']), int(inp['n0']))
        elif kind == 'discretize':
            disc_case(flist(inp['num']), flist(inp['den']), inp['method'], Fraction(inp['alpha']))
        elif kind in ('dft', 'idft-dft', 'idft', 'idtft-dtft') and 'terms' not in inp or (kind == 'zt' and 'terms' not in inp):
            loc = {'n': Lc.n, 'k': Lc.k, 'N': Nsym, 'I': S.I, 'UnitImpulse': Lc.UI, 'UnitStep': Lc.US,
                   'dtrect': Lc.lcapy.extrafunctions.dtrect}
            if kind == 'zt':
                ztsum_case(S.sympify(inp['expr'], locals=loc), 'replay')
            elif kind == 'idft':
                idft_generic_case(S.sympify(inp['X'], locals=loc), int(inp['N']), 'replay')
            elif kind == 'idtft-dtft':
                idtft_case(S.sympify(inp['expr'], locals=loc), inp['domain'], int(inp['n'][0]), int(inp['n'][1]), 'replay',
                           bool((rp.get('key') or {}).get('shifted_comb')))
            else:
                kk_ = rp.get('key') or {}
                dft_generic_case(S.sympify(inp['expr'], locals=loc), int(inp['N']), bool(inp.get('symbolic_N')), inp.get('family', 'replay'),
                                 flags={f_: kk_[f_] for f_ in ('geo_base_is_root_of_unity', 'impulse_index_wrapped', 'ramp_step_delay_ge2') if f_ in kk_},
                                 piecewise=bool(inp.get('piecewise')))
        elif kind in ('dft', 'idft-dft') and 'exp*' not in inp.get('terms', '') and all(len(t.split()) < 9 for t in inp['terms'].split(';')):
            ts = parse_sig(inp['terms'])
            dft_case(ts, inp['N'], bool(inp.get('symbolic_N')), [None] * len(ts))
        else:
            raise common.Infra('cannot replay this record (kind %s)' % kind)

    # ------------------------------------------------------------------ classification
    # a disagreement is explained only by a counterexample found on the very same case
    unexplained = [d for d in disagreements if d['case'] not in state['cex_cases']]
    chk.coverage['correspondence']['samples_of_disagreement'] = disagreements[:5]
    chk.coverage['correspondence']['disagreements_explained_by_counterexample_on_same_case'] = len(disagreements) - len(unexplained)
    chk.coverage['correspondence']['disagreements_unexplained'] = len(unexplained)
    if broken and state['cex'] == 0:
        for bname in broken[:20]:
            chk.unexplained('broken-obligation', bname, chk.coverage.get('build_log_tail', '')[-600:])
    elif broken:
        chk.coverage['broken_obligations_explained_by_counterexamples'] = True
    seen_kinds = set()
    for d in unexplained:
        if d['what'] not in seen_kinds:
            seen_kinds.add(d['what'])
            chk.unexplained('broken-correspondence', d['what'], d)


def de_coeffs(Lc, de, na, nb):
    """coefficients (a, b) of the printed equation  lhs = rhs  in y(n-k), x(n-l)"""
    S, n = Lc.S, Lc.n
    e = de.sympy if hasattr(de, 'sympy') else de
    diff = S.expand(e.lhs - e.rhs)
    y, x = S.Function('y'), S.Function('x')
    a = [Lc.tofrac(diff.coeff(y(n - k) if k else y(n))) for k in range(na)]
    b = [Lc.tofrac(-diff.coeff(x(n - l) if l else x(n))) for l in range(nb)]
    rest = diff - sum(Lc.rat(a[k]) * y(n - k) for k in range(na)) + sum(Lc.rat(b[l]) * x(n - l) for l in range(nb))
    if S.expand(rest) != 0:
        raise ValueError('unparsed terms in difference equation: %s' % rest)
    return a, b


if __name__ == '__main__':
    common.main_wrapper('C13', run)
