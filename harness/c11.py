"""C11 -- re-formatting a rational expression never changes its value.

1. tx_ratfun regenerates lean/Lcapy/Generated/RatfunSrc.lean from /repo/lcapy/ratfun.py (the sign with
   which every builder re-attaches the delay factor; the names tested by isinstance in _zp2tf/_tc2tf) and
   lean/Lcapy/Generated/RatfunFmtSrc.lean from lcapy/expr.py, utils.py, ratfun.py (which coefficient normalises
   `normcoeffs` / `ba`, which polynomial each degree is taken of, the comparison in `is_strictly_proper`, what each side
   of divide/multiply_top_and_bottom is combined with, the conjugate / real / imag parts of rationalize_denominator,
   the two substitutions of recippartfrac, the start index / slice / operator of the simplify loops, the divisor of
   as_N_D(monic_denominator), the enumeration order of expandcanonical, the merge operator of poles()).
2. lake build Lcapy.Props.C11 Lcapy.Props.C11b Lcapy.Props.NonVacuityC11 re-checks every theorem against the regenerated
   constants and re-applies every theorem to a concrete witness (value theorems over the reals with Real.exp); axioms audit.
3. Correspondence: the real Lcapy and the Lean model (native driver, exact checked Gaussian rationals)
   format the same generated rational functions; results are compared by exact evaluation at random
   rational points (exp(-T0*var) is an independent indeterminate w, the undefined function an opaque
   value u), and structurally where the code returns data (Q, M of as_QMA; continued-fraction
   coefficients; delay; degrees).
4. Oracle (independent of the model's answer): the Lean SPEC value  B/A * w^(T/T0) * u^nu  must equal the
   value of EVERY format Lcapy offers; poles/zeros are judged by the Lean `rootsCheck`, residues by
   `pfCheck`, N/D by the spec value; coefficient lists by `evalHigh` (the list re-assembles to the polynomial,
   normalised lists start with 1), `ba` by b(x)/a(x) = value, degrees by the Lean degree of Lcapy's own B and A, the
   reciprocal partial fractions by `pfCheck` on the function of 1/var.
"""
import os
import signal
import sys
import time
import warnings
from fractions import Fraction

sys.path.insert(0, os.path.dirname(os.path.abspath(__file__)))
import common
from common import fstr
from translate import tx_ratfun

if common.REPO != '/repo':          # private copy of the code under test (mutation runs)
    sys.path.insert(0, common.REPO)

warnings.filterwarnings('ignore')

T0 = Fraction(1, 2)        # base delay: every generated delay is an integer multiple


class Timeout(Exception):
    pass


def _alarm(*a):
    signal.alarm(1)        # keep firing until we are out of whatever swallowed the exception
    raise Timeout()


class Unevaluable(Exception):
    pass


class L:
    """access to the real Lcapy + exact evaluation helpers"""

    def __init__(self):
        import sympy
        import lcapy
        from lcapy.sym import ssym, zsym, omegasym, fsym
        from sympy.core.function import AppliedUndef
        self.sym = sympy
        self.lcapy = lcapy
        self.VAR = {'s': ssym, 'z': zsym, 'jw': omegasym, 'jf': fsym}
        self.AppliedUndef = AppliedUndef
        self.W = sympy.Symbol('W__')
        self.Usym = sympy.Symbol('U__')
        signal.signal(signal.SIGALRM, _alarm)

    def timed(self, fn, limit):
        """(result, None) | (None, 'timeout') | (None, 'ExcName')"""
        try:
            signal.alarm(limit)
            try:
                r = fn()
            finally:
                signal.alarm(0)
            return r, None
        except Timeout:
            signal.alarm(0)
            return None, 'timeout'
        except RecursionError:
            signal.alarm(0)
            return None, 'RecursionError'
        except Exception as e:   # noqa
            signal.alarm(0)
            return None, type(e).__name__

    def srat(self, x):
        S = self.sym
        if isinstance(x, tuple):
            return S.Rational(x[0].numerator, x[0].denominator) + S.I * S.Rational(x[1].numerator, x[1].denominator)
        return S.Rational(x.numerator, x.denominator)

    def to_cq(self, val):
        """sympy number -> 'p/q' or 're,im'; raises Unevaluable"""
        S = self.sym
        val = S.sympify(val)
        if val.is_Rational:
            return fstr(Fraction(int(val.p), int(val.q)))
        if val.has(S.zoo, S.nan, S.oo, S.Symbol):
            raise Unevaluable('not finite / not a number: %s' % str(val)[:60])
        val = S.expand(val, complex=True)
        re, im = val.as_real_imag()
        for k in range(2):
            if re.is_Rational and im.is_Rational:
                break
            re, im = S.simplify(re), S.simplify(im)
        if not (re.is_Rational and im.is_Rational):
            re, im = S.nsimplify(S.radsimp(re)), S.nsimplify(S.radsimp(im))
            if not (re.is_Rational and im.is_Rational):
                raise Unevaluable('not a Gaussian rational: %s' % str(val)[:60])
        a = fstr(Fraction(int(re.p), int(re.q)))
        if im == 0:
            return a
        return a + ',' + fstr(Fraction(int(im.p), int(im.q)))

    def evalat(self, e, case, pt):
        """exact value of a sympy/lcapy expression at the sample point (x, w, u)"""
        S = self.sym
        v = self.VAR[case['domain']]
        e = e.sympy if hasattr(e, 'sympy') else S.sympify(e)
        if case.get('symvals'):
            e = e.subs({S.Symbol(n, positive=True): self.srat(Fraction(val)) for n, val in case['symvals'].items()})
        W = self.W

        def exprep(arg):
            k = S.cancel(-arg / (v * self.srat(T0)))
            if not k.is_Integer:
                raise Unevaluable('exp argument %s' % arg)
            return W ** k
        e = e.replace(S.exp, exprep)
        e = e.replace(lambda t: isinstance(t, self.AppliedUndef), lambda t: self.Usym)
        x, w, u = pt
        val = e.subs({v: self.srat(x), W: self.srat(w), self.Usym: self.srat(u)})
        return self.to_cq(val)


def cqs(x):
    """Fraction or (re, im) -> driver token"""
    if isinstance(x, tuple):
        return fstr(x[0]) if x[1] == 0 else fstr(x[0]) + ',' + fstr(x[1])
    return fstr(x)


def cmul(a, b):
    return (a[0] * b[0] - a[1] * b[1], a[0] * b[1] + a[1] * b[0])


def poly_from_roots(lc, roots):
    """coefficients (low first, Gaussian pairs) of lc * prod (x - r)^n"""
    p = [lc]
    for (r, n) in roots:
        for _ in range(n):
            q = [(Fraction(0), Fraction(0))] * (len(p) + 1)
            for i, c in enumerate(p):
                q[i + 1] = (q[i + 1][0] + c[0], q[i + 1][1] + c[1])
                m = cmul(c, (-r[0], -r[1]))
                q[i] = (q[i][0] + m[0], q[i][1] + m[1])
            p = q
    return p


def rand_rat(rng, lo=-5, hi=5, dens=(1, 1, 2, 3), nz=False):
    while True:
        x = Fraction(rng.randint(lo, hi), rng.choice(dens))
        if x != 0 or not nz:
            return x


def gen_roots(rng, deg, domain, allow_complex=True):
    """root table [(root, mult)] with total multiplicity deg; conjugate pairs keep coefficients rational in s/z"""
    roots = []
    left = deg
    while left > 0:
        kind = rng.choice(['real', 'real', 'zero', 'pair', 'repeat', 'gauss', 'pairrepeat'])
        if kind == 'zero':
            r, n = (Fraction(0), Fraction(0)), 1
        elif kind == 'repeat' and left >= 2:
            r, n = (rand_rat(rng), Fraction(0)), rng.randint(2, min(5, left))
        elif kind == 'pairrepeat' and left >= 3 and allow_complex:
            # a conjugate pair with repeated members: equal or UNEQUAL multiplicities, either member first
            a, b = rand_rat(rng, -2, 2), rand_rat(rng, 1, 2, (1,))
            opts = [(m1, m2) for m1 in (1, 2, 3) for m2 in (1, 2, 3) if m1 + m2 <= left and m1 + m2 >= 3]
            m1, m2 = rng.choice(opts)
            if rng.random() < 0.5:
                b = -b
            for rr_, nn in (((a, b), m1), ((a, -b), m2)):
                if domain in ('jw', 'jf'):
                    rr_ = cmul(rr_, (Fraction(0), Fraction(-1)))
                roots.append((rr_, nn))
            left -= m1 + m2
            continue
        elif kind == 'pair' and left >= 2 and allow_complex:
            a, b = rand_rat(rng, -3, 3), rand_rat(rng, 1, 3, (1, 2))
            for rr in ((a, b), (a, -b)):
                roots.append((rr, 1))
            left -= 2
            continue
        elif kind == 'gauss' and allow_complex and rng.random() < 0.3:
            r, n = (rand_rat(rng, -3, 3), rand_rat(rng, -3, 3, (1, 2), nz=True)), 1
        else:
            r, n = (rand_rat(rng), Fraction(0)), 1
        if domain in ('jw', 'jf'):
            r = cmul(r, (Fraction(0), Fraction(-1)))      # root of P(j v) is r/j
        # merge equal roots
        for i, (q, m) in enumerate(roots):
            if q == r:
                roots[i] = (q, m + n)
                break
        else:
            roots.append((r, n))
        left -= n
    return roots


def gen_case(rng, idx):
    domain = ['s', 's', 's', 'z', 'jw', 'jf'][idx % 6]
    kind = ['roots', 'coeffs', 'roots', 'symbolic', 'roots', 'shared'][(idx // 6) % 6]
    degA = rng.choice([0, 1, 1, 2, 2, 2, 3, 3, 4, 4, 5])
    degB = rng.choice([0, 0, 1, 1, 2, 2, 3, 4])
    if idx % 7 == 3 and kind != 'symbolic':
        kind = 'highmult'
    case = {'domain': domain, 'kind': kind, 'symvals': None}
    lcA = (rand_rat(rng, -4, 4, (1, 2), nz=True), Fraction(0))
    lcB = (rand_rat(rng, -6, 6, (1, 3), nz=True), Fraction(0))
    if domain in ('jw', 'jf') and rng.random() < 0.5:
        lcB = cmul(lcB, (Fraction(0), Fraction(1)))
    if kind == 'symbolic':
        # A = lcA (v + a)^n (v + b) [(v + 1)],  B = lcB (v + 2a) [(v + b)] : symbols sampled at rational values
        a, b = rand_rat(rng, 1, 5, (1, 2, 3), nz=True), rand_rat(rng, 1, 5, (1, 2), nz=True)
        while b == a or b == 2 * a:
            b = rand_rat(rng, 1, 7, (1, 2), nz=True)
        case['symvals'] = {'a': fstr(a), 'b': fstr(b)}
        na = rng.choice([1, 1, 2])
        case['Asym'] = {'lc': cqs(lcA), 'a': na, 'b': 1, 'one': rng.choice([0, 1])}
        case['Bsym'] = {'lc': cqs(lcB), 'a2': rng.choice([0, 1]), 'b': rng.choice([0, 0, 1]), 'v': rng.choice([0, 1])}
        rootsA = [((-a, Fraction(0)), na), ((-b, Fraction(0)), 1)] + ([((Fraction(-1), Fraction(0)), 1)] if case['Asym']['one'] else [])
        rootsB = ([((-2 * a, Fraction(0)), 1)] if case['Bsym']['a2'] else []) + ([((-b, Fraction(0)), 1)] if case['Bsym']['b'] else []) \
            + ([((Fraction(0), Fraction(0)), 1)] if case['Bsym']['v'] else [])
        # merge -1 with -a / -b if they coincide
        merged = []
        for (r, n) in rootsA:
            for i, (q, m) in enumerate(merged):
                if q == r:
                    merged[i] = (q, m + n)
                    break
            else:
                merged.append((r, n))
        rootsA = merged
        A = poly_from_roots(lcA, rootsA)
        B = poly_from_roots(lcB, rootsB)
    else:
        if kind == 'highmult':
            # one pole of multiplicity 4 or 5 (real or Gaussian), optionally one more simple pole; the numerator
            # has degree 3..4 and generic coefficients, so that every derivative term of the residues is non-zero
            r = (rand_rat(rng, -3, 3), Fraction(0) if rng.random() < 0.6 else rand_rat(rng, -2, 2, (1,), nz=True))
            if domain in ('jw', 'jf'):
                r = cmul(r, (Fraction(0), Fraction(-1)))
            rootsA = [(r, rng.choice([4, 4, 5]))]
            if rng.random() < 0.5:
                q = (rand_rat(rng, -4, 4), Fraction(0))
                if q != r:
                    rootsA.append((q, 1))
            degB = rng.choice([3, 3, 4])
        else:
            rootsA = gen_roots(rng, degA, domain)
        if kind == 'highmult':
            B = [(rand_rat(rng, -6, 6, (1, 2)), Fraction(0)) for _ in range(degB + 1)]
            if B[-1] == (0, 0):
                B[-1] = (Fraction(1), Fraction(0))
            if B[0] == (0, 0):
                B[0] = (Fraction(2), Fraction(0))
            rootsB = None
        elif kind == 'coeffs':
            degB = min(degB, 2)
            B = [(rand_rat(rng, -6, 6, (1, 2)), Fraction(0) if domain in ('s', 'z') or rng.random() < 0.5 else rand_rat(rng, -3, 3)) for _ in range(degB + 1)]
            if B[-1] == (0, 0):
                B[-1] = (Fraction(1), Fraction(0))
            if rng.random() < 0.08:
                B = [(Fraction(0), Fraction(0))]          # zero numerator (degenerate stream)
            rootsB = None
        else:
            rootsB = gen_roots(rng, degB, domain)
            if kind == 'shared' and rootsA and degB > 0:
                rootsB[0] = (rootsA[0][0], rootsB[0][1])      # common factor between B and A
                m = {}
                for (r, n) in rootsB:
                    m[r] = m.get(r, 0) + n
                rootsB = list(m.items())
            B = poly_from_roots(lcB, rootsB)
        A = poly_from_roots(lcA, rootsA)
    case['B'] = [cqs(c) for c in B]
    case['A'] = [cqs(c) for c in A]
    case['rootsA'] = [[cqs(r), n] for (r, n) in rootsA]
    case['rootsB'] = None if rootsB is None else [[cqs(r), n] for (r, n) in rootsB]
    dl = rng.random()
    if domain == 'z' and kind != 'symbolic' and idx % 12 == 9:
        case['form'] = 'zinv'       # the discrete-time habit: numerator and denominator written in powers of 1/z
    case['T'] = fstr(Fraction(0)) if dl < 0.5 else fstr(rng.choice([1, 2, 3, 4, 6]) * T0)
    case['nu'] = rng.choice([0, 0, 0, 1, 1, 2]) if domain != 'jf' else rng.choice([0, 0, 1])
    return case


def parse_cq(t, L_):
    S = L_.sym
    if ',' in t:
        a, b = t.split(',')
        return S.Rational(a) + S.I * S.Rational(b)
    return S.Rational(t)


def build(L_, case):
    """the sympy expression handed to Lcapy and the Lcapy expression"""
    S = L_.sym
    v = L_.VAR[case['domain']]
    if case.get('symvals'):
        a, b = S.Symbol('a', positive=True), S.Symbol('b', positive=True)
        As, Bs = case['Asym'], case['Bsym']
        Ae = parse_cq(As['lc'], L_) * (v + a) ** As['a'] * (v + b) ** As['b'] * (v + 1) ** As['one']
        Be = parse_cq(Bs['lc'], L_) * (v + 2 * a) ** Bs['a2'] * (v + b) ** Bs['b'] * v ** Bs['v']
        Ae, Be = S.expand(Ae), S.expand(Be)
    else:
        sh = (max(len(case['A']), len(case['B'])) - 1) if case.get('form') == 'zinv' else 0
        Ae = sum(parse_cq(c, L_) * v ** (i - sh) for i, c in enumerate(case['A']))
        Be = sum(parse_cq(c, L_) * v ** (i - sh) for i, c in enumerate(case['B']))
    e = Be / Ae
    T = Fraction(case['T'])
    if T != 0:
        e = e * S.exp(-L_.srat(T) * v)
    if case['nu'] >= 1:
        e = e * S.Function('U')(v)
    if case['nu'] >= 2:
        e = e * S.Function('V')(v)
    return e, L_.lcapy.expr(e)


def head(case):
    return '| %s | %s | %s %d |' % (' '.join(case['B']), ' '.join(case['A']), case['T'], case['nu'])


def ptstr(pt):
    return '%s %s %s %s' % (cqs(pt[0]), cqs(pt[1]), cqs(pt[2]), fstr(T0))


def poly_coeffs(L_, e, case):
    """low-first driver tokens of a sympy polynomial in the variable (after sampling the symbols)"""
    S = L_.sym
    v = L_.VAR[case['domain']]
    e = S.sympify(e.sympy if hasattr(e, 'sympy') else e)
    if case.get('symvals'):
        e = e.subs({S.Symbol(n, positive=True): L_.srat(Fraction(val)) for n, val in case['symvals'].items()})
    p = S.Poly(S.expand(e), v)
    return [L_.to_cq(c) for c in reversed(p.all_coeffs())]


def table_tokens(L_, d, case):
    """sympy roots dict -> 'r n r n' tokens (symbols sampled); raises Unevaluable for surds"""
    S = L_.sym
    out = []
    for r, n in d.items():
        r = S.sympify(r.sympy if hasattr(r, 'sympy') else r)
        n = int(S.sympify(n.sympy if hasattr(n, 'sympy') else n))
        if case.get('symvals'):
            r = r.subs({S.Symbol(k, positive=True): L_.srat(Fraction(val)) for k, val in case['symvals'].items()})
        out.append((L_.to_cq(r), n))
    # symbols sampled at values may merge distinct symbolic roots: add multiplicities
    m = {}
    for r, n in out:
        m[r] = m.get(r, 0) + n
    return ' '.join('%s %d' % (r, n) for r, n in sorted(m.items()))


def formats(H, v):
    """every value-returning formatting method / option: (name, callable, model request name or None)"""
    return [
        ('canonical', lambda: H.canonical(), ('canonical', 'canonical_br')),
        ('canonical_fc', lambda: H.canonical(factor_const=True), ('canonical_fc', 'canonical_fc_br')),
        ('general', lambda: H.general(), 'general'),
        ('standard', lambda: H.standard(), 'standard'),
        ('mixedfrac', lambda: H.mixedfrac(), 'standard'),
        ('partfrac', lambda: H.partfrac(), None),
        ('partfrac_ec', lambda: H.partfrac(method='ec'), None),
        ('partfrac_sub', lambda: H.partfrac(method='sub'), None),
        ('partfrac_pairs', lambda: H.partfrac(combine_conjugates=True), None),
        ('partfrac_pairs_opt', lambda: H.partfrac(pairs=True), None),
        ('partfrac_pairs_ec', lambda: H.partfrac(pairs=True, method='ec'), None),
        ('recippartfrac', lambda: H.recippartfrac(), None),          # through the model in recip_checks
        ('ZPK', lambda: H.ZPK(), None),
        ('ZPK_pairs', lambda: H.ZPK(pairs=True), None),
        ('ZPK_combine_conjugates', lambda: H.ZPK(combine_conjugates=True), None),
        ('factored', lambda: H.factored(), None),
        ('factored_pairs', lambda: H.factored(pairs=True), None),
        ('timeconst', lambda: H.timeconst(), 'timeconst'),
        ('timeconst_terms', lambda: H.timeconst_terms(), None),
        ('expandcanonical', lambda: H.expandcanonical(), ('expandcanonical', 'expandcanonical_src')),
        ('as_continued_fraction', lambda: H.as_continued_fraction(), 'cf'),
        ('as_continued_fraction_inverse', lambda: H.as_continued_fraction_inverse(), 'cfi'),
        ('simplify', lambda: H.simplify(), None),
        ('simplify_terms', lambda: H.simplify_terms(), 'simplify_terms'),
        ('simplify_factors', lambda: H.simplify_factors(), 'simplify_factors'),
        ('N_over_D', lambda: H.N / H.D, 'N_over_D'),
        ('as_N_D_monic', lambda: (lambda nd: nd[0] / nd[1])(H.as_N_D(monic_denominator=True)), 'asnd_monic'),
        ('multiply_top_and_bottom', lambda: H.multiply_top_and_bottom(v + 1), ('mtb | 1 1', 'mtbsrc | 1 1')),
        ('divide_top_and_bottom', lambda: H.divide_top_and_bottom(v), 'dtb | 0 1'),
        ('divide_top_and_bottom_quadratic', lambda: H.divide_top_and_bottom(v**2 + 2 * v + 3), 'dtb | 3 2 1'),
        ('as_sum', lambda: H.as_sum(), 'expand_response'),
        ('as_monic_terms', lambda: H.as_monic_terms(), None),
        ('as_nonmonic_terms', lambda: H.as_nonmonic_terms(), None),
        ('expand_response', lambda: H.expand_response(), 'expand_response'),
        ('expand', lambda: H.expand(), None),
        ('rationalize_denominator', lambda: H.rationalize_denominator(), 'rationalize'),
    ]


class Runner:
    def __init__(self, chk, L_, drv):
        self.chk, self.L, self.drv = chk, L_, drv
        self.disagreements = []
        self.counterexamples = 0
        self.tlimit = 8 if chk.tier == 'quick' else 20
        self.ncase = 0

    def ask(self, line):
        return self.drv.ask1(line)

    PENDING = {
        # id -> (predicate on (case, key), description); counted as 'pending-finding' until known-findings.json has the id
        'C11-F34-zpk-unfound-roots': (lambda case, key: case.get('kind') == 'unsolvable' and key.get('kind') == 'format'
                                      and str(key.get('format', '')).split('_')[0] in ('ZPK', 'factored'),
                                      'ZPK()/factored() silently drop every factor whose roots sym.roots does not find'),
    }

    def cex(self, case, key, detail, what):
        key = dict(key)
        key['delay'] = Fraction(case['T']) != 0
        if case.get('kind') == 'unsolvable':
            key['roots_found'] = False
        for fid, (pred, desc) in self.PENDING.items():
            if pred(case, key):
                key['finding'] = fid
                if not any(f.get('id') == fid for f in self.chk.findings):
                    self.chk.count('pending-finding', '%s: %s (%s)' % (fid, desc, key.get('format')))
                    return
        self.counterexamples += 1
        self.chk.counterexample(key, {'input': case, 'detail': detail,
                                      'how': 'build B/A*exp(-T*var)*U(var) from the coefficient lists (low order first) in the given domain, call the named method, evaluate at the point (exp(-%s*var) := w, U := u)' % fstr(T0)},
                                what)

    def disagree(self, what, case, detail):
        self.chk.coverage['correspondence']['disagreements'] += 1
        self.disagreements.append({'what': what, 'input': case, 'detail': detail})

    def points(self, case, rng, n):
        pts = []
        tries = 0
        h = head(case)
        while len(pts) < n and tries < 50:
            tries += 1
            x = Fraction(rng.randint(-40, 40), rng.randint(1, 7))
            w = Fraction(rng.randint(2, 9), rng.choice([3, 5, 7, 11]))
            u = Fraction(rng.randint(2, 9), rng.choice([3, 5, 7]))
            if x == 0 or w == 1:
                continue
            pt = (x, w, u)
            sv = self.ask('rf.value %s %s' % (h, ptstr(pt)))
            if sv == 'undef' or sv == 'bad-op':
                continue
            pts.append((pt, sv))
        return pts

    def run_case(self, case, rng, only=None, subset=None):
        chk, L_ = self.chk, self.L
        S = L_.sym
        v = L_.VAR[case['domain']]
        self.ncase += 1
        e, H = build(L_, case)
        npts = 2 if chk.tier == 'quick' else 3
        pts = self.points(case, rng, npts)
        h = head(case)
        hasdelay = Fraction(case['T']) != 0
        nontriv = len(case['A']) > 1 and len(pts) > 0
        chk.case((case['domain'], tuple(case['B']), tuple(case['A']), case['T'], case['nu'], str(case.get('symvals'))), nontriv)
        chk.count('domain', case['domain'])
        chk.count('kind', case['kind'])
        chk.count('form', '%s:%s' % (case['domain'], case.get('form', 'polynomials in the variable')))
        chk.count('degree excess (deg B - deg A)', str(len(case['B']) - len(case['A'])))
        chk.count('delay', 'yes' if hasdelay else 'no')
        chk.count('undefined factors', str(case['nu']))
        if not pts:
            chk.count('degenerate', 'no-defined-sample-point')
            return
        if H._ratfun is None:
            chk.count('degenerate', 'lcapy-does-not-see-a-ratfun')
        # ---------------- value formats
        for (fname, call, mreq) in formats(H, v):
            if only and fname != only:
                continue
            if subset is not None and fname not in subset:
                continue
            if fname == 'rationalize_denominator' and (case['domain'] not in ('jw', 'jf') or case['nu'] or hasdelay or case.get('symvals')):
                continue
            res, err = L_.timed(call, self.tlimit)
            if err:
                chk.count('lcapy-error', '%s:%s' % (fname, err))
                continue
            chk.count('format', fname)
            chk.count('format by domain', '%s:%s' % (case['domain'], fname))
            for (pt, sv) in pts:
                try:
                    got, err = L_.timed(lambda: L_.evalat(res, case, pt), self.tlimit)
                    if err == 'Unevaluable' or err == 'timeout':
                        chk.count('degenerate', 'unevaluable:%s' % fname)
                        continue
                    if err:
                        chk.count('degenerate', 'undefined-at-point:%s:%s' % (fname, err))
                        continue
                except Unevaluable:
                    chk.count('degenerate', 'unevaluable:%s' % fname)
                    continue
                # correspondence with the model
                for mreq1 in ((mreq,) if isinstance(mreq, str) else (mreq or ())):
                    name, _, extra = mreq1.partition(' | ')
                    mv = self.ask('rf.fmt %s %s %s%s' % (name, h, ptstr(pt), (' | ' + extra) if extra else ''))
                    if mv in ('unmodelled', 'bad-op', 'undef'):
                        chk.count('model', '%s:%s' % (name, mv))
                    else:
                        chk.coverage['correspondence']['compared'] += 1
                        chk.count('model-compared', name)
                        if mv != got:
                            self.disagree('fmt:' + fname + ':' + name, case, {'point': ptstr(pt), 'lcapy': got, 'model': mv})
                # oracle: spec predicate judged by Lean
                ok = self.ask('rf.same %s %s | %s' % (h, ptstr(pt), got))
                if ok != 'true':
                    self.cex(case, {'kind': 'format', 'format': fname},
                             {'format': fname, 'point': ptstr(pt), 'lcapy_value': got, 'spec_value': sv, 'lcapy_result': str(res)[:300]},
                             '%s() changes the value of the expression' % fname)
                    break
        if only or subset is not None:
            return
        self.data_checks(case, H, pts, rng)

    # ---------------- data-returning methods
    def data_checks(self, case, H, pts, rng):
        chk, L_ = self.chk, self.L
        S = L_.sym
        v = L_.VAR[case['domain']]
        h = head(case)
        hasdelay = Fraction(case['T']) != 0
        dec, err = L_.timed(lambda: H._as_B_A_delay_undef(), self.tlimit)
        if err:
            chk.count('lcapy-error', 'as_B_A_delay_undef:%s' % err)
            return
        Bl, Al, delay, undef = dec
        try:
            Bt, At = poly_coeffs(L_, Bl, case), poly_coeffs(L_, Al, case)
        except Exception:   # noqa
            chk.count('degenerate', 'B/A not polynomial after sampling')
            return
        # decomposition: spec value of (B, A, delay, undef) as Lcapy reports it == spec value of the input
        chk.count('data', 'as_B_A_delay_undef')
        nu_l = len([a for a in S.sympify(undef).atoms(L_.AppliedUndef)])
        try:
            dl = L_.to_cq(S.sympify(delay))
        except Unevaluable:
            dl = None
        chk.coverage['correspondence']['compared'] += 1
        if dl != case['T'] or nu_l != case['nu']:
            self.disagree('decompose', case, {'lcapy_delay': str(delay), 'lcapy_undef': str(undef)})
        if dl is not None:
            for (pt, sv) in pts:
                v2 = self.ask('rf.value | %s | %s | %s %d | %s' % (' '.join(Bt), ' '.join(At), dl, nu_l, ptstr(pt)))
                if v2 != sv:
                    self.cex(case, {'kind': 'data', 'method': 'as_B_A_delay_undef'},
                             {'lcapy': [str(Bl), str(Al), str(delay), str(undef)], 'point': ptstr(pt), 'value_of_decomposition': v2, 'spec_value': sv},
                             'as_B_A_delay_undef does not describe the expression')
                    break
        hl = '| %s | %s | %s %d |' % (' '.join(Bt), ' '.join(At), dl or '0', nu_l)
        # degrees
        dg, err = L_.timed(lambda: (H.Ndegree, H.Ddegree, H.degree, H.is_strictly_proper), self.tlimit)
        if not err and not all(c == '0' for c in Bt):
            chk.count('data', 'degrees')
            rb = self.ask('poly.rootscheck | %s |' % ' '.join(Bt)).split()
            ra = self.ask('poly.rootscheck | %s |' % ' '.join(At)).split()
            md = (int(rb[2]), int(ra[2]))
            chk.coverage['correspondence']['compared'] += 1
            if (int(dg[0]), int(dg[1])) != md or int(dg[2]) != max(md) or bool(dg[3]) != (md[1] > md[0]):
                self.disagree('degrees', case, {'lcapy': str(dg), 'model': md})
        self.coeff_checks(case, H, pts, Bt, At, hl)
        # as_QMA: structural correspondence with the model's long division
        qma, err = L_.timed(lambda: H._ratfun.as_QMA(), self.tlimit)
        if err:
            chk.count('lcapy-error', 'as_QMA:%s' % err)
        else:
            chk.count('data', 'as_QMA')
            try:
                Q, M = poly_coeffs(L_, qma[0], case), poly_coeffs(L_, qma[1], case)
                mq = self.ask('poly.divmod | %s | %s' % (' '.join(Bt), ' '.join(At)))
                chk.coverage['correspondence']['compared'] += 1

                def norm(ts):
                    ts = list(ts)
                    while ts and ts[-1] == '0':
                        ts.pop()
                    return ' '.join(ts)
                lq = '%s | %s' % (norm(Q), norm(M))
                if ' '.join(mq.split()) != ' '.join(lq.split()):
                    self.disagree('as_QMA', case, {'lcapy': lq, 'model': mq})
                # oracle: B = Q A + M at the sample points and deg M < deg A
                for (pt, sv) in pts:
                    x = cqs(pt[0])
                    vals = [self.ask('poly.eval | %s | %s' % (' '.join(p) if p else '0', x)) for p in (Bt, Q, At, M)]
                    vb, vq, va, vm = [parse_cq(t, L_) for t in vals]
                    if S.expand(vb - (vq * va + vm)) != 0 or len(norm(M).split()) >= max(1, len(norm(At).split())) and norm(M) != '':
                        self.cex(case, {'kind': 'data', 'method': 'as_QMA'}, {'Q': Q, 'M': M, 'point': x},
                                 'as_QMA: B != Q*A + M or deg M >= deg A')
                        break
            except Unevaluable:
                chk.count('degenerate', 'unevaluable:as_QMA')
        # poles / zeros judged by rootsCheck (on Lcapy's own B and A)
        for nm, fn, poly in (('poles', lambda: H.poles(), At), ('zeros', lambda: H.zeros(), Bt)):
            if all(c == '0' for c in poly):
                continue
            d, err = L_.timed(fn, self.tlimit)
            if err:
                chk.count('lcapy-error', '%s:%s' % (nm, err))
                continue
            try:
                tt = table_tokens(L_, d, case)
            except Unevaluable:
                chk.count('degenerate', 'surd-roots:%s' % nm)
                continue
            except Exception as e_:   # noqa
                chk.count('degenerate', 'roots-shape:%s:%s' % (nm, type(e_).__name__))
                continue
            r = self.ask('poly.rootscheck | %s | %s' % (' '.join(poly), tt)).split()
            chk.count('data', nm)
            if r[0] != 'true' or r[1] != r[2]:
                self.cex(case, {'kind': 'data', 'method': nm},
                         {'polynomial(low first)': poly, 'reported': tt, 'rootsCheck': r[0], 'sum_of_multiplicities': r[1], 'degree': r[2]},
                         '%s(): reported roots/multiplicities do not factorise the polynomial' % nm)
            elif nm == 'poles':
                self.pf_checks(case, H, pts, Bt, At, tt, hl)
            if r[0] == 'true':
                setattr(self, '_tab_' + nm, tt)
                self.rootdict_checks(case, H, nm, tt)
        # poles(pairs=True) / zeros(pairs=True): pairs expanded + singles must factorise the polynomial
        for nm, fn, poly in (('poles(pairs)', lambda: H.poles(pairs=True), At), ('zeros(pairs)', lambda: H.zeros(pairs=True), Bt)):
            if all(c == '0' for c in poly):
                continue
            d, err = L_.timed(fn, self.tlimit)
            if err:
                chk.count('lcapy-error', '%s:%s' % (nm, err))
                continue
            try:
                pairs_, singles_ = d
                allr = {}
                for k_, n_ in pairs_.items():
                    for member in k_:
                        allr[member] = allr.get(member, 0) + int(S.sympify(n_.sympy if hasattr(n_, 'sympy') else n_))
                for k_, n_ in singles_.items():
                    allr[k_] = allr.get(k_, 0) + int(S.sympify(n_.sympy if hasattr(n_, 'sympy') else n_))
                tt = table_tokens(L_, allr, case)
            except Unevaluable:
                chk.count('degenerate', 'surd-roots:%s' % nm)
                continue
            except Exception as e_:   # noqa
                chk.count('degenerate', 'roots-shape:%s:%s' % (nm, type(e_).__name__))
                continue
            r = self.ask('poly.rootscheck | %s | %s' % (' '.join(poly), tt)).split()
            chk.count('data', nm)
            if r[0] != 'true' or r[1] != r[2]:
                self.cex(case, {'kind': 'data', 'method': nm},
                         {'polynomial(low first)': poly, 'reported(pairs expanded + singles)': tt, 'rootsCheck': r[0],
                          'sum_of_multiplicities': r[1], 'degree': r[2], 'lcapy': str(d)[:300]},
                         '%s: reported conjugate pairs and single roots do not factorise the polynomial' % nm)
        # as_QRF (with and without pairs): Q + sum R/F times delay and undefined factors is the expression
        for nm, fn in (('as_QRF', lambda: H.as_QRF()), ('as_QRF(pairs)', lambda: H.as_QRF(pairs=True)),
                       ('as_QRF(ec)', lambda: H.as_QRF(method='ec'))):
            q, err = L_.timed(fn, self.tlimit)
            if err:
                chk.count('lcapy-error', '%s:%s' % (nm, err))
                continue
            try:
                v_ = L_.VAR[case['domain']]
                e_ = S.sympify(q[0]) + sum(S.sympify(r_) / S.sympify(f_) for r_, f_ in zip(q[1], q[2]))
                e_ = e_ * S.exp(-S.sympify(q[3]) * v_) * S.sympify(q[4])
                chk.count('data', nm)
                for (pt, sv) in pts:
                    got = L_.evalat(e_, case, pt)
                    if self.ask('rf.same %s %s | %s' % (h, ptstr(pt), got)) != 'true':
                        self.cex(case, {'kind': 'data', 'method': nm},
                                 {'lcapy': str(q)[:400], 'point': ptstr(pt), 'value_of_decomposition': got, 'spec_value': sv},
                                 '%s: (Q + sum R/F) exp(-delay var) undef is not the expression' % nm)
                        break
            except Unevaluable:
                chk.count('degenerate', 'unevaluable:%s' % nm)
            except Exception as e2_:   # noqa
                chk.count('degenerate', '%s:%s' % (nm, type(e2_).__name__))
        self.recip_checks(case, H, pts, Bt, At)
        # ZPK through the model with Lcapy's own root tables (root finding is an input, checked above)
        zpk, err = L_.timed(lambda: H._as_ZPK(), self.tlimit)
        if not err and zpk[0] is not None and not all(c == '0' for c in Bt):
            try:
                zt, ptb = table_tokens(L_, zpk[0], case), table_tokens(L_, zpk[1], case)
                res, err = L_.timed(lambda: H.ZPK(), self.tlimit)
                if not err:
                    for (pt, sv) in pts:
                        got = L_.evalat(res, case, pt)
                        mv = self.ask('rf.fmt zpk %s %s | %s | %s' % (hl, ptstr(pt), zt, ptb))
                        chk.coverage['correspondence']['compared'] += 1
                        chk.count('data', 'ZPK-through-model')
                        if mv != got and mv not in ('undef',):
                            self.disagree('fmt:ZPK', case, {'point': ptstr(pt), 'lcapy': got, 'model': mv, 'zeros': zt, 'poles': ptb})
            except Unevaluable:
                chk.count('degenerate', 'surd-roots:ZPK-through-model')
            except Exception as e_:   # noqa
                chk.count('degenerate', 'ZPK-through-model:%s' % type(e_).__name__)
        # continued-fraction coefficients: structural correspondence
        if not hasdelay and case['nu'] == 0:
            self.cfi_check(case, H)
            cf, err = L_.timed(lambda: H.continued_fraction_coeffs(), self.tlimit)
            if err:
                chk.count('lcapy-error', 'continued_fraction_coeffs:%s' % err)
            else:
                try:
                    # Lcapy expands N/D of the expression as given (as_numer_denom)
                    N, D = H.sympy.as_numer_denom()
                    Nt, Dt = poly_coeffs(L_, N, case), poly_coeffs(L_, D, case)
                    mc = self.ask('rf.cfcoeffs | %s | %s' % (' '.join(Nt), ' '.join(Dt)))
                    toks = []
                    for c in cf:
                        c = S.sympify(c.sympy if hasattr(c, 'sympy') else c)
                        if case.get('symvals'):
                            c = c.subs({S.Symbol(n, positive=True): L_.srat(Fraction(val)) for n, val in case['symvals'].items()})
                        if c == 0:
                            toks += ['0', '0']
                            continue
                        k = S.degree(c, v) if c.has(v) else 0
                        q = S.cancel(c / v ** k)
                        if q.has(v):
                            raise Unevaluable('coefficient is not a monomial: %s' % c)
                        toks += [L_.to_cq(q), str(int(k))]
                    chk.count('data', 'continued_fraction_coeffs')
                    if mc.startswith('ok'):
                        chk.coverage['correspondence']['compared'] += 1
                        if mc != 'ok ' + ' '.join(toks):
                            self.disagree('cfcoeffs', case, {'lcapy': ' '.join(toks), 'model': mc})
                    else:
                        chk.count('model', 'cfcoeffs:' + mc)
                except Unevaluable:
                    chk.count('degenerate', 'unevaluable:continued_fraction_coeffs (negative power / non-monomial)')
                except Exception as e_:   # noqa
                    chk.count('degenerate', 'continued_fraction_coeffs:%s' % type(e_).__name__)

    def cfi_check(self, case, H):
        """inverse continued-fraction coefficients: structural correspondence with the model"""
        chk, L_ = self.chk, self.L
        S = L_.sym
        v = L_.VAR[case['domain']]
        cf, err = L_.timed(lambda: H.continued_fraction_inverse_coeffs(), self.tlimit)
        if err:
            chk.count('lcapy-error', 'continued_fraction_inverse_coeffs:%s' % err)
            return
        try:
            N, D = H.sympy.as_numer_denom()
            Nt, Dt = poly_coeffs(L_, N, case), poly_coeffs(L_, D, case)
            mc = self.ask('rf.cficoeffs | %s | %s' % (' '.join(Nt), ' '.join(Dt)))
            toks = []
            for c in cf:
                c = S.sympify(c.sympy if hasattr(c, 'sympy') else c)
                if case.get('symvals'):
                    c = c.subs({S.Symbol(n, positive=True): L_.srat(Fraction(val)) for n, val in case['symvals'].items()})
                if c == 0:
                    toks += ['0', '0']
                    continue
                for k in range(0, 12):
                    q = S.cancel(c * v ** k)
                    if not q.has(v):
                        break
                else:
                    raise Unevaluable('coefficient is not q*var^-k: %s' % c)
                toks += [L_.to_cq(q), str(k)]
            chk.count('data', 'continued_fraction_inverse_coeffs')
            if mc.startswith('ok'):
                chk.coverage['correspondence']['compared'] += 1
                if mc != 'ok ' + ' '.join(toks):
                    self.disagree('cficoeffs', case, {'lcapy': ' '.join(toks), 'model': mc})
            else:
                chk.count('model', 'cficoeffs:' + mc)
        except Unevaluable:
            chk.count('degenerate', 'unevaluable:continued_fraction_inverse_coeffs')
        except Exception as e_:   # noqa
            chk.count('degenerate', 'continued_fraction_inverse_coeffs:%s' % type(e_).__name__)

    def pf_checks(self, case, H, pts, Bt, At, poles_tt, hl):
        """residues of as_QRPO judged by pfCheck, partfrac through the model with them"""
        chk, L_ = self.chk, self.L
        S = L_.sym
        for method in (None, 'ec'):
            q, err = L_.timed(lambda: H.as_QRPO(method=method), self.tlimit)
            if err:
                chk.count('lcapy-error', 'as_QRPO:%s' % err)
                continue
            try:
                Q, R, P, O = q[0], q[1], q[2], q[3]
                Qt = poly_coeffs(L_, Q, case)
                terms = []
                for r, p, o in zip(R, P, O):
                    vals = []
                    for t in (r, p):
                        t = S.sympify(t)
                        if case.get('symvals'):
                            t = t.subs({S.Symbol(n, positive=True): L_.srat(Fraction(val)) for n, val in case['symvals'].items()})
                        vals.append(L_.to_cq(t))
                    terms.append('%s %s %d' % (vals[0], vals[1], int(o)))
            except Unevaluable:
                chk.count('degenerate', 'surd-residues')
                continue
            except Exception as e_:   # noqa
                chk.count('degenerate', 'as_QRPO-shape:%s' % type(e_).__name__)
                continue
            tt = ' '.join(terms)
            ok = self.ask('rf.pfcheck | %s | %s | %s | %s | %s' % (' '.join(Bt), ' '.join(At), ' '.join(Qt), poles_tt, tt))
            chk.count('data', 'as_QRPO(%s)' % (method or 'sub'))
            if ok != 'true':
                self.cex(case, {'kind': 'data', 'method': 'as_QRPO', 'option': method or 'sub'},
                         {'B': Bt, 'A': At, 'Q': Qt, 'poles': poles_tt, 'terms(r p o)': tt, 'pfCheck': ok},
                         'as_QRPO(method=%s): quotient, poles and residues do not reconstruct B/A' % method)
                continue
            # partfrac through the model with these data
            res, err = L_.timed(lambda: H.partfrac(method=method), self.tlimit)
            if err:
                continue
            for (pt, sv) in pts:
                try:
                    got = L_.evalat(res, case, pt)
                except Exception:   # noqa
                    continue
                mv = self.ask('rf.fmt partfrac %s %s | %s | %s' % (hl, ptstr(pt), ' '.join(Qt), tt))
                chk.coverage['correspondence']['compared'] += 1
                if mv != got and mv != 'undef':
                    self.disagree('fmt:partfrac', case, {'point': ptstr(pt), 'lcapy': got, 'model': mv})


    # ---------------- round 3: coefficient lists, degrees, root dictionaries, reciprocal partial fractions
    def clist(self, lst, case):
        """an Lcapy / SymPy list of coefficients -> driver tokens (symbols sampled)"""
        L_ = self.L
        S = L_.sym
        out = []
        for c in lst:
            c = S.sympify(c.sympy if hasattr(c, 'sympy') else c)
            if case.get('symvals'):
                c = c.subs({S.Symbol(n, positive=True): L_.srat(Fraction(val)) for n, val in case['symvals'].items()})
            out.append(L_.to_cq(c))
        return out

    def coeff_checks(self, case, H, pts, Bt, At, hl):
        chk, L_ = self.chk, self.L
        S = L_.sym
        dom = case['domain']
        plain = Fraction(case['T']) == 0 and case['nu'] == 0
        zeroB = all(c == '0' for c in Bt)
        # -- Ratfun.coeffs(): model on Lcapy's own B, A; oracle: each list re-assembles to the polynomial
        r, err = L_.timed(lambda: H._ratfun.coeffs(), self.tlimit)
        if err:
            chk.count('lcapy-error', 'Ratfun.coeffs:%s' % err)
        else:
            try:
                bl, al = self.clist(r[0], case), self.clist(r[1], case)
                chk.count('data', 'Ratfun.coeffs')
                chk.count('data by domain', '%s:Ratfun.coeffs' % dom)
                mv = self.ask('rf.coeffs | %s | %s' % (' '.join(Bt), ' '.join(At)))
                chk.coverage['correspondence']['compared'] += 1
                if mv != '%s | %s' % (' '.join(bl), ' '.join(al)):
                    self.disagree('Ratfun.coeffs', case, {'lcapy': [bl, al], 'model': mv})
                for (pt, sv) in pts:
                    x = cqs(pt[0])
                    ok = [self.ask('poly.coeffsok | %s | %s | %s' % (' '.join(P), ' '.join(cs), x)) for P, cs in ((Bt, bl), (At, al))]
                    if ok != ['true', 'true']:
                        self.cex(case, {'kind': 'data', 'method': 'Ratfun.coeffs'}, {'B(low first)': Bt, 'A(low first)': At, 'lcapy': [bl, al], 'point': x},
                                 'Ratfun.coeffs(): the coefficient lists do not re-assemble to B and A')
                        break
            except Unevaluable:
                chk.count('degenerate', 'unevaluable:Ratfun.coeffs')
        # -- Expr.D.coeffs() / normcoeffs(), Expr.N.coeffs() / normcoeffs() (N only when it is a polynomial)
        for side in ('D', 'N'):
            if side == 'N' and (not plain or zeroB):
                continue
            P, err = L_.timed(lambda: getattr(H, side), self.tlimit)
            if err:
                chk.count('lcapy-error', '%s:%s' % (side, err))
                continue
            try:
                Pt = poly_coeffs(L_, P, case)
            except Exception:   # noqa
                chk.count('degenerate', '%s not polynomial after sampling' % side)
                continue
            for meth in ('coeffs', 'normcoeffs'):
                r, err = L_.timed(lambda: getattr(P, meth)(), self.tlimit)
                if err:
                    chk.count('lcapy-error', '%s.%s:%s' % (side, meth, err))
                    continue
                try:
                    cl = self.clist(r, case)
                except Unevaluable:
                    chk.count('degenerate', 'unevaluable:%s.%s' % (side, meth))
                    continue
                nm = '%s.%s' % (side, meth)
                chk.count('data', nm)
                chk.count('data by domain', '%s:%s' % (dom, nm))
                mv = self.ask('poly.%s | %s' % (meth, ' '.join(Pt)))
                chk.coverage['correspondence']['compared'] += 1
                if mv != ' '.join(cl):
                    self.disagree(nm, case, {'polynomial(low first)': Pt, 'lcapy': cl, 'model': mv})
                for (pt, sv) in pts:
                    x = cqs(pt[0])
                    if meth == 'coeffs':
                        # oracle: the list has the value of the polynomial (exact SymPy substitution) at the point
                        try:
                            got = L_.evalat(P, case, pt)
                        except Exception:   # noqa
                            continue
                        ok = self.ask('poly.highsame | %s | %s | %s' % (' '.join(cl), x, got))
                    else:
                        ok = self.ask('poly.normok | %s | %s | %s' % (' '.join(Pt), ' '.join(cl), x))
                    if ok != 'true':
                        self.cex(case, {'kind': 'data', 'method': nm}, {'polynomial(low first)': Pt, 'lcapy': cl, 'point': x},
                                 '%s(): the coefficient list does not describe the polynomial%s' % (nm, '' if meth == 'coeffs' else ' / is not normalised to a leading 1'))
                        break
        # -- Expr.ba (b, a normalised by a[0]); needs a polynomial N
        if plain and not zeroB:
            r, err = L_.timed(lambda: H.ba, self.tlimit)
            if err:
                chk.count('lcapy-error', 'ba:%s' % err)
            else:
                try:
                    bl, al = self.clist(r[0], case), self.clist(r[1], case)
                    Nt, Dt = poly_coeffs(L_, H.N, case), poly_coeffs(L_, H.D, case)
                    chk.count('data', 'ba')
                    chk.count('data by domain', '%s:ba' % dom)
                    mv = self.ask('rf.ba | %s | %s' % (' '.join(Nt), ' '.join(Dt)))
                    chk.coverage['correspondence']['compared'] += 1
                    if mv != '%s | %s' % (' '.join(bl), ' '.join(al)):
                        self.disagree('ba', case, {'lcapy': [bl, al], 'model': mv})
                    h = head(case)
                    for (pt, sv) in pts:
                        ok = self.ask('rf.basame %s %s | %s | %s' % (h, ptstr(pt), ' '.join(bl), ' '.join(al)))
                        if ok not in ('true', 'undef'):
                            self.cex(case, {'kind': 'data', 'method': 'ba'}, {'lcapy': [bl, al], 'point': ptstr(pt), 'spec_value': sv},
                                     'ba: b(var)/a(var) is not the expression or a[0] != 1')
                            break
                except Unevaluable:
                    chk.count('degenerate', 'unevaluable:ba')
                except Exception as e_:   # noqa
                    chk.count('degenerate', 'ba:%s' % type(e_).__name__)
        # -- degrees through the model (the names / operator read from the source), -oo for the zero polynomial
        dg, err = L_.timed(lambda: (H.Ndegree, H.Ddegree, H.degree, H.is_strictly_proper), self.tlimit)
        if err:
            chk.count('lcapy-error', 'degrees:%s' % err)
        elif H._ratfun is not None:
            lv = '%s %s %s %s' % (str(S.sympify(dg[0])), str(S.sympify(dg[1])), str(S.sympify(dg[2])), 'true' if dg[3] else 'false')
            mv = self.ask('rf.degrees | %s | %s' % (' '.join(Bt), ' '.join(At)))
            chk.count('data', 'degrees-through-model')
            chk.count('data by domain', '%s:degrees' % dom)
            chk.coverage['correspondence']['compared'] += 1
            if mv != lv:
                self.disagree('degrees-through-model', case, {'lcapy': lv, 'model': mv})
            # oracle: the Lean SPEC degrees (sdegree, -oo for zero) of Lcapy's own B and A judge all four answers
            ok = self.ask('rf.degspec | %s | %s | %s' % (' '.join(Bt), ' '.join(At), lv))
            if ok != 'true':
                self.cex(case, {'kind': 'data', 'method': 'degrees'}, {'lcapy(Ndegree Ddegree degree is_strictly_proper)': lv,
                                                                       'B(low first)': Bt, 'A(low first)': At},
                         'Ndegree / Ddegree / degree / is_strictly_proper do not describe the degrees of numerator and denominator')

    def rootdict_checks(self, case, H, nm, tt):
        """aslist=True form and the merging loop, against the model (tt = the checked multiplicity table)"""
        chk, L_ = self.chk, self.L
        S = L_.sym
        fn = (lambda: H.poles(aslist=True)) if nm == 'poles' else (lambda: H.zeros(aslist=True))
        lst, err = L_.timed(fn, self.tlimit)
        if err:
            chk.count('lcapy-error', '%s(aslist):%s' % (nm, err))
            return
        try:
            ll = sorted(self.clist(lst, case))
        except Unevaluable:
            chk.count('degenerate', 'surd-roots:%s(aslist)' % nm)
            return
        ml = sorted(self.ask('roots.aslist | %s' % tt).split())
        chk.count('data', '%s(aslist)' % nm)
        chk.count('data by domain', '%s:%s(aslist)' % (case['domain'], nm))
        chk.coverage['correspondence']['compared'] += 1
        if ml != ll:
            self.disagree('%s(aslist)' % nm, case, {'lcapy': ll, 'model': ml, 'table': tt})
            # oracle: the list, read as a table of multiplicity-1 entries, must factorise the polynomial like the dictionary does
            self.cex(case, {'kind': 'data', 'method': '%s(aslist)' % nm}, {'dictionary': tt, 'list': ll},
                     '%s(aslist=True) is not the dictionary with every root repeated by its multiplicity' % nm)
        if nm == 'poles':
            # the merging loop of Expr.poles on the raw list of Root objects of Ratfun.poles()
            raw, err = L_.timed(lambda: H._ratfun.poles(), self.tlimit)
            if err:
                return
            try:
                rt = []
                for q in raw:
                    e = S.sympify(q.expr)
                    if case.get('symvals'):
                        e = e.subs({S.Symbol(k, positive=True): L_.srat(Fraction(val)) for k, val in case['symvals'].items()})
                    rt.append('%s %d' % (L_.to_cq(e), int(q.n)))
            except Unevaluable:
                return
            mm = self.ask('roots.merge | %s' % ' '.join(rt)).split()
            mm = ' '.join('%s %s' % (a, b) for a, b in sorted(zip(mm[0::2], mm[1::2])))
            chk.count('data', 'poles-merge')
            chk.coverage['correspondence']['compared'] += 1
            if mm != tt:
                self.disagree('poles-merge', case, {'raw': rt, 'lcapy': tt, 'model': mm})

    def recip_checks(self, case, H, pts, Bt, At):
        """recippartfrac through the model: the partial-fraction data of the function of 1/var are judged by pfCheck
        against the model's reciprocal polynomials, then the model's expression is evaluated at 1/x"""
        chk, L_ = self.chk, self.L
        S = L_.sym
        if Fraction(case['T']) != 0 or all(c == '0' for c in Bt):
            return
        if chk.tier == 'quick' and self.ncase % 2:
            return
        h = head(case)
        for method in ((None,) if chk.tier == 'quick' else (None, 'ec')):
            def data():
                q = S.Symbol('qtmp__')
                e1 = H.sympy.subs(L_.VAR[case['domain']], 1 / q)
                rr = L_.lcapy.ratfun.Ratfun(e1, q)
                Q, R, P, O, dl, ud = rr.as_QRPO(method=method)
                pol = {}
                for pl in rr.poles():
                    pol[pl.expr] = pol.get(pl.expr, 0) + pl.n
                return q, rr, Q, R, P, O, pol
            d, err = L_.timed(data, self.tlimit)
            if err:
                chk.count('lcapy-error', 'recip-as_QRPO:%s' % err)
                continue
            q, rr, Q, R, P, O, pol = d
            res, err = L_.timed(lambda: H.recippartfrac(method=method), self.tlimit)
            if err:
                chk.count('lcapy-error', 'recippartfrac:%s' % err)
                continue
            try:
                sub = {S.Symbol(n, positive=True): L_.srat(Fraction(val)) for n, val in (case.get('symvals') or {}).items()}

                def pc(e):
                    p = S.Poly(S.expand(S.sympify(e).subs(sub)), q)
                    return [L_.to_cq(c) for c in reversed(p.all_coeffs())]
                Qt, B2, A2 = pc(Q), pc(rr.B), pc(rr.A)
                terms = ' '.join('%s %s %d' % (L_.to_cq(S.sympify(r_).subs(sub)), L_.to_cq(S.sympify(p_).subs(sub)), int(o_)) for r_, p_, o_ in zip(R, P, O))
                m = {}
                for r_, n_ in pol.items():
                    k = L_.to_cq(S.sympify(r_).subs(sub))
                    m[k] = m.get(k, 0) + int(n_)
                ptab = ' '.join('%s %d' % kv for kv in sorted(m.items()))
            except Unevaluable:
                chk.count('degenerate', 'surd-residues:recippartfrac')
                continue
            except Exception as e_:   # noqa
                chk.count('degenerate', 'recippartfrac-shape:%s' % type(e_).__name__)
                continue
            mr = self.ask('rf.recip | %s | %s' % (' '.join(Bt), ' '.join(At)))
            if '|' not in mr:
                chk.count('model', 'recip:' + mr)
                continue
            B1, A1 = [t.strip() for t in mr.split('|')]
            ok = self.ask('rf.pfcheck | %s | %s | %s | %s | %s' % (B1, A1, ' '.join(Qt), ptab, terms))
            path = 'model-polynomials'
            if ok != 'true':
                # Lcapy cancels common factors of B(1/q), A(1/q): same function?  then judge the data on Lcapy's own pair
                same = self.ask('poly.crosseq | %s | %s | %s | %s' % (' '.join(B2), ' '.join(A2), B1, A1))
                ok2 = self.ask('rf.pfcheck | %s | %s | %s | %s | %s' % (' '.join(B2), ' '.join(A2), ' '.join(Qt), ptab, terms))
                path = 'lcapy-cancelled-polynomials'
                if same != 'true' or ok2 != 'true':
                    self.cex(case, {'kind': 'data', 'method': 'recippartfrac-data', 'option': method or 'sub'},
                             {'B(1/q) A(1/q) (model)': [B1, A1], 'lcapy': [B2, A2], 'Q': Qt, 'poles': ptab, 'terms(r p o)': terms,
                              'same_function': same, 'pfCheck': ok2},
                             'recippartfrac: the partial-fraction data of the function of 1/var do not reconstruct it')
                    continue
            chk.count('data', 'recippartfrac(%s):%s' % (method or 'sub', path))
            chk.count('data by domain', '%s:recippartfrac-through-model' % case['domain'])
            for (pt, sv) in pts:
                try:
                    got = L_.evalat(res, case, pt)
                except Exception:   # noqa
                    continue
                mv = self.ask('rf.fmt recippartfrac %s %s | %s | %s' % (h, ptstr(pt), ' '.join(Qt), terms))
                chk.coverage['correspondence']['compared'] += 1
                chk.count('model-compared', 'recippartfrac')
                if mv != got and mv != 'undef':
                    self.disagree('fmt:recippartfrac', case, {'point': ptstr(pt), 'lcapy': got, 'model': mv})


    # ---------------- damping= option (QuadraticRoot): symbolic second-order denominators
    def damping_case(self, case, rng):
        """B(s) / (s^2 + 2 zeta omega0 s + omega0^2) with the symbols zeta, omega0 and damping='under' / 'over':
        poles(damping), partfrac(damping), as_QRPO(damping) judged by rootsCheck / the spec value / pfCheck at rational
        values of the symbols for which sqrt(1 - zeta^2) resp. sqrt(zeta^2 - 1) is rational"""
        chk, L_ = self.chk, self.L
        S = L_.sym
        v = L_.VAR['s']
        zeta, w0 = S.Symbol('zeta', positive=True), S.Symbol('omega0', positive=True)
        damp = case['damping']
        Be = S.Rational(case['damped']['lcB'])
        for c in case['damped']['zeros']:
            Be = Be * (v - S.Rational(c))
        e = S.expand(Be) / (v**2 + 2 * zeta * w0 * v + w0**2)
        h = head(case)
        pts = self.points(case, rng, 2)
        chk.case(('damped', tuple(case['B']), tuple(case['A']), damp), bool(pts))
        chk.count('damping', damp)
        if not pts:
            return

        def fresh():
            return L_.lcapy.expr(e)       # poles are cached per expression regardless of the damping argument
        for nm, call in (('partfrac', lambda: fresh().partfrac(damping=damp)),
                         ('partfrac_pairs', lambda: fresh().partfrac(damping=damp, pairs=True))):
            res, err = L_.timed(call, self.tlimit)
            if err:
                chk.count('lcapy-error', '%s(damping):%s' % (nm, err))
                continue
            chk.count('format', '%s(damping=%s)' % (nm, damp))
            for (pt, sv) in pts:
                try:
                    got = L_.evalat(res, case, pt)
                except Exception:   # noqa
                    chk.count('degenerate', 'unevaluable:%s(damping)' % nm)
                    continue
                if self.ask('rf.same %s %s | %s' % (h, ptstr(pt), got)) != 'true':
                    self.cex(case, {'kind': 'format', 'format': nm, 'damping': damp},
                             {'format': nm, 'damping': damp, 'point': ptstr(pt), 'lcapy_value': got, 'spec_value': sv, 'lcapy_result': str(res)[:300]},
                             '%s(damping=%s) changes the value of the expression' % (nm, damp))
                    break
        d, err = L_.timed(lambda: fresh().poles(damping=damp), self.tlimit)
        ptab = None
        if err:
            chk.count('lcapy-error', 'poles(damping):%s' % err)
        else:
            try:
                ptab = table_tokens(L_, d, case)
                r = self.ask('poly.rootscheck | %s | %s' % (' '.join(case['A']), ptab)).split()
                chk.count('data', 'poles(damping=%s)' % damp)
                if r[0] != 'true' or r[1] != r[2]:
                    self.cex(case, {'kind': 'data', 'method': 'poles', 'damping': damp},
                             {'polynomial(low first)': case['A'], 'reported': ptab, 'rootsCheck': r[0], 'lcapy': str(d)[:300]},
                             'poles(damping=%s): reported roots do not factorise the denominator' % damp)
                    ptab = None
            except Unevaluable:
                chk.count('degenerate', 'surd-roots:poles(damping)')
                ptab = None
        q, err = L_.timed(lambda: fresh()._ratfun.as_QRPO(damping=damp), self.tlimit)
        if err:
            chk.count('lcapy-error', 'as_QRPO(damping):%s' % err)
        elif ptab is not None:
            try:
                sub = {S.Symbol(n, positive=True): L_.srat(Fraction(val)) for n, val in case['symvals'].items()}
                Qt = poly_coeffs(L_, q[0], case)
                terms = ' '.join('%s %s %d' % (L_.to_cq(S.sympify(r_).subs(sub)), L_.to_cq(S.sympify(p_).subs(sub)), int(o_))
                                 for r_, p_, o_ in zip(q[1], q[2], q[3]))
                ok = self.ask('rf.pfcheck | %s | %s | %s | %s | %s' % (' '.join(case['B']), ' '.join(case['A']), ' '.join(Qt), ptab, terms))
                chk.count('data', 'as_QRPO(damping=%s)' % damp)
                if ok != 'true':
                    self.cex(case, {'kind': 'data', 'method': 'as_QRPO', 'damping': damp},
                             {'B': case['B'], 'A': case['A'], 'Q': Qt, 'poles': ptab, 'terms(r p o)': terms, 'pfCheck': ok},
                             'as_QRPO(damping=%s): quotient, poles and residues do not reconstruct B/A' % damp)
            except Unevaluable:
                chk.count('degenerate', 'surd-residues:as_QRPO(damping)')

    def damping_checks(self, rng, n):
        L_ = self.L
        S = L_.sym
        v = L_.VAR['s']
        for i in range(n):
            damp = ['under', 'over'][i % 2]
            zv = rng.choice([Fraction(3, 5), Fraction(4, 5), Fraction(5, 13)]) if damp == 'under' else \
                rng.choice([Fraction(5, 3), Fraction(5, 4), Fraction(13, 5)])
            wv = Fraction(rng.randint(1, 4), rng.choice([1, 2]))
            zeros = [fstr(rand_rat(rng, -4, 4, (1, 2))) for _ in range([1, 0, 2, 1][(i // 2) % 4])]
            lcB = fstr(rand_rat(rng, -5, 5, (1, 2), nz=True))
            case = {'domain': 's', 'kind': 'damped', 'symvals': {'zeta': fstr(zv), 'omega0': fstr(wv)}, 'T': '0', 'nu': 0,
                    'damping': damp, 'damped': {'lcB': lcB, 'zeros': zeros}}
            Be = S.Rational(lcB)
            for c in zeros:
                Be = Be * (v - S.Rational(c))
            case['B'] = [L_.to_cq(c) for c in reversed(S.Poly(S.expand(Be), v).all_coeffs())]
            case['A'] = [fstr(wv * wv), fstr(2 * zv * wv), '1']
            self.damping_case(case, rng)


    # ---------------- full cross-product of the special constants the builders branch on
    CHEAP = ('canonical', 'canonical_fc', 'general', 'standard', 'mixedfrac', 'partfrac', 'partfrac_ec', 'partfrac_pairs', 'recippartfrac',
             'ZPK', 'ZPK_pairs', 'factored', 'factored_pairs', 'timeconst', 'timeconst_terms', 'expandcanonical', 'N_over_D', 'as_N_D_monic',
             'multiply_top_and_bottom', 'divide_top_and_bottom', 'as_sum', 'as_monic_terms', 'as_nonmonic_terms', 'expand_response',
             'simplify_factors', 'simplify_terms')

    def cross_checks(self, rng):
        """every format / option x gain exactly 1, -1, generic x delay / no delay x undefined factor / none, plus the unit numerator
        (`N == 1`) and unit denominator (`D == 1`) branches: low-degree functions with distinct rational roots so that every call is cheap"""
        chk = self.chk
        subset = set(self.CHEAP) if chk.tier == 'quick' else None
        combos = [(g, t, nu) for g in ('1', '-1', 'generic') for t in (0, 1) for nu in (0, 1)]
        extra = [('unitN', 0, 1), ('unitN', 1, 0), ('unitD', 0, 1), ('unitD', 1, 1)]
        for i, (g, t, nu) in enumerate(combos + extra):
            domain = ['s', 'z', 'jw', 'jf'][i % 4]
            ps = rng.sample([Fraction(k) for k in (-5, -4, -3, -2, -1, 1, 2, 3)], 2)
            zs = rng.sample([Fraction(k, 2) for k in (-7, -5, -3, 1, 3, 5, 7)], [2, 1, 0][i % 3])
            lc = {'1': Fraction(1), '-1': Fraction(-1), 'generic': rand_rat(rng, 2, 6, (1, 3)), 'unitN': Fraction(1), 'unitD': Fraction(1)}[g]
            A = poly_from_roots((Fraction(1), Fraction(0)), [((p, Fraction(0)), 1) for p in ps])
            B = poly_from_roots((lc, Fraction(0)), [((z, Fraction(0)), 1) for z in zs])
            if g == 'unitN':
                B = [(Fraction(1), Fraction(0))]
            if g == 'unitD':
                A = [(Fraction(1), Fraction(0))]
            case = {'domain': domain, 'kind': 'cross', 'symvals': None, 'B': [cqs(c) for c in B], 'A': [cqs(c) for c in A],
                    'rootsA': None, 'rootsB': None, 'T': fstr(rng.choice([1, 2, 3]) * T0 if t else Fraction(0)), 'nu': nu,
                    'cross': {'gain': g, 'delay': bool(t), 'undef': bool(nu)}}
            chk.count('cross-product (gain, delay, undef)', '%s, %s, %s' % (g, 'delay' if t else 'no delay', 'undef' if nu else 'no undef'))
            self.run_case(case, rng, subset=subset)

    UNSOLVABLE = (['1', '2', '0', '0', '0', '1'], ['-1', '-1', '0', '0', '0', '1'], ['3', '-1', '0', '0', '0', '1'])     # x^5+2x+1, x^5-x-1, x^5-x+3

    def unsolvable_checks(self, rng, n):
        """denominators / numerators whose roots SymPy cannot express (irreducible quintics): every format must still keep the value
        (or raise); formats that need exact roots are judged like all others"""
        chk = self.chk
        fm = {'canonical', 'canonical_fc', 'general', 'standard', 'timeconst', 'expandcanonical', 'ZPK', 'ZPK_pairs', 'factored',
              'factored_pairs', 'ZPK_combine_conjugates', 'N_over_D'}
        for i in range(n):
            q = list(self.UNSOLVABLE[i % len(self.UNSOLVABLE)])
            other = [cqs(c) for c in poly_from_roots((rand_rat(rng, 1, 4, (1, 2), nz=True), Fraction(0)),
                                                     [((rand_rat(rng, -4, 4), Fraction(0)), 1) for _ in range(i % 2 + 0)])]
            case = {'domain': ['s', 'z'][i % 2], 'kind': 'unsolvable', 'symvals': None, 'rootsA': None, 'rootsB': None,
                    'B': other if i % 3 != 2 else q, 'A': q if i % 3 != 2 else ['2', '1'], 'T': fstr(Fraction(0) if i % 2 else T0), 'nu': i % 2}
            chk.count('unsolvable', 'quintic in the %s' % ('denominator' if i % 3 != 2 else 'numerator'))
            self.run_case(case, rng, subset=fm)

    def option_observations(self):
        """options that are accepted but ignored (no change of value: counted as observations, never alarmed)"""
        chk, L_ = self.chk, self.L
        S = L_.sym
        v = L_.VAR['s']
        zeta, w0 = S.Symbol('zeta', positive=True), S.Symbol('omega0', positive=True)
        e = 1 / (v**2 + 2 * zeta * w0 * v + w0**2)

        def obs():
            H1 = L_.lcapy.expr(e)
            H1.poles()
            a = str(H1.poles(damping='under'))
            b = str(L_.lcapy.expr(e).poles(damping='under'))
            H2 = L_.lcapy.expr((v + 1) / ((v**2 + 4) * (v + 3)))
            c = str(H2.recippartfrac(pairs=True)) == str(H2.recippartfrac(combine_conjugates=True))
            return a == b, c
        r, err = L_.timed(obs, self.tlimit)
        if err:
            chk.count('lcapy-error', 'option-observations:%s' % err)
            return
        chk.count('observation', 'poles(damping=...) after poles(): %s' % ('consistent' if r[0] else 'served from the cache of the earlier call (damping ignored)'))
        chk.count('observation', 'recippartfrac(pairs=True): %s' % ('same as combine_conjugates=True' if r[1] else 'option ignored (only combine_conjugates is passed on)'))

    # ---------------- zp2tf with list / dictionary arguments
    def zp2tf_checks(self, rng, n):
        chk, L_ = self.chk, self.L
        S = L_.sym
        for i in range(n):
            zl, pl = [(0, 0), (1, 1), (1, 0), (0, 1)][i % 4]
            zs = [(Fraction(rng.randint(-4, 4)), 1 if zl else rng.randint(1, 3)) for _ in range(rng.randint(0, 2))]
            ps = [(Fraction(rng.randint(-4, 4)), 1 if pl else rng.randint(1, 3)) for _ in range(rng.randint(1, 2))]
            if not zl:
                zs = list(dict(zs).items())
            if not pl:
                ps = list(dict(ps).items())
            g = Fraction(rng.randint(1, 5))
            x = Fraction(rng.randint(5, 30), rng.choice([1, 2, 3])) + Fraction(1, 7)
            za = [L_.srat(r) for r, n_ in zs] if zl else {L_.srat(r): n_ for r, n_ in zs}
            pa = [L_.srat(r) for r, n_ in ps] if pl else {L_.srat(r): n_ for r, n_ in ps}
            zt = ' '.join('%s %d' % (fstr(r), n_) for r, n_ in zs)
            pt_ = ' '.join('%s %d' % (fstr(r), n_) for r, n_ in ps)
            case = {'zeros': zt, 'poles': pt_, 'zeros_is_list': bool(zl), 'poles_is_list': bool(pl), 'K': fstr(g), 'x': fstr(x)}
            chk.case(('zp2tf', zt, pt_, zl, pl), True)
            chk.count('zp2tf', 'zeros:%s poles:%s' % ('list' if zl else 'dict', 'list' if pl else 'dict'))
            res, err = L_.timed(lambda: L_.lcapy.zp2tf(za, pa, L_.srat(g)), self.tlimit)
            mv = self.ask('rf.zp2tf %d %d | %s | %s | %s | %s' % (zl, pl, zt, pt_, fstr(g), fstr(x)))
            spec = self.ask('rf.zp2tf 0 0 | %s | %s | %s | %s' % (zt, pt_, fstr(g), fstr(x)))
            if err:
                chk.count('lcapy-error', 'zp2tf:%s' % err)
                chk.coverage['correspondence']['compared'] += 1
                if mv != 'error':
                    self.disagree('zp2tf', case, {'lcapy': 'raises ' + err, 'model': mv})
                # raising on a valid argument mix is a violation of "creates a transfer function from lists or dictionaries"
                self.counterexamples += 1
                chk.counterexample({'kind': 'zp2tf', 'zeros_is_list': bool(zl), 'poles_is_list': bool(pl)},
                                   {'input': case, 'detail': 'lcapy.zp2tf raises %s' % err}, 'zp2tf rejects a list/dictionary mix')
                continue
            got = L_.to_cq(res.sympy.subs(L_.VAR['s'], L_.srat(x)))
            chk.coverage['correspondence']['compared'] += 1
            if mv != got:
                self.disagree('zp2tf', case, {'lcapy': got, 'model': mv})
            if got != spec:
                self.counterexamples += 1
                chk.counterexample({'kind': 'zp2tf', 'zeros_is_list': bool(zl), 'poles_is_list': bool(pl)},
                                   {'input': case, 'detail': {'lcapy_value': got, 'spec_value': spec, 'lcapy_result': str(res)}},
                                   'zp2tf(zeros, poles, K) is not K*prod(s-z)^n/prod(s-p)^m')


def run(chk, replay=None):
    t_start = time.time()
    # ---- 1. translator
    text, info = tx_ratfun.generate(common.REPO)
    gen_path = os.path.join(common.LEAN, 'Lcapy', 'Generated', 'RatfunSrc.lean')
    with common.LakeLock():
        if not os.path.exists(gen_path) or open(gen_path).read() != text:
            with open(gen_path, 'w') as f:
                f.write(text)
    text2, info2 = tx_ratfun.generate_fmt(common.REPO)
    gen_path2 = os.path.join(common.LEAN, 'Lcapy', 'Generated', 'RatfunFmtSrc.lean')
    with common.LakeLock():
        if not os.path.exists(gen_path2) or open(gen_path2).read() != text2:
            with open(gen_path2, 'w') as f:
                f.write(text2)
    unp = info['unparsed'] + info2['unparsed']
    chk.coverage['translator'] = {'status': 'ok' if not unp else 'partial', 'signs': info['signs'],
                                  'isinstance': info['isinstance'], 'unparsed': unp,
                                  'formats': {k: v for k, v in info2.items() if k != 'unparsed'}}
    # ---- 2. proofs
    broken = chk.lean(['Lcapy/Props/C11.lean', 'Lcapy/Props/C11b.lean', 'Lcapy/Props/NonVacuityC11.lean'],
                      helper_files=['Lcapy/Proofs/Poly.lean', 'Lcapy/Proofs/PolyRatfun.lean', 'Lcapy/Proofs/PolyCF.lean',
                                    'Lcapy/Proofs/PolyRatfunFmt.lean', 'Lcapy/Model/Poly.lean', 'Lcapy/Model/Ratfun.lean',
                                    'Lcapy/Model/RatfunFmt.lean', 'Lcapy/Driver/C11.lean'],
                      leanchecker=(chk.tier == 'thorough'))
    drv = chk.get_driver()
    L_ = L()
    rng = chk.rng
    R = Runner(chk, L_, drv)
    chk.coverage['rule'] = ('each case = one generalised rational function B/A*exp(-T var)*U(var)^nu in s, z, omega (jw) or f (jf): '
                            'B, A from root tables (rational, zero, repeated, conjugate pairs, lone Gaussian roots), random coefficients, '
                            'symbolic coefficients sampled at rational values, or with a common factor; deg 0..4 each; T in {0, k/2}; nu in {0,1,2}; '
                            'in the z domain also written in powers of 1/z; '
                            'a full cross-product stream (gain exactly 1 / -1 / generic x delay x undefined factor, plus unit numerator and unit denominator) runs every cheap format and option (all of them in the thorough tier); '
                            'irreducible quintics exercise the formats when SymPy finds no roots; '
                            'a separate stream B(s)/(s^2 + 2 zeta omega0 s + omega0^2) with symbolic zeta, omega0 exercises the damping= option of poles / partfrac / as_QRPO; '
                            'every formatting method/option is called on it and judged at 2 (quick) / 3 (thorough) random rational points; '
                            'the data-returning methods (coeffs, normcoeffs, Ratfun.coeffs, ba, degrees, poles/zeros dictionaries and lists, as_QMA, as_QRPO, '
                            'the as_QRPO data of the function of 1/var behind recippartfrac) are compared structurally with the model and judged by the Lean checkers; '
                            'the tables "format by domain" / "data by domain" count every method per variable (s, z, omega, f); '
                            'non-trivial = non-constant denominator and a defined sample point; distinct by (domain, B, A, T, nu, symbol values)')
    if replay:
        import json
        rp = json.load(open(replay if os.path.isabs(replay) else os.path.join(common.VERIF, replay)))
        case = rp.get('input')
        if case and case.get('kind') == 'damped':
            R.damping_case(case, rng)
        elif case and 'B' in case:
            R.run_case(case, rng)
        elif case:
            R.zp2tf_checks(rng, 8)
    else:
        # corpus first
        cdir = os.path.join(common.VERIF, 'corpus', 'C11')
        if os.path.isdir(cdir):
            import json
            for fn in sorted(os.listdir(cdir)):
                if fn.endswith('.json'):
                    c = json.load(open(os.path.join(cdir, fn)))
                    if 'B' in c.get('input', {}):
                        R.run_case(c['input'], rng)
                        chk.count('corpus', fn)
        R.cross_checks(rng)
        R.unsolvable_checks(rng, 3 if chk.tier == 'quick' else 9)
        R.option_observations()
        ncases = 84 if chk.tier == 'quick' else 600
        budget = 110 if chk.tier == 'quick' else 900
        cap = 150 if chk.tier == 'quick' else 1050        # total elapsed (build + import + corpus), keeps the wall time bounded on a loaded machine
        t0 = time.time()
        for i in range(ncases):
            if time.time() - t0 > budget or time.time() - t_start > cap:
                chk.count('budget', 'stopped-after-%d-cases' % i)
                break
            case = gen_case(rng, i)
            if i < 4:
                chk.sample({k: case[k] for k in ('domain', 'kind', 'B', 'A', 'T', 'nu', 'symvals')})
            R.run_case(case, rng)
        R.zp2tf_checks(rng, 8 if chk.tier == 'quick' else 40)
        R.damping_checks(rng, 4 if chk.tier == 'quick' else 16)
    # ---- 4. classification
    chk.coverage['correspondence']['samples_of_disagreement'] = R.disagreements[:5]
    if broken and R.counterexamples == 0 and not chk.known_seen:
        for b in broken[:20]:
            chk.unexplained('broken-obligation', b, chk.coverage.get('build_log_tail', '')[-600:])
    elif broken:
        chk.coverage['broken_obligations_explained_by_counterexamples'] = True
    if R.disagreements and R.counterexamples == 0 and not chk.known_seen:
        chk.unexplained('broken-correspondence', R.disagreements[0]['what'], R.disagreements[0])


if __name__ == '__main__':
    common.main_wrapper('C11', run)
