"""C18 -- quantities, units and domains combine in a dimensionally consistent way.

1. tx_tables regenerates lean/Lcapy/Generated/Quantities.lean from /repo/lcapy (the two quantity
   algebra tables, class table with default units, domain/quantity flags, exprmap evaluated on
   every pair, every units_scale of the transform methods, the SI dimensions known to units.py).
2. lake build Lcapy.Props.C18 re-proves every table theorem (complete finite tables, `decide`)
   and the general theorems about the model of the operator code; #print axioms audit.
3. Correspondence: every ordered pair of operands (domain x quantity x value kind) is pushed
   through the real operators `* / + - == **` and the transform methods, under the settings of
   loose_units / check_units / canonical_units, and the result's class (domain, quantity), exact
   units monomial or error kind is compared with the Lean model (native driver).
4. Oracle (independent of the model): the Lean Spec predicates of Lcapy/Spec/Dim.lean (SI
   dimension of the result = sum/difference of the operands' dimensions, quantity label
   consistent with the units, refusal of mixed sums, False for mixed comparisons, transform
   changes units by the integration variable) are evaluated on the real results; also on
   circuit-analysis outputs of a few netlists.
State flipped in lcapy.state is restored after every case (try/finally) and checked at the end.
"""
import itertools
import json
import os
import sys
import time
import warnings

sys.path.insert(0, os.path.dirname(os.path.abspath(__file__)))
import common
from translate import tx_tables
from translate import tx_tpquant
from translate import tx_supquant
import c18_typed
import c18_sup
import c18_tr

warnings.filterwarnings('ignore')

SYMS = tx_tables.SYMS
WIRE = {k: v for k, v in tx_tables.DOMAINS.items()}
VARS = {'time': 't', 'laplace': 's', 'fourier': 'f', 'angular fourier': 'omega', 'norm fourier': 'F',
        'norm angular fourier': 'Omega', 'frequency response': 'f', 'angular frequency response': 'omega',
        'discrete time': 'n', 'discrete fourier': 'k', 'Z': 'z', 'fourier noise': 'f',
        'angular fourier noise': 'omega', 'phasor ratio': 'omega'}
NOISE = ('fourier noise', 'angular fourier noise')
QORDER = ['undefined', 'voltage', 'current', 'impedance', 'admittance', 'transfer', 'power',
          'voltagesquared', 'currentsquared', 'impedancesquared', 'admittancesquared']
CONFIGS = [(l, c, k) for l in (True, False) for c in (True, False) for k in (False, True)]   # default first
# value used for each transform method's source domain
TRANSFORM_VALUES = {'time': 'exp(-t)*Heaviside(t)', 'laplace': '1/(s+1)', 'fourier': '1/(1+j*2*pi*f)',
                    'angular fourier': '1/(1+j*omega)', 'frequency response': '1/(1+j*2*pi*f)',
                    'angular frequency response': '1/(1+j*omega)', 'norm fourier': '1/(1+j*2*pi*F)',
                    'norm angular fourier': '1/(1+j*Omega)',
                    # round 3: discrete-time family and the constant domains
                    'discrete time': '3**(-n)*u(n)', 'Z': '3*z/(3*z-1)', 'constant': '4', 'constant time': '4',
                    'constant frequency response': '4'}
# transforms that integrate over the source variable and belong to the property's sentence
PROPS = ['Lcapy/Props/C18.lean', 'Lcapy/Props/C18TP.lean', 'Lcapy/Props/C18Sup.lean', 'Lcapy/Props/C18Tr.lean',
         'Lcapy/Props/NonVacuityC18.lean']
INTEGRAL = {('time', 'laplace'), ('laplace', 'time'), ('time', 'fourier'), ('fourier', 'time'),
            ('time', 'angular fourier'), ('angular fourier', 'time')}


def wire_domain(d):
    return {'constantTime': 'constant_time', 'constantFrequencyResponse': 'constant_frequency_response',
            'normFourier': 'norm_fourier', 'angularFourier': 'angular_fourier',
            'normAngularFourier': 'norm_angular_fourier', 'frequencyResponse': 'frequency_response',
            'angularFrequencyResponse': 'angular_frequency_response', 'phasorRatio': 'phasor_ratio',
            'fourierNoise': 'fourier_noise', 'angularFourierNoise': 'angular_fourier_noise',
            'discreteTime': 'discrete_time', 'discreteFourier': 'discrete_fourier'}.get(WIRE[d], WIRE[d])


class Real:
    """the real Lcapy, canonical observations"""

    def __init__(self):
        import lcapy
        import sympy
        from lcapy.exprclasses import exprclasses
        from lcapy.state import state
        from sympy.physics import units as su
        self.lcapy, self.sympy, self.exprclasses, self.state = lcapy, sympy, exprclasses, state
        self.names = {su.volt: 'volt', su.ampere: 'ampere', su.ohm: 'ohm', su.siemens: 'siemens', su.watt: 'watt',
                      su.hertz: 'hertz', su.second: 'second', su.radian: 'radian'}
        self.cls2key = {}
        for d, row in exprclasses.items():
            for q, cls in row.items():
                self.cls2key[cls] = (d, q)
        self.saved = (state.loose_units, state.check_units, state.canonical_units)

    def units_vec(self, u):
        u = self.sympy.sympify(u)
        v = [0] * 8
        for base, e in u.as_powers_dict().items():
            if base == 1:
                continue
            if base not in self.names or not e.is_Integer:
                return None
            v[SYMS.index(self.names[base])] += int(e)
        return tuple(v)

    def make(self, d, q, kind):
        cls = self.exprclasses[d][q]
        val = {'zero': '0', 'const': '3', 'par': 'R_0', 'var': '3*%s' % VARS.get(d, '')}[kind]
        kw = {}
        if d in ('phasor', 'phasor ratio'):
            kw['omega'] = self.lcapy.omega
        if d in NOISE:
            kw['nid'] = 'n1'
        return cls(val, **kw)

    def describe(self, x):
        """(domain, quantity, units vector, zero, unchanging, constant)"""
        return (x.domain, x.quantity, self.units_vec(x.units), bool(x.sympy == 0), bool(x.is_unchanging), bool(x.is_constant))

    def observe(self, r):
        """canonical form of a result object"""
        key = self.cls2key.get(type(r))
        uv = self.units_vec(r.units)
        if key is None:
            return ('ok', getattr(r, 'domain', '?'), getattr(r, 'quantity', '?'), uv, 'class-not-in-table:' + type(r).__name__)
        if (r.domain, r.quantity) != key:
            return ('ok', r.domain, r.quantity, uv, 'class-attrs-differ-from-key:%s' % (key,))
        return ('ok', key[0], key[1], uv, '')

    @staticmethod
    def errkind(e):
        m = str(e)
        if 'domains are incompatible' in m:
            return 'domains'
        if 'units of the result are unsupported' in m:
            return 'quantities'
        if 'since the units' in m and 'are incompatible with' in m:
            return 'units'
        return 'other:' + type(e).__name__ + ':' + m[:60].replace('\n', ' ')

    def with_cfg(self, cfg, fn):
        st = self.state
        old = (st.loose_units, st.check_units, st.canonical_units)
        try:
            st.loose_units, st.check_units, st.canonical_units = cfg
            return fn()
        finally:
            st.loose_units, st.check_units, st.canonical_units = old

    def binop(self, op, a, x):
        try:
            if op == '*':
                r = a * x
            elif op == '/':
                r = a / x
            elif op == '+':
                r = a + x
            elif op == '-':
                r = a - x
            else:
                raise AssertionError(op)
        except ValueError as e:
            return ('err', self.errkind(e))
        except Exception as e:   # noqa
            return ('err', 'other:' + type(e).__name__ + ':' + str(e)[:60].replace('\n', ' '))
        return self.observe(r)


def ustr(v):
    return ','.join(str(i) for i in v)


def opd_wire(desc):
    d, q, u, z, c, k = desc
    return '%s %s %s %d %d %d' % (wire_domain(d), q, ustr(u), int(z), int(c), int(k))


def cfg_wire(cfg):
    return ''.join('1' if b else '0' for b in cfg)


def parse_model(reply, inv):
    t = reply.split()
    if t[0] == 'ok':
        return ('ok', inv[t[1]], t[2], tuple(int(i) for i in t[3].split(',')), '')
    if t[0] == 'err':
        return ('err', t[1])
    return ('model', reply)


def run(chk, replay=None):
    t_start = time.time()
    # ---- 1. translator
    text, info = tx_tables.generate(common.REPO)
    gen_path = os.path.join(common.LEAN, 'Lcapy', 'Generated', 'Quantities.lean')
    with common.LakeLock():
        if not os.path.exists(gen_path) or open(gen_path).read() != text:
            with open(gen_path, 'w') as f:
                f.write(text)
    text_tp, info_tp = tx_tpquant.generate(common.REPO)
    gen_tp = os.path.join(common.LEAN, 'Lcapy', 'Generated', 'QuantitiesTP.lean')
    with common.LakeLock():
        if not os.path.exists(gen_tp) or open(gen_tp).read() != text_tp:
            with open(gen_tp, 'w') as f:
                f.write(text_tp)
    text_sup, info_sup = tx_supquant.generate(common.REPO)
    gen_sup = os.path.join(common.LEAN, 'Lcapy', 'Generated', 'QuantitiesSup.lean')
    with common.LakeLock():
        if not os.path.exists(gen_sup) or open(gen_sup).read() != text_sup:
            with open(gen_sup, 'w') as f:
                f.write(text_sup)
    info['unparsed'] = info['unparsed'] + info_tp['unparsed'] + info_sup['unparsed']
    chk.coverage['translator_superposition'] = {'flags': info_sup['flags'], 'keys': info_sup['keys'], 'kinds': info_sup['kinds'],
                                                'mul': info_sup['muls'], 'phasor_statement_order': info_sup['phasor_order']}
    chk.coverage['translator_typed_results'] = {
        'rows': {k: len(info_tp[k]) for k in ('derived', 'entries', 'attr_derived', 'expect', 'docports', 'wraps', 'netports', 'netwraps')},
        'expectation_from': ['lean/Lcapy/Spec/TwoPort.lean (Derived.holds, equationNames)', 'lean/Lcapy/Props/C08.lean (X_attr_sound statements)'],
        'code_from': ['lcapy/twoport.py', 'lcapy/netlistopsmixin.py'],
        'untyped_returns': [[c, a, how] for c, a, q, how in info_tp['wraps'] if q is None] +
                           [[m, r, how] for m, r, q, how in info_tp['netwraps'] if q is None]}
    chk.coverage['translator'] = {'status': 'ok' if not info['unparsed'] else 'partial',
                                  'unparsed': info['unparsed'],
                                  'rows': {k: info[k] for k in ('mul_rows', 'div_rows', 'class_rows', 'transform_rows', 'known_dims')},
                                  'duplicate_keys': info['duplicate_keys'],
                                  'ast_vs_introspection_mismatches': info['ast_vs_introspection_mismatches'],
                                  'code_flags': info['flags'],
                                  'introspected_from': info['introspected_from']}
    chk.coverage['trusted_base'] = chk.coverage['trusted_base'] + [
        'tx_tables reads _mul_mapping/_div_mapping, _default_units, domains.py, the quantity mixins and every units_scale with ast; '
        'the class attributes domain/quantity, exprmap(q, d) and the SI dimensions known to units.py come from import-time introspection of the installed lcapy',
        'SI dimensions of the eight unit symbols and of the quantities as written in Lcapy/Spec/Dim.lean (V, A, s exponent vectors)',
        'SymPy unit arithmetic and sympy.physics.units dimension system (Units.simplify_units is modelled only up to equality of its results)',
        'tx_tpquant: regular expressions over lean/Lcapy/Spec/TwoPort.lean (Derived.holds clauses, equationNames; tied back to the Lean definition by theorem '
        'derived_ports_match_spec) and over the theorem statements of lean/Lcapy/Props/C08.lean; ast reading of the return statements and docstrings of '
        'lcapy/twoport.py and lcapy/netlistopsmixin.py; wrapper class names resolved to quantities by introspection of lcapy.exprclasses',
        'the dimension rule of Lcapy/Spec/DimTP.lean (V/V, I/I -> transfer; V/I -> impedance; I/V -> admittance; wave variables have the dimension of a voltage)',
        'tx_supquant: ast reading of classmap.py, superposition.py, superpositionvoltage.py, superpositioncurrent.py, phasor.py (statement shapes listed in its docstring)']
    # ---- 2. proofs
    broken = chk.lean(PROPS,
                      helper_files=['Lcapy/Spec/Dim.lean', 'Lcapy/Spec/DimTP.lean', 'Lcapy/Model/Quantities.lean',
                                    'Lcapy/Proofs/QuantitiesBase.lean', 'Lcapy/Generated/Quantities.lean',
                                    'Lcapy/Generated/QuantitiesTP.lean', 'Lcapy/Model/QuantitiesSup.lean',
                                    'Lcapy/Generated/QuantitiesSup.lean', 'Lcapy/Driver/C18.lean'],
                      leanchecker=(chk.tier == 'thorough'))
    drv = chk.get_driver()
    R = Real()
    inv = {wire_domain(d): d for d in WIRE}
    quick = chk.tier == 'quick'
    rng = chk.rng
    extra = os.environ.get('VERIF_EXTRA_FINDINGS')
    if extra and os.path.exists(extra):
        # lets the coordinator / developer try proposed known-findings entries before they are merged
        chk.findings = chk.findings + [f for f in json.load(open(extra)).get('findings', []) if f.get('property') == 'C18']
        chk.coverage['extra_findings_file'] = extra
    chk.coverage['rule'] = (
        'operand = (domain in the 18 instantiable domains of exprclasses) x (quantity in undefined + 10 defined) x value kind '
        '(3*var | 3 | 0 | the domain-variable singletons t,s,f,omega,... carrying domain units); case = ordered operand pair x operator '
        'x (loose_units, check_units, canonical_units); quick: complete pairs for * and / (value kinds that the code distinguishes), complete '
        'pairs for + and == at the default setting, seeded sample of pairs under the 7 other settings and for -; thorough: + and == complete under '
        'the 4 (loose_units, check_units) settings and a seeded quarter of the pairs under the 4 settings that differ in canonical_units only (read by the '
        'printers only, flag theorem), - complete under the default setting; zero/constant/parameter value kinds and the singletons against every operand: a seeded half of the pairs (default setting) and an eighth (strictest); ** for n in {2,-1,3} on every operand; every transform row of the translated table on every quantity; '
        'every domain change offered through the call syntax X(t), X(s), X(f), X(omega), X(jw), X(jf) and the named methods, one and two steps deep from a Laplace- and a time-domain start, for every quantity class (step rule + route independence); non-trivial = the real operator returned a result (not an error) or the spec demands a refusal; distinct by (operator, setting, operand descriptors); '
        'ROUND 3 -- typed results: (two-port object in {8 parameter-matrix classes reached by every conversion from seed matrices, every TwoPort network class '
        'buildable from a pool of constructor recipes (quick: 10 core + 4 seeded-random, thorough: all ~55), Circuit.twoport}) x (every attribute of the regenerated '
        'tables: 20 of the C08 table, 5 documented as a ratio, Y?oc/Y?sc, V?oc/I?sc, matrix elements X11..X22) judged by ratioOk/entryOk/signalOk and then USED '
        '(x signal of the denominator quantity, + and == with the two other ratio quantities); (netlist in 15 netlists covering test-source route < 6 components, '
        'ladder shortcut with 6/8 components RC/LC/RR and driven, non-ladder with 7 components, dc/ac/transient/mixed/noise sources) x (transfer, voltage_gain, '
        'current_gain, transimpedance, transadmittance, impedance, admittance, thevenin.Z/.Y, norton.Y, oneport.Z, cpt.Z/.Y, Voc, Isc, node V, branch I/V/i/v) x '
        '(native superposition components, time(), laplace(), phasor(), .dc, .ac, .transient, .s, .n); Superposition x operand x {+, radd, -, *, rmul, /, ==}; '
        'phasors at omega in {3, 5, omega} x {*, /, +, -, ==}; sequences; discrete-time transforms ZT/DFT/DTFT(f,F,omega,Omega) and back; every change out of a '
        'constant domain; (a op x)(D) == a(D) op x(D) for constants a and constant responses x')
    disagreements = []
    cex = [0]
    new_keys = set()
    model_cache = {}

    def ask(line):
        r = model_cache.get(line)
        if r is None:
            r = drv.ask1(line)
            model_cache[line] = r
        return r

    def disagree(what, inp, real, model):
        chk.coverage['correspondence']['disagreements'] += 1
        if len(disagreements) < 40:
            disagreements.append({'what': what, 'input': inp, 'lcapy': real, 'model': model})

    def violation(key, inp, real, spec, what):
        """`key` is the coarse structural key (matched against known-findings.json and used to
        report each pattern once); the concrete failing input goes into the replay"""
        ks = json.dumps(key, sort_keys=True)
        chk.count('spec-violations-by-key', ks)
        if common.match_finding(chk.findings, key) is None and ks not in new_keys:
            if len(new_keys) >= 12:
                # enough distinct replays for one run; the rest is only counted
                cex[0] += 1
                chk.coverage['violations_not_written_beyond_cap'] = chk.coverage.get('violations_not_written_beyond_cap', 0) + 1
                return
            new_keys.add(ks)
        if chk.counterexample(key, {'input': inp, 'lcapy': real, 'spec': spec}, what):
            cex[0] += 1      # not covered by a known finding

    # ---- operands
    domains = [d for d in R.exprclasses if d != 'undefined']
    operands = {}     # (d, q, kind) -> (object, descriptor)
    unbuildable = []
    for d in domains:
        for q in QORDER:
            for kind in ('var', 'const', 'par', 'zero'):
                if kind == 'var' and d not in VARS:
                    continue
                try:
                    x = R.make(d, q, kind)
                    desc = R.describe(x)
                    if desc[2] is None:
                        raise ValueError('units not a monomial: %s' % x.units)
                    operands[(d, q, kind)] = (x, desc)
                except Exception as e:   # noqa
                    unbuildable.append('%s/%s/%s: %s' % (d, q, kind, str(e)[:60]))
    singles = {}
    for nm in ('t', 's', 'f', 'omega', 'jf', 'jw', 'n', 'k', 'z', 'F', 'Omega'):
        x = getattr(R.lcapy, nm, None)
        if x is None:
            try:
                x = getattr(__import__('lcapy.symbols', fromlist=[nm]), nm)
            except Exception:   # noqa
                continue
        try:
            desc = R.describe(x)
            if desc[2] is not None and R.cls2key.get(type(x)) == (desc[0], desc[1]):
                singles[('sym', nm)] = (x, desc)
        except Exception:   # noqa
            pass
    chk.coverage['operands'] = {'built': len(operands), 'singletons': sorted(k[1] for k in singles), 'unbuildable': unbuildable[:10]}
    # every constructed operand must itself be labelled consistently and carry its class default
    for (d, q, kind), (x, desc) in operands.items():
        mu = ask('q.defunits %s %s' % (wire_domain(d), q))
        chk.coverage['correspondence']['compared'] += 1
        if ustr(desc[2]) != mu:
            disagree('default-units', [d, q, kind], ustr(desc[2]), mu)
        if ask('q.freshok %s %s %s' % (wire_domain(d), q, ustr(desc[2]))) != 'true':
            violation({'kind': 'class-default', 'domain': d, 'quantity': q}, {'op': 'construct', 'class': type(x).__name__, 'a': [d, q, kind]},
                      {'units': str(x.units)}, 'freshOk: SI dimension of the units = expectedDim(domain, quantity) of Lcapy/Spec/Dim.lean',
                      '%s(...) carries units %s' % (type(x).__name__, x.units))

    def is_noise(desc):
        return desc[0] in NOISE

    replay_input = None
    if replay:
        rp = json.load(open(replay if os.path.isabs(replay) else os.path.join(common.VERIF, replay)))
        replay_input = rp.get('input') or {}
        chk.coverage['replay'] = {'file': replay, 'input': replay_input}

    def kinds_for(d, which):
        ks = [k for k in which if (d, 'voltage', k) in operands]
        return ks

    # ---- 3a. * and /
    def run_muldiv(a_key, x_key, ops=('*', '/')):
        a, ad = (operands.get(a_key) or singles.get(a_key))
        x, xd = (operands.get(x_key) or singles.get(x_key))
        for op in ops:
            real = R.binop(op, a, x)
            chk.count('operator', op)
            chk.count('outcome ' + op, real[0] if real[0] == 'ok' else 'err:' + real[1].split(':')[0])
            chk.case((op, ad, xd), real[0] == 'ok')
            inp = {'op': op, 'a': list(a_key), 'x': list(x_key), 'a_desc': list(ad), 'x_desc': list(xd)}
            if real[0] == 'ok' and real[4]:
                violation({'kind': 'result-class', 'op': op, 'note': real[4].split(':')[0]}, inp, list(real), 'class of the result is exprclasses[domain][quantity]', real[4])
            modelled = not (is_noise(ad) or is_noise(xd))
            if modelled:
                m = parse_model(ask('%s %s %s' % ('q.mul' if op == '*' else 'q.div', opd_wire(ad), opd_wire(xd))), inv)
                chk.coverage['correspondence']['compared'] += 1
                if m != real:
                    disagree(op, inp, list(real), list(m))
            else:
                chk.count('not-modelled', 'noise ' + op)
            # oracle
            if real[0] == 'ok':
                if real[3] is None:
                    violation({'kind': 'units-shape', 'op': op}, inp, list(real), 'units are a monomial in the unit symbols', 'result units not a monomial')
                    continue
                ok = ask('%s %s %s %s %s %s %s' % ('q.mulok' if op == '*' else 'q.divok', ad[1], ustr(ad[2]), xd[1], ustr(xd[2]), real[2], ustr(real[3])))
                if ok != 'true':
                    if is_noise(ad) or is_noise(xd):
                        key = {'kind': 'dimension', 'family': 'noise-operators'}
                    elif op == '/' and xd[0] == 'time' and xd[1] in ('impedance', 'admittance') and ad[0] == 'time' and ad[1] == 'undefined' and ad[5]:
                        key = {'kind': 'dimension', 'family': 'reciprocal-of-time-domain-immittance'}
                    elif op == '/' and xd[0] == 'time' and xd[1] in ('impedance', 'admittance') and xd[4]:
                        key = {'kind': 'dimension', 'family': 'division-by-unchanging-time-domain-immittance'}
                    else:
                        key = {'kind': 'dimension', 'family': 'other', 'op': op, 'a_quantity': ad[1], 'x_quantity': xd[1]}
                    violation(key, inp, {'quantity': real[2], 'units': ustr(real[3]), 'domain': real[1]},
                              '%s: dim(units r) = dim(units a) %s dim(units x) and dimQ(quantity r) = dimQ a %s dimQ x' % (
                                  'mulOk' if op == '*' else 'divOk', '+' if op == '*' else '-', '+' if op == '*' else '-'),
                              'result of %s %s %s has quantity %s and units %s' % (ad[1], op, xd[1], real[2], ustr(real[3])))

    if quick:
        a_keys = [(d, q, 'var' if d in VARS else 'const') for d in domains for q in QORDER]
        x_keys = list(a_keys) + [(d, q, kd) for d in domains if d in VARS for q in ('impedance', 'admittance') for kd in ('const', 'par')]
        a_keys = a_keys + [('time', 'undefined', 'const'), ('laplace', 'undefined', 'const'), ('laplace', 'undefined', 'par')] + [k for k in singles]
    else:
        a_keys = [k for k in operands if k[2] != 'zero'] + list(singles)
        x_keys = list(a_keys)
    a_keys = [k for k in a_keys if k in operands or k in singles]
    x_keys = [k for k in x_keys if k in operands or k in singles]
    if replay_input is not None:
        # re-run exactly the recorded case (operators) or the recorded section (transform / circuit)
        op = replay_input.get('op')
        a_keys, x_keys = [], []
        if op in ('*', '/'):
            run_muldiv(tuple(replay_input['a']), tuple(replay_input['x']), (op,))
    t0 = time.time()
    for ak in a_keys:
        for xk in x_keys:
            run_muldiv(ak, xk)
    chk.coverage['timing_muldiv_s'] = round(time.time() - t0, 1)

    # ---- 3b. + - == under the settings
    def run_add(a_key, x_key, cfg, ops):
        a, ad = (operands.get(a_key) or singles.get(a_key))
        x, xd = (operands.get(x_key) or singles.get(x_key))
        constA = ask('q.isconst %s' % wire_domain(ad[0])) == 'true'
        constB = ask('q.isconst %s' % wire_domain(xd[0])) == 'true'
        same = ad[0] == xd[0]
        modelled = not (is_noise(ad) or is_noise(xd))
        inp = {'a': list(a_key), 'x': list(x_key), 'a_desc': list(ad), 'x_desc': list(xd),
               'loose_units': cfg[0], 'check_units': cfg[1], 'canonical_units': cfg[2]}
        must = None
        for op in ops:
            chk.count('operator', op)
            if op in ('+', '-'):
                real = R.with_cfg(cfg, lambda: R.binop(op, a, x))
                chk.count('outcome ' + op, real[0] if real[0] == 'ok' else 'err:' + real[1].split(':')[0])
                if modelled:
                    m = parse_model(ask('q.add %s %s %s' % (cfg_wire(cfg), opd_wire(ad), opd_wire(xd))), inv)
                    chk.coverage['correspondence']['compared'] += 1
                    if m != real:
                        disagree(op + ' ' + cfg_wire(cfg), dict(inp, op=op), list(real), list(m))
                else:
                    chk.count('not-modelled', 'noise ' + op)
                refused = real[0] == 'err'
                qr, ur = (real[2], real[3]) if real[0] == 'ok' and real[3] is not None else ('undefined', (0,) * 8)
                ok = ask('q.addok %s %s %s %s %d %d %d %d %s %s' % (ad[1], ustr(ad[2]), xd[1], ustr(xd[2]), constA, constB, same, refused, qr, ustr(ur)))
                chk.case((op, cfg, ad, xd), (not refused) or ok == 'true' and refused)
                if ok != 'true':
                    key = sum_key('sum', ad, xd, modelled, refused)
                    violation(key, dict(inp, op=op), list(real),
                              'addOk: different defined quantities or different non-constant domains must be refused; an accepted sum keeps the quantity',
                              '%s %s %s %s' % (ad[1], op, xd[1], 'accepted' if not refused else 'refused'))
            else:
                def do_eq():
                    try:
                        return bool(a == x)
                    except Exception as e:   # noqa
                        return 'other:' + type(e).__name__ + ':' + str(e)[:60]
                real = R.with_cfg(cfg, do_eq)
                chk.count('outcome ==', str(real) if isinstance(real, bool) else 'exception')
                if modelled:
                    m = ask('q.eq %s %s %s' % (cfg_wire(cfg), opd_wire(ad), opd_wire(xd)))
                    chk.coverage['correspondence']['compared'] += 1
                    # the model only says whether values get compared; both operands hold the value
                    # 3*var / 3 / 0, so after the cast the comparison is decided by the two value texts
                    if m == 'refused':
                        expect = False
                    else:
                        expect = None   # value-dependent: not compared
                    if isinstance(real, str) or (expect is not None and real != expect):
                        disagree('== ' + cfg_wire(cfg), dict(inp, op='=='), real, m)
                    if m != 'refused' and real is False:
                        chk.count('eq', 'compared-and-different')
                equal = real is True
                ok = ask('q.eqok %s %s %d %d %d %d' % (ad[1], xd[1], constA, constB, same, equal))
                chk.case(('==', cfg, ad, xd), True)
                if ok != 'true':
                    key = sum_key('equal', ad, xd, modelled, False)
                    violation(key, dict(inp, op='=='), real, 'eqOk: expressions that may not be added never compare equal',
                              '%s == %s is True' % (ad[1], xd[1]))

    OMEGA_PAIRS = (['angular fourier', 'angular frequency response'], ['angular fourier', 'phasor ratio'])

    def sum_key(kind, ad, xd, modelled, refused):
        if not modelled:
            return {'kind': kind, 'family': 'noise-operators'}
        if sorted([ad[0], xd[0]]) in OMEGA_PAIRS and not refused:
            return {'kind': kind, 'family': 'omega-domain-pairs-accepted'}
        return {'kind': kind, 'family': 'other', 'refused': refused, 'a_quantity': ad[1], 'x_quantity': xd[1],
                'same_domain': ad[0] == xd[0]}

    add_a = [(d, q, 'var' if d in VARS else 'const') for d in domains for q in QORDER]
    add_a = [k for k in add_a if k in operands]
    t0 = time.time()
    if replay_input is not None:
        if replay_input.get('op') in ('+', '-', '=='):
            run_add(tuple(replay_input['a']), tuple(replay_input['x']),
                    (replay_input['loose_units'], replay_input['check_units'], replay_input['canonical_units']),
                    (replay_input['op'],))
    elif quick:
        for ak in add_a:
            for xk in add_a:
                run_add(ak, xk, CONFIGS[0], ('+', '=='))
        allk = [k for k in operands] + list(singles)
        for i in range(4000):
            ak, xk = rng.choice(allk), rng.choice(allk)
            cfg = CONFIGS[1 + rng.randrange(7)] if i % 4 else CONFIGS[0]
            run_add(ak, xk, cfg, ('+', '-', '=='))
    else:
        allk = [k for k in operands] + list(singles)
        for cfg in CONFIGS:
            # `-` takes the same path as `+` (__compat_add__): complete under the default setting, sampled under the
            # seven others (round 3: makes room for the typed-result streams within the 20 min budget)
            ops3 = ('+', '-', '==') if cfg == CONFIGS[0] else ('+', '==')
            # canonical_units is read by the printing properties only (theorem flag_canonical_units_only_printing):
            # complete enumeration under the four (loose_units, check_units) settings, a seeded quarter of the pairs under
            # the four settings that differ in canonical_units only
            for ak in add_a:
                for xk in add_a:
                    if cfg[2] and rng.random() >= 0.25:
                        continue
                    run_add(ak, xk, cfg, ops3)
        # zero / constant value kinds and singletons against every operand, both orders: a seeded half of the pairs at the
        # default setting, a seeded eighth at the strictest setting, sampled elsewhere
        special = [k for k in allk if len(k) == 2 or k[2] in ('zero', 'const', 'par')]
        for cfg, share in ((CONFIGS[0], 0.5), ((False, True, False), 0.125)):
            for sk in special:
                for bk in add_a:
                    if rng.random() >= share:
                        continue
                    run_add(sk, bk, cfg, ('+', '=='))
                    run_add(bk, sk, cfg, ('+', '=='))
        for i in range(30000):
            ak, xk = rng.choice(allk), rng.choice(allk)
            run_add(ak, xk, CONFIGS[rng.randrange(8)], ('+', '-', '=='))
    chk.coverage['timing_add_s'] = round(time.time() - t0, 1)

    t_sec = time.time()
    # ---- 3c. **
    pow_items = list(operands.items()) + list(singles.items())
    if replay_input is not None:
        pow_items = [(k, v) for k, v in pow_items if replay_input.get('op') == '**' and list(k) == replay_input.get('a')]
    for key, (a, ad) in pow_items:
        if len(key) == 3 and key[2] == 'zero':
            continue
        for n in (2, -1, 3):
            chk.count('operator', '**')
            try:
                real = R.observe(a ** n)
            except ValueError as e:
                real = ('err', R.errkind(e))
            except Exception as e:   # noqa
                real = ('err', 'other:' + type(e).__name__ + ':' + str(e)[:60])
            chk.count('outcome **', real[0] if real[0] == 'ok' else 'err:' + real[1].split(':')[0])
            chk.case(('**', n, ad), real[0] == 'ok')
            inp = {'op': '**', 'a': list(key), 'a_desc': list(ad), 'n': n}
            if not is_noise(ad):
                m = parse_model(ask('q.pow %s %d' % (opd_wire(ad), n)), inv)
                chk.coverage['correspondence']['compared'] += 1
                if m != real:
                    disagree('** %d' % n, inp, list(real), list(m))
            if real[0] == 'ok' and real[3] is not None:
                ok = ask('q.powok %s %s %d %s %s' % (ad[1], ustr(ad[2]), n, real[2], ustr(real[3])))
                if ok != 'true':
                    if is_noise(ad):
                        keyd = {'kind': 'power', 'family': 'noise-operators'}
                    elif n not in (2, -1):
                        keyd = {'kind': 'power', 'family': 'general-exponent-keeps-class-and-default-units'}
                    elif n == -1 and ad[0] == 'time' and ad[1] in ('impedance', 'admittance'):
                        keyd = {'kind': 'power', 'family': 'reciprocal-of-time-domain-immittance'}
                    else:
                        keyd = {'kind': 'power', 'family': 'other', 'n': n, 'a_quantity': ad[1]}
                    violation(keyd, inp, {'quantity': real[2], 'units': ustr(real[3]), 'domain': real[1]},
                              'powOk: dim(units r) = n * dim(units a), dimQ(quantity r) = n * dimQ a',
                              '%s ** %d has quantity %s and units %s' % (ad[1], n, real[2], ustr(real[3])))

    # ---- 3d. transforms
    diag_subst = {}
    for row in info['tables']['transforms']:
        src, method, dst = row['src'], row['method'], row['dst']
        if src not in TRANSFORM_VALUES:
            continue
        if replay_input is not None and not (replay_input.get('op') == 'transform' and replay_input.get('source') == src
                                             and replay_input.get('method') == method):
            continue
        for q in QORDER:
            try:
                kw = {'causal': True} if src == 'laplace' else {}
                a = R.exprclasses[src][q](TRANSFORM_VALUES[src], **kw)
            except Exception as e:   # noqa
                chk.count('transform', 'cannot-build')
                continue
            ad = R.describe(a)
            chk.count('operator', 'transform')
            try:
                r = getattr(a, method)()
                real = R.observe(r)
            except Exception as e:   # noqa
                real = ('err', 'other:' + type(e).__name__)
            chk.count('outcome transform', real[0] if real[0] == 'ok' else real[1])
            chk.case(('transform', src, method, q), real[0] == 'ok')
            inp = {'op': 'transform', 'source': src, 'method': method, 'target': dst, 'quantity': q, 'value': TRANSFORM_VALUES[src]}
            if real[0] != 'ok':
                continue
            m = parse_model(ask('q.tr %s %s' % (opd_wire(ad), method)), inv)
            chk.coverage['correspondence']['compared'] += 1
            if m != real:
                disagree('transform ' + method, inp, list(real), list(m))
            if real[3] is None:
                continue
            if (src, dst) in INTEGRAL:
                var = ask('q.domunits %s' % wire_domain(src))
                ok = ask('q.trok %s %s %s %s %s' % (ad[1], ustr(ad[2]), var, real[2], ustr(real[3])))
                if q == 'undefined':
                    ok = 'true'      # expressions without a quantity make no claim about units
                if ok != 'true':
                    fam = 'rebuilt-with-class-defaults' if not row['direct'] else 'other'
                    violation({'kind': 'transform', 'family': fam, 'source': src, 'target': dst} if fam != 'other' else
                              {'kind': 'transform', 'family': fam, 'source': src, 'target': dst, 'quantity': q}, inp,
                              {'quantity': real[2], 'units': ustr(real[3]), 'operand_units': ustr(ad[2])},
                              'transformOk: units change by exactly the units of the integration variable (%s); quantity kept' % var,
                              '%s.%s() of a %s' % (src, method, q))
                # and back again
                back_method = {'time': None, 'laplace': 'ILT', 'fourier': 'inverse_fourier', 'angular fourier': 'inverse_fourier'}.get(dst)
                if back_method:
                    try:
                        rb = R.observe(getattr(r, back_method)())
                        chk.count('operator', 'transform-roundtrip')
                        if rb[0] == 'ok' and rb[3] is not None:
                            if q != 'undefined' and (ask('q.dim %s' % ustr(rb[3])) != ask('q.dim %s' % ustr(ad[2])) or rb[2] != ad[1] or rb[1] != src):
                                fam = 'rebuilt-with-class-defaults' if not row['direct'] else 'other'
                                violation({'kind': 'roundtrip', 'family': fam, 'source': src, 'via': dst} if fam != 'other' else
                                          {'kind': 'roundtrip', 'family': fam, 'source': src, 'via': dst, 'quantity': q}, inp, list(rb),
                                          'round trip restores domain, quantity and SI dimension of the units', 'round trip differs')
                    except Exception:   # noqa
                        chk.count('transform', 'roundtrip-not-computable')
            else:
                if real[2] != ad[1]:
                    violation({'kind': 'transform-quantity', 'source': src, 'target': dst, 'quantity': q}, inp, list(real),
                              'a domain change keeps the quantity', 'quantity changed')
                if ask('q.dim %s' % ustr(real[3])) != ask('q.dim %s' % ustr(ad[2])):
                    diag_subst.setdefault('%s.%s() -> %s' % (src, method, dst), []).append('%s: %s -> %s' % (q, a.units, r.units))
    chk.coverage['diagnostics_domain_change_outside_the_six_integral_transforms_alters_dimension'] = {
        k: {'quantities': len(v), 'first': v[:2]} for k, v in diag_subst.items()}

    # ---- 3d'. every domain change Lcapy offers, step by step and route against route
    if replay_input is None or replay_input.get('op') == 'route':
        route_stream(chk, R, ask, violation, quick, replay_input)

    chk.coverage['timing_pow_transform_route_s'] = round(time.time() - t_sec, 1)
    # ---- 3e. typed results: every two-port class x attribute; every transfer-type netlist method on every route;
    #          node voltages / branch currents / Voc / Isc in every analysis domain
    ctx = c18_typed.Ctx(chk, R, ask, violation, wire_domain, ustr)
    t_sec = time.time()
    if replay_input is None or replay_input.get('op') == 'twoport':
        c18_typed.twoport_outputs(ctx, info_tp, quick, rng, replay_input)
    chk.coverage['timing_twoport_s'] = round(time.time() - t_sec, 1)
    t_sec = time.time()
    if replay_input is None or replay_input.get('op') == 'circuit' or (replay_input and 'netlist' in replay_input):
        c18_typed.circuit_outputs(ctx, quick, rng, replay_input)
    chk.coverage['timing_circuit_s'] = round(time.time() - t_sec, 1)

    # ---- 3f. Superposition operators, phasors with equal / unequal angular frequency, sequences
    t_sec = time.time()
    if replay_input is None or replay_input.get('op') == 'superposition':
        c18_sup.sup_stream(chk, R, ask, violation, operands, wire_domain, ustr, opd_wire, quick, rng, replay_input)
    if replay_input is None or replay_input.get('op') == 'phasor':
        c18_sup.phasor_stream(chk, R, ask, violation, wire_domain, ustr, opd_wire, cfg_wire, CONFIGS, quick, rng, replay_input)
    if replay_input is None or replay_input.get('op') == 'sequence':
        c18_sup.sequence_stream(chk, R, ask, violation, wire_domain, ustr)
    for k in ('superposition_disagreements', 'phasor_disagreements'):
        for dd in chk.coverage.get(k, [])[:3]:
            if len(disagreements) < 40:
                disagreements.append({'what': k, 'input': dd.get('input'), 'lcapy': dd.get('lcapy'), 'model': dd.get('model')})
    chk.coverage['timing_superposition_phasor_s'] = round(time.time() - t_sec, 1)

    # ---- 3g. discrete-time transforms, changes out of the constant domains, transform of a product of constants
    t_sec = time.time()
    if replay_input is None or replay_input.get('op') == 'discrete':
        c18_tr.discrete_stream(chk, R, ask, violation, wire_domain, ustr, QORDER, quick, replay_input)
    if replay_input is None or replay_input.get('op') == 'constant-change':
        c18_tr.constant_change_stream(chk, R, ask, violation, wire_domain, ustr, QORDER, replay_input)
    if replay_input is None or replay_input.get('op') == 'homomorphism':
        c18_tr.homomorphism_stream(chk, R, ask, violation, wire_domain, ustr, replay_input)
    chk.coverage['timing_discrete_constant_s'] = round(time.time() - t_sec, 1)

    # ---- class-default vs operator-units diagnostics (not violations by themselves)
    diag = []
    for d in domains:
        if d in NOISE:
            continue
        for (qa, qx, qr) in info['tables']['mul']:
            if 'constant' in (qa, qx, qr):
                continue
            ua = ask('q.defunits %s %s' % (wire_domain(d), qa))
            ux = ask('q.defunits %s %s' % (wire_domain(d), qx))
            ur = ask('q.defunits %s %s' % (wire_domain(d), qr))
            da, dx, dr = [tuple(int(i) for i in ask('q.dim %s' % u).split(',')) for u in (ua, ux, ur)]
            if tuple(p + q for p, q in zip(da, dx)) != dr:
                diag.append('%s: default units of %s differ in dimension from %s * %s' % (d, qr, qa, qx))
    chk.coverage['diagnostics_class_default_vs_product'] = {'count': len(diag), 'first': diag[:12]}

    # ---- state restored?
    now = (R.state.loose_units, R.state.check_units, R.state.canonical_units)
    if now != R.saved:
        raise common.Infra('lcapy.state not restored: %s vs %s' % (now, R.saved))

    chk.sample({'op': '/', 'a': 'LaplaceDomainVoltage(3*s) [V/Hz]', 'x': 'LaplaceDomainCurrent(3*s) [A/Hz]', 'result': 'LaplaceDomainImpedance, units V/A'})
    chk.sample({'op': '+', 'a': 'TimeDomainVoltage(3*t)', 'x': 'TimeDomainCurrent(3*t)', 'result': 'refused (units)'})
    chk.coverage['model_requests_distinct'] = len(model_cache)
    chk.coverage['wall_s_cases'] = round(time.time() - t_start, 1)

    # ---- 4. classification
    chk.coverage['correspondence']['samples_of_disagreement'] = disagreements[:8]
    # a failed `flag_*` theorem says the code lacks one of the repairs; it is explained exactly when the
    # oracle has exhibited the corresponding recorded finding in this run
    flag_finding = {'flag_div_restores_units': 'C18-F19', 'flag_pow_sets_units': 'C18-F18',
                    'flag_recip_sets_units': 'C18-F19b', 'flag_omega_needs_quantity': 'C18-F20',
                    'flag_canon_folds_hertz': 'C18-F24'}
    # (no entry for flag_sup_add_checks_quantity, flag_phasor_omega_checked, the wrapper theorems of C18TP: a failure
    #  there is explained only by a counterexample of this run)
    unexplained_broken = [b for b in broken if flag_finding.get(b.split(':')[-1]) not in chk.known_seen]
    chk.coverage['broken_obligations_explained_by_known_findings'] = [b for b in broken if b not in unexplained_broken]
    if unexplained_broken and cex[0] == 0:
        for b in unexplained_broken[:20]:
            chk.unexplained('broken-obligation', b, chk.coverage.get('build_log_tail', '')[-600:])
    elif broken:
        chk.coverage['broken_obligations_explained_by_counterexamples'] = True
    if info['unparsed'] and cex[0] == 0 and not broken:
        # a table the translator could not read and that nothing else vouches for
        for u in info['unparsed'][:5]:
            chk.unexplained('broken-obligation', 'translator-unparsed:' + u['item'], u['why'])
    if disagreements and cex[0] == 0:
        chk.unexplained('broken-correspondence', disagreements[0]['what'], disagreements[0])


ROUTE_ARGS = ['t', 's', 'f', 'omega', 'jw', 'jf', 'F', 'Omega']
ROUTE_METHODS = ['time', 'laplace', 'inverse_laplace', 'fourier', 'inverse_fourier', 'angular_fourier',
                 'frequency_response', 'angular_frequency_response']
ROUTE_DOMAINS = ('time', 'laplace', 'fourier', 'angular fourier', 'frequency response', 'angular frequency response',
                 'norm fourier', 'norm angular fourier')
ROUTE_STARTS = {'laplace': ('1/(s+1)', {'causal': True}), 'time': ('exp(-t)*Heaviside(t)', {})}


def route_stream(chk, R, ask, violation, quick, replay_input):
    """Domain changes through the call syntax X(t), X(s), X(f), X(omega), X(jw), X(jf) and the named methods, for
    every quantity class, from a Laplace-domain and a time-domain start, one and two steps deep.
      * every single step is judged by the spec predicate stepOk (quantity kept, radian never enters, x s into the
        frequency-like domains, x Hz back to time, nothing between frequency-like domains);
      * route independence: whatever route leads to a domain, the units agree (sameUnits), the results can be added
        and compare equal when they do with the units check switched off."""
    import lcapy
    argobj = {}
    for nm in ROUTE_ARGS:
        argobj[nm] = getattr(lcapy, nm, None) or getattr(__import__('lcapy.symbols', fromlist=[nm]), nm)
    arg_domain = {'t': 'time', 's': 'laplace', 'f': 'fourier', 'omega': 'angular fourier',
                  'jw': 'angular frequency response', 'jf': 'frequency response', 'F': 'norm fourier', 'Omega': 'norm angular fourier'}
    quantities = QORDER if not quick else ['impedance', 'voltage', 'admittance', 'transfer', 'current', 'power', 'undefined',
                                           'voltagesquared', 'impedancesquared']
    only = replay_input.get('quantity') if replay_input else None

    def step(x, how):
        if how in argobj:
            return x(argobj[how])
        return getattr(x, how)()

    def judge_step(start, q, route, a, r):
        ad, rd = R.describe(a), R.describe(r)
        chk.count('operator', 'route-step')
        chk.case(('route-step', start, q, tuple(route)), True)
        inp = {'op': 'route', 'start': start, 'quantity': q, 'route': list(route), 'value': ROUTE_STARTS[start][0]}
        if rd[2] is None or ad[2] is None or rd[0] not in WIRE or ad[0] not in WIRE:
            chk.count('route', 'not-judged')
            return
        ok = ask('q.stepok %s %s %s %s %s %s' % (wire_domain(ad[0]), wire_domain(rd[0]), ad[1], ustr(ad[2]), rd[1], ustr(rd[2])))
        if ok != 'true':
            violation({'kind': 'route-step', 'family': 'other', 'source': ad[0], 'target': rd[0], 'quantity': q}, inp,
                      {'operand': [ad[0], ad[1], str(a.units)], 'result': [rd[0], rd[1], str(r.units)]},
                      'stepOk: quantity kept, radian never enters, x s into a frequency-like domain, x Hz back to time, nothing between frequency-like domains',
                      '%s -> %s of a %s: units %s -> %s' % (ad[0], rd[0], q, a.units, r.units))

    for q in quantities:
        if only and q != only:
            continue
        for start, (val, kw) in ROUTE_STARTS.items():
            try:
                X = R.exprclasses[start][q](val, **kw)
            except Exception:   # noqa
                chk.count('route', 'cannot-build')
                continue
            reached = {}      # final domain -> [(route, object)]
            level1 = []
            for how in ROUTE_ARGS + ROUTE_METHODS:
                try:
                    r = step(X, how)
                except Exception as e:   # noqa
                    chk.count('route', 'not-offered:%s.%s:%s' % (start, how, type(e).__name__))
                    continue
                if not hasattr(r, 'domain') or r.domain not in ROUTE_DOMAINS:
                    continue
                judge_step(start, q, [how], X, r)
                reached.setdefault(r.domain, []).append(([how], r))
                if how in ROUTE_ARGS:
                    level1.append((how, r))
            for how1, r1 in level1:
                for how2 in ROUTE_ARGS:
                    try:
                        r2 = step(r1, how2)
                    except Exception as e:   # noqa
                        chk.count('route', 'not-offered:%s.%s:%s' % (r1.domain, how2, type(e).__name__))
                        continue
                    if not hasattr(r2, 'domain') or r2.domain not in ROUTE_DOMAINS:
                        continue
                    judge_step(start, q, [how1, how2], r1, r2)
                    reached.setdefault(r2.domain, []).append(([how1, how2], r2))
            # route independence
            for dom, lst in reached.items():
                ref_route, ref = min(lst, key=lambda t: (len(t[0]), ROUTE_ARGS.index(t[0][0]) if t[0][0] in ROUTE_ARGS else 99))
                if dom == start:
                    ref_route, ref = [], X
                ru = R.units_vec(ref.units)
                for route, y in lst:
                    if y is ref:
                        continue
                    chk.count('operator', 'route-pair')
                    chk.case(('route-pair', start, q, dom, tuple(route)), True)
                    yu = R.units_vec(y.units)
                    if ru is None or yu is None:
                        continue
                    inp = {'op': 'route', 'start': start, 'quantity': q, 'route': list(route), 'reference_route': list(ref_route),
                           'value': val, 'domain': dom}
                    through_response = any(h in ('jw', 'jf', 'frequency_response', 'angular_frequency_response') for h in route + ref_route)
                    through_norm = any(h in ('F', 'Omega') for h in route + ref_route) or dom in ('norm fourier', 'norm angular fourier')
                    signal = q in ('voltage', 'current', 'voltagesquared', 'currentsquared')
                    fam = 'signal-through-frequency-response-domain' if (signal and through_response) else (
                        'signal-through-normalised-frequency-domain' if (signal and through_norm) else 'other')
                    key = {'kind': 'route-independence', 'family': fam} if fam != 'other' else \
                        {'kind': 'route-independence', 'family': fam, 'domain': dom, 'quantity': q}
                    if q == 'undefined':
                        continue          # no quantity, no claim about units
                    if q in ('power', 'voltagesquared', 'currentsquared', 'impedancesquared', 'admittancesquared'):
                        # product quantities: class defaults are not transform-consistent (recorded observation);
                        # only the power of the radian is compared
                        if ru[7] != yu[7]:
                            violation(key, inp, {'reference_units': str(ref.units), 'units': str(y.units)},
                                      'the radian never enters the units of a transformed expression', 'power of rad differs between routes')
                        continue
                    if ask('q.sameunits %s %s' % (ustr(ru), ustr(yu))) != 'true':
                        violation(key, inp, {'reference_units': str(ref.units), 'units': str(y.units)},
                                  'sameUnits: the units of X in a domain do not depend on the route taken (SI dimension and power of rad)',
                                  '%s of a %s via %s has units %s, via %s units %s' % (dom, q, '.'.join(route) or 'start', y.units,
                                                                                     '.'.join(ref_route) or 'start', ref.units))
                        continue
                    # same units: then the two must be addable and comparable
                    def on(check):
                        return R.with_cfg((True, check, False), lambda: (ref == y))
                    try:
                        R.with_cfg((True, True, False), lambda: ref + y)
                        added = True
                    except ValueError as e:
                        added = R.errkind(e)
                    except Exception:   # noqa
                        added = True        # not a units matter
                    if added is not True:
                        violation(key, inp, {'reference_units': str(ref.units), 'units': str(y.units), 'add': added},
                                  'results reached by two routes can be added', 'sum refused (%s)' % added)
                        continue
                    try:
                        if on(False) is True and on(True) is not True:
                            violation(key, inp, {'reference_units': str(ref.units), 'units': str(y.units)},
                                      'results reached by two routes compare equal', '== is False only because of the units')
                        elif on(False) is not True:
                            chk.count('route', 'values-not-decided-equal')
                    except Exception:   # noqa
                        chk.count('route', 'eq-not-computable')


if __name__ == '__main__':
    common.main_wrapper('C18', run)
