"""tx_acdc: regenerate lean/Lcapy/Generated/ACTable.lean from the SOURCE TEXT of /repo/lcapy/acdc.py and
/repo/lcapy/phasor.py (Python `ast`; nothing is executed).

Extracted:
  * `ACChecker._find_freq_phase`: the if/elif chain on `expr.func == <f>` and the phase each branch assigns
        -> `funcPhase : List (String x Angle)`
  * `ACChecker._is_sum_ac`: the assignments `x = ...`, `y = ...` (combination of two same-frequency terms, in terms of
        A1, p1, A2, p2) -> Lean functions `sumX`, `sumY` over (A1, cos p1, sin p1, A2, cos p2, sin p2);
        the if/elif/else on `y == 0` / `x == 0` with the (phase, amp) each branch assigns
        -> `sumBranches : List (Cond x Angle x Amp)`
  * `PhasorDomainExpression.from_time`: `result = check.amp * exp(j * check.phase)` -> `fromTime : PolarForm`
  * `PhasorDomainExpression.time` (real-signal branch): `self.real.expr * cos(omega1 * t) - self.imag.expr * sin(omega1 * t)`
        -> `timeForm (re im C S : K) : K`
  * `PhasorExpression.rms`: `abs(self) * sqrt(2) / 2` -> `rmsForm (absP sqrt2 : K) : K`

Anything not recognised becomes the constructor `.other "<source text>"` (or an `unparsed` entry), which makes the theorems of
Props/C14Conv.lean about the generated table fail to build: a changed branch table is a broken obligation.
"""
import ast
import os
import warnings


class Untranslatable(Exception):
    pass


def _parse(repo, fname):
    with warnings.catch_warnings():
        warnings.simplefilter('ignore')
        return ast.parse(open(os.path.join(repo, 'lcapy', fname)).read())


def _find_method(tree, cname, mname):
    for node in tree.body:
        if isinstance(node, ast.ClassDef) and node.name == cname:
            for f in node.body:
                if isinstance(f, ast.FunctionDef) and f.name == mname:
                    return f
    return None


def angle_of(e):
    """a phase expression -> Lean `Angle` constructor"""
    src = ast.unparse(e).replace(' ', '')
    table = {'0': '.zero', 'pi/2': '.halfPi', '-pi/2': '.negHalfPi', '-(pi/2)': '.negHalfPi', 'pi': '.pi', '-pi': '.pi',
             'atan2(y,x)': '.atan2yx'}
    if src in table:
        return table[src]
    return '(.other "%s")' % src.replace('"', "'")


def amp_of(e):
    src = ast.unparse(e).replace(' ', '')
    table = {'x': '.x', 'y': '.y', 'sqrt(x**2+y**2)': '.hypot', 'sqrt(y**2+x**2)': '.hypot', '-x': '.negX', '-y': '.negY'}
    if src in table:
        return table[src]
    return '(.other "%s")' % src.replace('"', "'")


def cond_of(e):
    src = ast.unparse(e).replace(' ', '')
    table = {'y==0': '.yZero', 'x==0': '.xZero', '0==y': '.yZero', '0==x': '.xZero'}
    if src in table:
        return table[src]
    return '(.other "%s")' % src.replace('"', "'")


def arith(e, env):
    """arithmetic expression -> Lean term; names / calls resolved through `env` (source text -> Lean term)"""
    src = ast.unparse(e).replace(' ', '')
    if src in env:
        return env[src]
    if isinstance(e, ast.BinOp):
        a, b = arith(e.left, env), arith(e.right, env)
        op = {ast.Add: '+', ast.Sub: '-', ast.Mult: '*', ast.Div: '/'}.get(type(e.op))
        if op is None:
            raise Untranslatable(src)
        return '(%s %s %s)' % (a, op, b)
    if isinstance(e, ast.UnaryOp) and isinstance(e.op, ast.USub):
        return '(-%s)' % arith(e.operand, env)
    if isinstance(e, ast.Constant) and isinstance(e.value, int) and 0 <= e.value <= 2:
        return '%d' % e.value
    raise Untranslatable(src)


def assigned(stmts, target):
    """value of the last `target = value` / `self.target = value` / `check.target = value` in a statement list"""
    val = None
    for st in stmts:
        if isinstance(st, ast.Assign) and len(st.targets) == 1:
            t = st.targets[0]
            name = t.id if isinstance(t, ast.Name) else (t.attr if isinstance(t, ast.Attribute) else None)
            if name == target:
                val = st.value
    return val


def generate(repo):
    unparsed = []
    info = {'unparsed': unparsed}
    acdc = _parse(repo, 'acdc.py')
    phasor = _parse(repo, 'phasor.py')

    # ---- _find_freq_phase: func -> phase
    func_phase = []
    f = _find_method(acdc, 'ACChecker', '_find_freq_phase')
    line_ffp = f.lineno if f else 0
    if f is None:
        unparsed.append('ACChecker._find_freq_phase not found')
    else:
        chain = [st for st in f.body if isinstance(st, ast.If) and 'expr.func' in ast.unparse(st.test)]
        if not chain:
            unparsed.append('_find_freq_phase: no if-chain on expr.func')
        else:
            node = chain[0]
            while True:
                t = node.test
                if (isinstance(t, ast.Compare) and len(t.ops) == 1 and isinstance(t.ops[0], ast.Eq)
                        and ast.unparse(t.left) == 'expr.func' and isinstance(t.comparators[0], ast.Name)):
                    ph = assigned(node.body, 'phase')
                    if ph is None:
                        unparsed.append('_find_freq_phase: branch %s assigns no phase' % t.comparators[0].id)
                    else:
                        func_phase.append((t.comparators[0].id, angle_of(ph)))
                else:
                    unparsed.append('_find_freq_phase: test %s' % ast.unparse(t))
                if len(node.orelse) == 1 and isinstance(node.orelse[0], ast.If):
                    node = node.orelse[0]
                else:
                    break
    info['funcPhase'] = func_phase

    # ---- _is_sum_ac: x, y and the branch table
    f = _find_method(acdc, 'ACChecker', '_is_sum_ac')
    line_sum = f.lineno if f else 0
    sum_x = sum_y = None
    branches = []
    if f is None:
        unparsed.append('ACChecker._is_sum_ac not found')
    else:
        loops = [st for st in f.body if isinstance(st, ast.For)]
        body = loops[0].body if loops else []
        env = {'A1': 'A1', 'A2': 'A2', 'cos(p1)': 'c1', 'sin(p1)': 's1', 'cos(p2)': 'c2', 'sin(p2)': 's2'}
        # A1, p1 = check.amp, check.phase ; A2, p2 = check2.amp, check2.phase
        ok_bind = 0
        for st in body:
            if isinstance(st, ast.Assign) and isinstance(st.targets[0], ast.Tuple):
                names = [ast.unparse(t) for t in st.targets[0].elts]
                vals = ast.unparse(st.value).replace(' ', '')
                if names == ['A1', 'p1'] and vals in ('check.amp,check.phase', '(check.amp,check.phase)'):
                    ok_bind += 1
                if names == ['A2', 'p2'] and vals in ('check2.amp,check2.phase', '(check2.amp,check2.phase)'):
                    ok_bind += 1
        if ok_bind != 2:
            unparsed.append('_is_sum_ac: bindings of A1, p1, A2, p2 not as expected')
        try:
            ex, ey = assigned(body, 'x'), assigned(body, 'y')
            if ex is None or ey is None:
                raise Untranslatable('x / y not assigned')
            sum_x, sum_y = arith(ex, env), arith(ey, env)
        except Untranslatable as e:
            unparsed.append('_is_sum_ac: cannot translate %s' % e)
        ifs = [st for st in body if isinstance(st, ast.If) and ast.unparse(st.test).replace(' ', '') in ('y==0', 'x==0', '0==y', '0==x')]
        if not ifs:
            unparsed.append('_is_sum_ac: no branch on x / y')
        else:
            node = ifs[0]
            while True:
                ph, am = assigned(node.body, 'phase'), assigned(node.body, 'amp')
                if ph is None or am is None:
                    unparsed.append('_is_sum_ac: branch %s does not assign phase and amp' % ast.unparse(node.test))
                else:
                    branches.append((cond_of(node.test), angle_of(ph), amp_of(am)))
                if len(node.orelse) == 1 and isinstance(node.orelse[0], ast.If):
                    node = node.orelse[0]
                else:
                    if node.orelse:
                        ph, am = assigned(node.orelse, 'phase'), assigned(node.orelse, 'amp')
                        if ph is None or am is None:
                            unparsed.append('_is_sum_ac: else branch does not assign phase and amp')
                        else:
                            branches.append(('.otherwise', angle_of(ph), amp_of(am)))
                    break
    info['sumBranches'] = branches
    info['sumX'], info['sumY'] = sum_x, sum_y

    # ---- from_time
    f = _find_method(phasor, 'PhasorDomainExpression', 'from_time')
    from_time = '(.other "not found")'
    if f is not None:
        r = assigned(f.body, 'result')
        src = ast.unparse(r).replace(' ', '') if r is not None else ''
        if src in ('check.amp*exp(j*check.phase)', 'check.amp*exp(check.phase*j)', 'exp(j*check.phase)*check.amp'):
            from_time = '.ampExpJPhase'
        else:
            from_time = '(.other "%s")' % src
            unparsed.append('from_time: result = %s' % src)
    else:
        unparsed.append('PhasorDomainExpression.from_time not found')
    info['fromTime'] = from_time

    # ---- time()
    f = _find_method(phasor, 'PhasorDomainExpression', 'time')
    time_form = None
    if f is not None:
        cand = None
        for node in ast.walk(f):
            if isinstance(node, ast.If) and 'is_complex_signal' in ast.unparse(node.test):
                cand = assigned(node.orelse, 'result')
        if cand is None:
            unparsed.append('time(): real-signal branch not found')
        else:
            env = {'self.real.expr': 're', 'self.imag.expr': 'im', 'cos(omega1*t)': 'C', 'sin(omega1*t)': 'S'}
            try:
                time_form = arith(cand, env)
            except Untranslatable as e:
                unparsed.append('time(): cannot translate %s' % e)
    else:
        unparsed.append('PhasorDomainExpression.time not found')
    info['timeForm'] = time_form

    # ---- rms()
    f = _find_method(phasor, 'PhasorExpression', 'rms')
    rms_form = None
    if f is not None:
        rets = [n for n in ast.walk(f) if isinstance(n, ast.Return) and n.value is not None]
        if rets:
            try:
                rms_form = arith(rets[0].value, {'abs(self)': 'absP', 'sqrt(2)': 'sqrt2'})
            except Untranslatable as e:
                unparsed.append('rms(): cannot translate %s' % e)
    else:
        unparsed.append('PhasorExpression.rms not found')
    info['rmsForm'] = rms_form

    def lst(items):
        return '[' + ', '.join(items) + ']'

    out = []
    out.append('/- GENERATED by harness/translate/tx_acdc.py from lcapy/acdc.py and lcapy/phasor.py -- do not edit.\n'
               '   Regenerated from the source text of /repo on every run of `./vcheck C14`. -/')
    out.append('import Lcapy.Model.ACConv')
    out.append('namespace Lcapy.Gen.AC')
    out.append('open Lcapy.AC')
    out.append('variable {K : Type} [Add K] [Mul K] [Neg K] [Sub K] [Div K] [OfNat K 0] [OfNat K 1] [OfNat K 2]')
    out.append('')
    out.append('/-- ACChecker._find_freq_phase (acdc.py:%d): phase offset assigned per function -/' % line_ffp)
    out.append('def funcPhase : List (String × Angle) :=\n  ' + lst('("%s", %s)' % (n, a) for n, a in func_phase))
    out.append('')
    out.append('/-- ACChecker._is_sum_ac (acdc.py:%d): in-phase and quadrature parts of the sum of two terms -/' % line_sum)
    out.append('def sumX (A1 c1 s1 A2 c2 s2 : K) : K := %s' % (sum_x or '0'))
    out.append('def sumY (A1 c1 s1 A2 c2 s2 : K) : K := %s' % (sum_y or '0'))
    out.append('')
    out.append('/-- the (condition, phase, amplitude) table of the sum -/')
    out.append('def sumBranches : List (Cond × Angle × Amp) :=\n  ' + lst('(%s, %s, %s)' % b for b in branches))
    out.append('')
    out.append('/-- PhasorDomainExpression.from_time: how (amp, phase) becomes a phasor -/')
    out.append('def fromTime : PolarForm := %s' % from_time)
    out.append('')
    out.append('/-- PhasorDomainExpression.time, real-signal branch (C = cos(ωt), S = sin(ωt)) -/')
    out.append('def timeForm (re im C S : K) : K := %s' % (time_form or '0'))
    out.append('')
    out.append('/-- PhasorExpression.rms (absP = |P|, sqrt2 = √2) -/')
    out.append('def rmsForm (absP sqrt2 : K) : K := %s' % (rms_form or '0'))
    out.append('')
    out.append('end Lcapy.Gen.AC')
    return '\n'.join(out) + '\n', info


if __name__ == '__main__':
    import sys
    text, info = generate(sys.argv[1] if len(sys.argv) > 1 else '/repo')
    print(text)
    print(info)
