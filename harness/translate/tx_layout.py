"""tx_layout: regenerate lean/Lcapy/Generated/LayoutTable.lean from the *source text* of the
schematic component classes of /repo/lcapy (schemcpts.py and schematics/components/*.py).

For every component class the table records what the placement code reads from it:
`node_pinnames`, `pins` (+ `auxiliary`), `required_auxiliary`, `aliases`, `can_stretch`,
`can_scale`, `do_transpose`, `place`, `directive`, `default_width`, `default_aspect`,
`shape_scale`, `w`.  Class attributes are resolved along the (single-inheritance) base chain
exactly as Python would; pin coordinates are evaluated with exact decimal arithmetic
(`0.4619` -> 4619/10000, `4.0 / 3` -> 4/3) by a tiny expression evaluator over the class-local
names (`w`, `x`, `p`, `n` ...).  Nothing of lcapy is imported or executed.

A class whose `pins` is a property (mirror / invert variants) is emitted with its `normal_pins`
and `pinsLiteral := false`; the model refuses such an element when a mirroring option is present.
Anything not understood is listed in `unparsed` and not emitted.
"""
import ast
import os
import warnings
from fractions import Fraction

FILES = ['schematics/components/cpt.py', 'schematics/components/stretchycpt.py', 'schematics/components/fixedcpt.py',
         'schematics/components/bipole.py', 'schematics/components/wire.py', 'schematics/components/unipole.py',
         'schematics/components/shape.py', 'schematics/components/chip.py', 'schematics/components/opamp.py',
         'schematics/components/twoport.py', 'schematics/components/transistor.py', 'schematics/components/cable.py',
         'schematics/components/adc.py', 'schematics/components/dac.py', 'schemcpts.py']

ATTRS = ['node_pinnames', 'pins', 'normal_pins', 'auxiliary', 'required_auxiliary', 'aliases', 'can_stretch', 'can_scale',
         'do_transpose', 'place', 'directive', 'default_width', 'default_aspect', 'shape_scale', 'w', 'default_pins']


class Unparsed(Exception):
    pass


def ev(node, env):
    """exact evaluation of the literal expressions used in the class bodies"""
    if isinstance(node, ast.Constant):
        v = node.value
        if isinstance(v, bool) or v is None or isinstance(v, str):
            return v
        if isinstance(v, int):
            return Fraction(v)
        if isinstance(v, float):
            return Fraction(repr(v))
        raise Unparsed('constant %r' % (v,))
    if isinstance(node, ast.Name):
        if node.id in env:
            return env[node.id]
        raise Unparsed('name %s' % node.id)
    if isinstance(node, ast.UnaryOp) and isinstance(node.op, (ast.USub, ast.UAdd)):
        v = ev(node.operand, env)
        return -v if isinstance(node.op, ast.USub) else v
    if isinstance(node, ast.BinOp):
        a, b = ev(node.left, env), ev(node.right, env)
        if not isinstance(a, Fraction) or not isinstance(b, Fraction):
            raise Unparsed('non numeric binop')
        if isinstance(node.op, ast.Add):
            return a + b
        if isinstance(node.op, ast.Sub):
            return a - b
        if isinstance(node.op, ast.Mult):
            return a * b
        if isinstance(node.op, ast.Div):
            return a / b
        raise Unparsed('binop')
    if isinstance(node, ast.Tuple) or isinstance(node, ast.List):
        return tuple(ev(e, env) for e in node.elts)
    if isinstance(node, ast.Dict):
        return [(ev(k, env), ev(v, env)) for k, v in zip(node.keys, node.values)]   # ordered items
    raise Unparsed(ast.dump(node)[:60])


class ClassInfo:
    def __init__(self, name, base, lineno, fname):
        self.name = name
        self.base = base
        self.attrs = {}        # name -> value (evaluated) ; dicts as ordered item lists
        self.props = set()     # names defined as @property / def
        self.lineno = lineno
        self.fname = fname
        self.problems = []
        self.pins_fn = None    # AST of a `pins` property defined in this class


def collect(repo):
    classes = {}
    order = []
    unparsed = []
    for rel in FILES:
        path = os.path.join(repo, 'lcapy', rel)
        if not os.path.exists(path):
            unparsed.append('missing file ' + rel)
            continue
        with warnings.catch_warnings():
            warnings.simplefilter('ignore')
            tree = ast.parse(open(path).read())
        for node in tree.body:
            if isinstance(node, ast.ClassDef):
                base = None
                if node.bases:
                    b = node.bases[0]
                    base = b.id if isinstance(b, ast.Name) else None
                ci = ClassInfo(node.name, base, node.lineno, rel)
                env = {}
                for st in node.body:
                    if isinstance(st, ast.Assign) and len(st.targets) == 1 and isinstance(st.targets[0], ast.Name):
                        nm = st.targets[0].id
                        try:
                            # class-local names may refer to inherited numeric attributes (e.g. w)
                            val = ev(st.value, env)
                            env[nm] = val
                            ci.attrs[nm] = val
                        except Unparsed as e:
                            if nm in ATTRS:
                                ci.problems.append('%s.%s: %s' % (node.name, nm, e))
                    elif isinstance(st, ast.FunctionDef):
                        ci.props.add(st.name)
                        if st.name == 'pins':
                            ci.pins_fn = st
                    elif (isinstance(st, ast.Expr) and isinstance(st.value, ast.Call)
                          and isinstance(st.value.func, ast.Attribute) and st.value.func.attr == 'update'
                          and isinstance(st.value.func.value, ast.Name) and st.value.func.value.id == 'auxiliary'
                          and len(st.value.args) == 1 and isinstance(st.value.args[0], ast.Attribute)
                          and st.value.args[0].attr == 'auxiliary' and isinstance(st.value.args[0].value, ast.Name)):
                        ci.attrs.setdefault('_aux_update', []).append(st.value.args[0].value.id)
                classes[node.name] = ci
                order.append(node.name)
            elif (isinstance(node, ast.Expr) and isinstance(node.value, ast.Call)
                  and isinstance(node.value.func, ast.Name) and node.value.func.id == 'defcpt'):
                a = node.value.args
                try:
                    nm = a[0].value
                    b = a[1].id if isinstance(a[1], ast.Name) else a[1].value
                    ci = ClassInfo(nm, b, node.lineno, rel)
                    classes[nm] = ci
                    order.append(nm)
                except Exception:
                    unparsed.append('defcpt at %s:%d' % (rel, node.lineno))
    return classes, order, unparsed


def resolve(classes, cname, attr):
    """(value, is_property) following the base chain"""
    seen = 0
    c = classes.get(cname)
    while c is not None and seen < 50:
        for p in c.problems:
            if p.startswith('%s.%s:' % (c.name, attr)):
                raise Unparsed(p)
        if attr in c.attrs:
            return c.attrs[attr], False
        if attr in c.props:
            return None, True
        c = classes.get(c.base) if c.base else None
        seen += 1
    return None, False


def dict_update(items, more):
    d = list(items)
    keys = [k for k, _ in d]
    for k, v in more:
        if k in keys:
            d[keys.index(k)] = (k, v)
        else:
            d.append((k, v))
            keys.append(k)
    return d


def lean_rat(q):
    q = Fraction(q)
    return 'mkR (%d) %d' % (q.numerator, q.denominator)


def lean_str(s):
    return '"' + s.replace('\\', '\\\\').replace('"', '\\"') + '"'


def lean_bool(b):
    return 'true' if b else 'false'


def pin_rows(items):
    rows = []
    for name, spec in items:
        if not (isinstance(spec, tuple) and len(spec) == 3 and isinstance(spec[0], str)):
            raise Unparsed('pin %r' % (name,))
        rows.append('⟨%s, %s, %s, %s⟩' % (lean_str(name), lean_bool(spec[0].endswith('x')), lean_rat(spec[1]), lean_rat(spec[2])))
    return '[' + ', '.join(rows) + ']'


VARIANT_ATTRS = ['normal_pins', 'mirror_pins', 'invert_pins', 'mirror_invert_pins',
                 'normal_pins2', 'mirror_pins2', 'invert_pins2', 'mirror_invert_pins2']

# the `pins` properties the model knows (lean/Lcapy/Model/Layout.lean: pinsOf); anything else is reported as unparsed
PINS_TEMPLATES = {
    'mirror': "return self.mirror_pins if self.mirror else self.normal_pins",
    'invert': "return self.invert_pins if self.invert else self.normal_pins",
    'mirrorinputs-xor-mirror': "return self.mirror_pins if (self.mirrorinputs ^ self.mirror) else self.normal_pins",
    'mirrorinputs': "return self.mirror_pins if self.mirrorinputs else self.normal_pins",
}

TRANSISTOR_TEMPLATE = """
if (self.kind is not None
    and (self.kind.startswith(_A_)
         or self.kind.startswith(_B_))):
    xpins = [[self.normal_pins2, self.invert_pins2],
             [self.mirror_pins2, self.mirror_invert_pins2]]
else:
    xpins = [[self.normal_pins, self.invert_pins],
             [self.mirror_pins, self.mirror_invert_pins]]
if (self.classname in _C_
    or self.kind in _D_):
    pins = xpins[not self.mirror][self.invert]
else:
    pins = xpins[self.mirror][self.invert]

if self.size != 1 or self.scale != 1:
    if 'g' in pins:
        pins = pins.copy()
        gpin = pins['g']
        y = ((1 - self.scale) / 2 +
             gpin[2] * self.scale + (self.size - 1) / 2) / self.size
        pins['g'] = (gpin[0], gpin[1], y)
return pins
"""


class _Abstract(ast.NodeTransformer):
    """replace the literal class / kind lists and prefixes of Transistor.pins by placeholders, collecting them"""

    def __init__(self):
        self.found = []

    def visit_Compare(self, node):
        if len(node.ops) == 1 and isinstance(node.ops[0], ast.In) and isinstance(node.comparators[0], ast.Tuple) \
                and all(isinstance(e, ast.Constant) and isinstance(e.value, str) for e in node.comparators[0].elts):
            self.found.append([e.value for e in node.comparators[0].elts])
            node.comparators = [ast.Name(id='_LIST_', ctx=ast.Load())]
        return self.generic_visit(node)

    def visit_Call(self, node):
        if isinstance(node.func, ast.Attribute) and node.func.attr == 'startswith' and len(node.args) == 1 \
                and isinstance(node.args[0], ast.Constant) and isinstance(node.args[0].value, str):
            self.found.append(node.args[0].value)
            node.args = [ast.Name(id='_PREFIX_', ctx=ast.Load())]
        return self.generic_visit(node)

    def visit_Name(self, node):
        if node.id in ('_A_', '_B_'):
            return ast.Name(id='_PREFIX_', ctx=ast.Load())
        if node.id in ('_C_', '_D_'):
            return ast.Name(id='_LIST_', ctx=ast.Load())
        return node


def _body_dump(stmts, abstract=False):
    stmts = [st for st in stmts if not (isinstance(st, ast.Expr) and isinstance(st.value, ast.Constant))]
    found = None
    if abstract:
        ab = _Abstract()
        stmts = [ab.visit(st) for st in stmts]
        found = ab.found
    return '\n'.join(ast.dump(st) for st in stmts), found


def pins_rule(classes, cname):
    """(rule name, transistor parameters or None) of the `pins` property that applies to class `cname`"""
    import copy
    c = classes.get(cname)
    seen = 0
    while c is not None and seen < 50:
        if 'pins' in c.attrs:
            return 'literal', None
        if c.pins_fn is not None:
            fn = copy.deepcopy(c.pins_fn)
            dump, _ = _body_dump(fn.body)
            for name, src in PINS_TEMPLATES.items():
                if dump == _body_dump(ast.parse(src).body)[0]:
                    return name, None
            dump, found = _body_dump(copy.deepcopy(c.pins_fn).body, abstract=True)
            tdump, _ = _body_dump(ast.parse(TRANSISTOR_TEMPLATE).body, abstract=True)
            if dump == tdump and len(found) == 4 and isinstance(found[0], str) and isinstance(found[1], str):
                return 'transistor', {'prefixes': [found[0], found[1]], 'pclasses': found[2], 'pkinds': found[3]}
            raise Unparsed('%s.pins: property body not understood (defined in %s)' % (cname, c.name))
        c = classes.get(c.base) if c.base else None
        seen += 1
    return 'literal', None


NORMALISE = "angle = (angle + 180) % 360 - 180"


def rotation_table(repo, unparsed):
    """Cpt.R: the `Rdict` literal and whether the angle is normalised into [-180, 180) before the lookup"""
    path = os.path.join(repo, 'lcapy', 'schematics/components/cpt.py')
    rows, norm = [], False
    try:
        with warnings.catch_warnings():
            warnings.simplefilter('ignore')
            tree = ast.parse(open(path).read())
        cpt = [n for n in tree.body if isinstance(n, ast.ClassDef) and n.name == 'Cpt'][0]
        fn = [n for n in cpt.body if isinstance(n, ast.FunctionDef) and n.name == 'R'][0]
        body = [st for st in fn.body if not (isinstance(st, ast.Expr) and isinstance(st.value, ast.Constant))]
        want_first = ast.dump(ast.parse("angle = self.angle + angle_offset").body[0])
        want_norm = ast.dump(ast.parse(NORMALISE).body[0])
        want_if = ast.dump(ast.parse("if angle in Rdict:\n    return array(Rdict[angle])").body[0])
        if ast.dump(body[0]) != want_first:
            raise Unparsed('Cpt.R: first statement')
        rest = body[1:]
        seen_dict = False
        seen_if = False
        for st in rest:
            d = ast.dump(st)
            if d == want_norm and not seen_if:
                norm = True
            elif isinstance(st, ast.Assign) and isinstance(st.targets[0], ast.Name) and st.targets[0].id == 'Rdict':
                for k, v in ev(st.value, {}):
                    (a, b), (c, dd) = v
                    rows.append((int(k), int(a), int(b), int(c), int(dd)))
                seen_dict = True
            elif d == want_if:
                seen_if = True
            elif seen_dict and isinstance(st, (ast.Assign, ast.Return)) and 'angle' not in [t.id for t in getattr(st, 'targets', []) if isinstance(t, ast.Name)]:
                pass      # the cos/sin fallback: t = angle / 180.0 * pi; return array(...)
            else:
                raise Unparsed('Cpt.R: statement at line %d' % st.lineno)
    except (Unparsed, IndexError, ValueError, TypeError, UnboundLocalError) as e:
        unparsed.append('Cpt.R: %s' % e)
        rows, norm = [], False
    return rows, norm


# --------------------------------------------------------------------------- fingerprints of hand-modelled functions
# The resolver / graph builder / graph placer are HAND models (lean/Lcapy/Model/Layout.lean, LayoutPlacer.lean).  Their tie
# to the source is the run-time correspondence; in addition the source text of every function they mirror is
# fingerprinted (sha256 of the AST without docstrings), so that an edit of any of them is reported as a broken tie even
# if no generated input happens to exercise it.  `python3 tx_layout.py --fingerprints` prints the current values.
MODELLED = {
    'schematics/components/cpt.py': {'Cpt': ['size', 'scale', 'angle', 'stretch', 'fixed', 'free', 'ignore', 'offset', 'mirror', 'invert',
                                              'flipud', 'fliplr', 'mirrorinputs', 'boolattr', 'kind', 'w', 'h', 'aspect', 'right', 'left',
                                              'up', 'down', 'required_node_names', 'nodes', 'required_pins', 'coords', 'scales',
                                              'tcoords', 'xvals', 'yvals', 'tf', 'R', 'implicit_key', 'process_implicit_nodes']},
    'schematics/components/fixedcpt.py': {'FixedCpt': ['tf']},
    'schematics/components/transistor.py': {'Transistor': ['pins']},
    'schematic.py': {'Schematic': ['_cpt_add', '_node_add', 'make_graphs', '_positions_calculate']},
    'schemplacerbase.py': {'SchemPlacerBase': ['_xlink', '_ylink', '_place', '_xplace', '_yplace', '_make_graphs', 'solve']},
    'schemgraph.py': {'Gnode': ['add_fedge', 'add_redge'],
                      'GraphPath': ['dist', 'stretches', 'to_gnode', 'from_gnode'],
                      'Graph': ['add', 'add_node', 'add_edges', 'add_start_nodes', 'assign_fixed1', 'assign_fixed', 'assign_stretchy1',
                                'assign_stretchy', 'assign_longest', 'prune', 'solve', 'longest_path', 'makepath',
                                'path_to_closest_known', 'check_positions']},
    'cnodes.py': {'Cnodes': ['__init__', 'link']},
    'schemnode.py': {'Node': ['append', 'count', 'split']},
    'opts.py': {'Opts': ['add']},
}

# statement of Schematic.draw that the model mirrors (`Netlist.drawKeys`)
DRAW_OVERRIDE = """
for elt in self.elements.values():
    for key in list(elt.opts):
        if key in kwargs and key != 'style':
            elt.opts.remove(key)
"""

EXPECTED_FINGERPRINTS = {'cnodes.py:Cnodes.__init__': 'd50cbb184ffa54ce',
 'cnodes.py:Cnodes.link': 'cd0c9771c9d09fe2',
 'opts.py:Opts.add': '9864dae668c4990c',
 'schematic.py:Schematic._cpt_add': '3a175cebfb32ef1a',
 'schematic.py:Schematic._node_add': 'a4ae181ca19fb96c',
 'schematic.py:Schematic._positions_calculate': '65b6f4c9d2e76fc1',
 'schematic.py:Schematic.draw[option override loop]': 'present',
 'schematic.py:Schematic.make_graphs': '670851cc3b6efd94',
 'schematics/components/cpt.py:Cpt.R': 'ea69fc610118fe6e',
 'schematics/components/cpt.py:Cpt.angle': 'a328e030c0e777a6',
 'schematics/components/cpt.py:Cpt.aspect': 'f04b9e2085f7104c',
 'schematics/components/cpt.py:Cpt.boolattr': 'bb092211492f5cdf',
 'schematics/components/cpt.py:Cpt.coords': '2dabc5f1a98dc751',
 'schematics/components/cpt.py:Cpt.down': '777fe1301db82313',
 'schematics/components/cpt.py:Cpt.fixed': 'c1158c08cfb60eb9',
 'schematics/components/cpt.py:Cpt.fliplr': 'e694b68a4dbf5d94',
 'schematics/components/cpt.py:Cpt.flipud': 'da26124f08420e12',
 'schematics/components/cpt.py:Cpt.free': '0fa177ed7a6d82a0',
 'schematics/components/cpt.py:Cpt.h': 'f2e64158e9e558ac',
 'schematics/components/cpt.py:Cpt.ignore': 'dfc57a219de4e3e0',
 'schematics/components/cpt.py:Cpt.implicit_key': '5a97873ceba56059',
 'schematics/components/cpt.py:Cpt.invert': 'bb50a2a02b429609',
 'schematics/components/cpt.py:Cpt.kind': '9a7b613a0753bb7c',
 'schematics/components/cpt.py:Cpt.left': '1efbc8e1f7a05930',
 'schematics/components/cpt.py:Cpt.mirror': '5389c67bc79bbf1d',
 'schematics/components/cpt.py:Cpt.mirrorinputs': 'bb2697ae609f7de1',
 'schematics/components/cpt.py:Cpt.nodes': '086ec928f5409ca5',
 'schematics/components/cpt.py:Cpt.offset': 'a82a881e162e4816',
 'schematics/components/cpt.py:Cpt.process_implicit_nodes': 'e179961880e99120',
 'schematics/components/cpt.py:Cpt.required_node_names': 'f496b4c19c6ebc3b',
 'schematics/components/cpt.py:Cpt.required_pins': 'f218ac665f1b3820',
 'schematics/components/cpt.py:Cpt.right': '182b0ab81796a598',
 'schematics/components/cpt.py:Cpt.scale': '9ab5309bd1156928',
 'schematics/components/cpt.py:Cpt.scales': 'a5a9bc35f5994f59',
 'schematics/components/cpt.py:Cpt.size': 'e0be55e2df02773d',
 'schematics/components/cpt.py:Cpt.stretch': '943ce129b02ab92b',
 'schematics/components/cpt.py:Cpt.tcoords': 'cead142786aaf464',
 'schematics/components/cpt.py:Cpt.tf': '956ae3581b69593c',
 'schematics/components/cpt.py:Cpt.up': 'cc8c9049eaa1e8d8',
 'schematics/components/cpt.py:Cpt.w': 'b3f6b9c6d2ffa087',
 'schematics/components/cpt.py:Cpt.xvals': '5c2ae34eba9a7800',
 'schematics/components/cpt.py:Cpt.yvals': '0ade6907660f2fb1',
 'schematics/components/fixedcpt.py:FixedCpt.tf': '912b73d9813fc423',
 'schematics/components/transistor.py:Transistor.pins': 'd405bcf4d7bc41cb',
 'schemgraph.py:Gnode.add_fedge': '14a6cc7483e3facc',
 'schemgraph.py:Gnode.add_redge': 'bf1e1fc4925bd0e1',
 'schemgraph.py:Graph.add': '12db3ab9cc46995b',
 'schemgraph.py:Graph.add_edges': '1df0700c921b1d1e',
 'schemgraph.py:Graph.add_node': '620876998f0569bf',
 'schemgraph.py:Graph.add_start_nodes': '04d9831a13b87525',
 'schemgraph.py:Graph.assign_fixed': '600ca13b8fa1c282',
 'schemgraph.py:Graph.assign_fixed1': '585f994c860f8b6a',
 'schemgraph.py:Graph.assign_longest': '03cb82157d7a33e4',
 'schemgraph.py:Graph.assign_stretchy': '9343ac60c6a61442',
 'schemgraph.py:Graph.assign_stretchy1': 'd4f2d2ab335f0244',
 'schemgraph.py:Graph.check_positions': '7d0b77f8add5c3b2',
 'schemgraph.py:Graph.longest_path': 'cb3dc7a83359a74e',
 'schemgraph.py:Graph.makepath': 'c28f0818128d1833',
 'schemgraph.py:Graph.path_to_closest_known': 'ad28e9e1d90d8175',
 'schemgraph.py:Graph.prune': '682711fe012e2de6',
 'schemgraph.py:Graph.solve': 'f838a97cd77b5ece',
 'schemgraph.py:GraphPath.dist': '3953297acdf86bf5',
 'schemgraph.py:GraphPath.from_gnode': '0b7f09334f147fe6',
 'schemgraph.py:GraphPath.stretches': '6a3c16555eea1b63',
 'schemgraph.py:GraphPath.to_gnode': '9fc5c9b933ddcba7',
 'schemnode.py:Node.append': 'ae43885de5171fd0',
 'schemnode.py:Node.count': '8cc002f94a638e6b',
 'schemnode.py:Node.split': '0bbf86e99a8aa68c',
 'schemplacerbase.py:SchemPlacerBase._make_graphs': 'ba44b240aec0b551',
 'schemplacerbase.py:SchemPlacerBase._place': '225acd1a0053209d',
 'schemplacerbase.py:SchemPlacerBase._xlink': '436dabb1f1f84fd5',
 'schemplacerbase.py:SchemPlacerBase._xplace': 'd2841276cd7d577f',
 'schemplacerbase.py:SchemPlacerBase._ylink': '92c789092119fd34',
 'schemplacerbase.py:SchemPlacerBase._yplace': 'd6f3ca7812c4ff70',
 'schemplacerbase.py:SchemPlacerBase.solve': '48de93395a683e0b'}      # generated by `--fingerprints` on the source the models were written for


def _strip_doc(fn):
    import copy
    fn = copy.deepcopy(fn)
    if fn.body and isinstance(fn.body[0], ast.Expr) and isinstance(fn.body[0].value, ast.Constant) and isinstance(fn.body[0].value.value, str):
        fn.body = fn.body[1:] or [ast.Pass()]
    for n in ast.walk(fn):
        for a in ('lineno', 'col_offset', 'end_lineno', 'end_col_offset'):
            if hasattr(n, a):
                setattr(n, a, 0)
    return fn


def fingerprints(repo):
    """{'file:Class.func': sha256[:16]} of every hand-modelled function, plus the draw-override statement"""
    import hashlib
    out = {}
    for rel, cls in MODELLED.items():
        path = os.path.join(repo, 'lcapy', rel)
        try:
            with warnings.catch_warnings():
                warnings.simplefilter('ignore')
                tree = ast.parse(open(path).read())
        except OSError:
            for c, fns in cls.items():
                for f in fns:
                    out['%s:%s.%s' % (rel, c, f)] = 'missing-file'
            continue
        defs = {n.name: n for n in tree.body if isinstance(n, ast.ClassDef)}
        for c, fns in cls.items():
            body = {n.name: n for n in defs[c].body if isinstance(n, ast.FunctionDef)} if c in defs else {}
            # a property and its setter share a name: keep the first definition (the getter)
            seen = {}
            if c in defs:
                for n in defs[c].body:
                    if isinstance(n, ast.FunctionDef) and n.name not in seen:
                        seen[n.name] = n
            for f in fns:
                if f not in seen:
                    out['%s:%s.%s' % (rel, c, f)] = 'missing'
                else:
                    out['%s:%s.%s' % (rel, c, f)] = hashlib.sha256(ast.dump(_strip_doc(seen[f])).encode()).hexdigest()[:16]
    # Schematic.draw: the override loop must be present verbatim
    try:
        with warnings.catch_warnings():
            warnings.simplefilter('ignore')
            tree = ast.parse(open(os.path.join(repo, 'lcapy', 'schematic.py')).read())
        sch = [n for n in tree.body if isinstance(n, ast.ClassDef) and n.name == 'Schematic'][0]
        draw = [n for n in sch.body if isinstance(n, ast.FunctionDef) and n.name == 'draw'][0]
        want = ast.dump(ast.parse(DRAW_OVERRIDE).body[0])
        out['schematic.py:Schematic.draw[option override loop]'] = 'present' if any(ast.dump(st) == want for st in draw.body) else 'absent'
    except (OSError, IndexError):
        out['schematic.py:Schematic.draw[option override loop]'] = 'missing'
    return out


def generate(repo):
    classes, order, unparsed = collect(repo)
    fp = fingerprints(repo)
    for k in sorted(set(fp) | set(EXPECTED_FINGERPRINTS)):
        if fp.get(k) != EXPECTED_FINGERPRINTS.get(k):
            unparsed.append('hand-modelled source changed: %s (fingerprint %s, model written for %s)' % (k, fp.get(k), EXPECTED_FINGERPRINTS.get(k)))
    rot_rows, rot_norm = rotation_table(repo, unparsed)
    rows = []
    emitted = []
    transistor = {}
    for cname in order:
        ci = classes[cname]
        # only component classes (those deriving from Cpt)
        chain = []
        c = ci
        while c is not None and len(chain) < 50:
            chain.append(c.name)
            c = classes.get(c.base) if c.base else None
        if 'Cpt' not in chain:
            continue
        try:
            vals = {}
            for a in ATTRS:
                vals[a] = resolve(classes, cname, a)
            pins, pins_prop = vals['pins']
            literal = True
            rule, tpar = pins_rule(classes, cname)
            if tpar is not None:
                if transistor.setdefault('par', tpar) != tpar:
                    raise Unparsed('two different Transistor.pins parameter sets')
            variants = []
            if pins_prop:
                literal = False
                pins, p2 = vals['normal_pins']
                if pins is None:
                    if cname in ('Transistor',):
                        continue          # abstract base: no pin table of its own
                    raise Unparsed('pins is a property and there is no normal_pins')
                for va in VARIANT_ATTRS:
                    vp, _ = resolve(classes, cname, va)
                    if vp is not None:
                        variants.append((va, vp))
            if pins is None:
                pins = []
            aux, _ = vals['auxiliary']
            aux = list(aux or [])
            # `auxiliary.update(X.auxiliary)` statements of the class that defines `auxiliary`
            c = ci
            while c is not None:
                if 'auxiliary' in c.attrs:
                    for other in c.attrs.get('_aux_update', []):
                        o, _ = resolve(classes, other, 'auxiliary')
                        aux = dict_update(aux, o or [])
                    break
                c = classes.get(c.base) if c.base else None
            w, w_prop = vals['w']
            if w_prop or w is None:
                w = Fraction(1)           # Cpt.w property returns 1.0
            npn, _ = vals['node_pinnames']
            ra, _ = vals['required_auxiliary']
            al, _ = vals['aliases']
            dw, _ = vals['default_width']
            da, _ = vals['default_aspect']
            ss, _ = vals['shape_scale']

            def flag(a):
                v, isprop = vals[a]
                if isprop:
                    raise Unparsed('%s is a property' % a)
                return bool(v)
            allpins = dict_update(pins, aux)    # allpins = pins.copy(); allpins.update(auxiliary)
            dp, _ = vals['default_pins']
            vtext = ', '.join('(%s, %s, [%s])' % (lean_str(va), pin_rows(dict_update(vp, aux)), ', '.join(lean_str(k) for k, _ in vp))
                              for va, vp in variants)
            row = ('{\n    nodePinnames := [%s],\n    pins := %s,\n    pinOrder := [%s], aux := [%s], requiredAux := [%s],\n'
                   '    aliases := [%s],\n    canStretch := %s, canScale := %s, doTranspose := %s, place := %s, directive := %s,\n'
                   '    defaultWidth := %s, defaultAspect := %s, shapeScale := %s, w := %s, pinsLiteral := %s, hasDefaultPins := %s,\n'
                   '    pinsRule := %s, variants := [%s] }') % (
                ', '.join(lean_str(s) for s in (npn or ())),
                pin_rows(allpins), ', '.join(lean_str(k) for k, _ in pins), ', '.join(lean_str(k) for k, _ in aux),
                ', '.join(lean_str(s) for s in (ra or ())),
                ', '.join('(%s, %s)' % (lean_str(k), lean_str(v)) for k, v in (al or [])),
                lean_bool(flag('can_stretch')), lean_bool(flag('can_scale')), lean_bool(flag('do_transpose')),
                lean_bool(flag('place')), lean_bool(flag('directive')),
                lean_rat(dw), lean_rat(da), lean_rat(ss), lean_rat(w), lean_bool(literal), lean_bool(bool(dp)),
                lean_str(rule), vtext)
            rows.append((cname, row))
            emitted.append(cname)
        except Unparsed as e:
            unparsed.append('%s: %s' % (cname, e))
    # implicit-node keys (Cpt.implicit_key / process_implicit_nodes)
    keys = {}
    try:
        cpt = classes['Cpt']
        for nm in ('ground_keys', 'supply_positive_keys', 'supply_negative_keys', 'connection_keys'):
            v = cpt.attrs.get(nm)
            if not (isinstance(v, tuple) and all(isinstance(x, str) for x in v)):
                raise Unparsed('Cpt.%s' % nm)
            keys[nm] = list(v)
        path = os.path.join(repo, 'lcapy', 'schematics/components/cpt.py')
        with warnings.catch_warnings():
            warnings.simplefilter('ignore')
            tree = ast.parse(open(path).read())
        cdef = [n for n in tree.body if isinstance(n, ast.ClassDef) and n.name == 'Cpt'][0]
        want = {'supply_keys': "supply_keys = supply_positive_keys + supply_negative_keys",
                'implicit_keys': "implicit_keys = ('implicit', ) + ground_keys + supply_keys"}
        for st in cdef.body:
            if isinstance(st, ast.Assign) and isinstance(st.targets[0], ast.Name) and st.targets[0].id in want:
                if ast.dump(st) != ast.dump(ast.parse(want[st.targets[0].id]).body[0]):
                    raise Unparsed('Cpt.%s is not %s' % (st.targets[0].id, want[st.targets[0].id]))
                want.pop(st.targets[0].id)
        if want:
            raise Unparsed('Cpt: %s not found' % sorted(want))
        fn = [n for n in cdef.body if isinstance(n, ast.FunctionDef) and n.name == 'implicit_key'][0]
        if 'self.implicit_keys + self.connection_keys' not in ast.unparse(fn):
            raise Unparsed('Cpt.implicit_key does not scan implicit_keys + connection_keys')
    except (Unparsed, IndexError, KeyError) as e:
        unparsed.append('implicit keys: %s' % e)
        keys = {'ground_keys': [], 'supply_positive_keys': [], 'supply_negative_keys': [], 'connection_keys': []}
    groups = []
    for cname, row in rows:
        for g in groups:
            if g[1] == row:
                g[0].append(cname)
                break
        else:
            groups.append(([cname], row))
    grouped = ['  ([%s],\n   %s)' % (', '.join(lean_str(c) for c in names), row) for names, row in groups]
    text = ('/- GENERATED by harness/translate/tx_layout.py from /repo/lcapy/schemcpts.py and\n'
            '   /repo/lcapy/schematics/components/*.py -- do not edit.  One row per schematic component class:\n'
            '   the class attributes read by the placement code (Cpt.size/tcoords/scales, SchemPlacerBase). -/\n'
            'import Lcapy.Model.LayoutTypes\n'
            'namespace Lcapy.Layout.Gen\nopen Lcapy.Layout\n\n'
            '/-- (class names sharing the row, row) -/\n'
            'def table : List (List String × ClassRow) := [\n' + ',\n'.join(grouped) + '\n]\n\n'
            '/-- Cpt.R: `Rdict` as (angle, a, b, c, d) for the matrix ((a, b), (c, d)) -/\n'
            'def rotTable : List (Int × Int × Int × Int × Int) := [%s]\n\n'
            '/-- Cpt.R normalises the angle with `%s` before the lookup -/\n'
            'def rotNormalise : Bool := %s\n\n'
            '/-- Transistor.pins: kinds with these prefixes use the `*_pins2` tables -/\n'
            'def transistorPins2Prefixes : List String := [%s]\n'
            '/-- Transistor.pins: class names / kinds of the P-type devices (drawn with `mirror` reversed) -/\n'
            'def transistorPClasses : List String := [%s]\n'
            'def transistorPKinds : List String := [%s]\n\n'
            '/-- Cpt.implicit_keys = (\'implicit\',) + ground_keys + supply_positive_keys + supply_negative_keys -/\n'
            'def implicitKeys : List String := [%s]\n'
            'def supplyPositiveKeys : List String := [%s]\n'
            'def connectionKeys : List String := [%s]\n\nend Lcapy.Layout.Gen\n'
            % (', '.join('(%d, %d, %d, %d, %d)' % r for r in rot_rows), NORMALISE, lean_bool(rot_norm),
               ', '.join(lean_str(x) for x in transistor.get('par', {}).get('prefixes', [])),
               ', '.join(lean_str(x) for x in transistor.get('par', {}).get('pclasses', [])),
               ', '.join(lean_str(x) for x in transistor.get('par', {}).get('pkinds', [])),
               ', '.join(lean_str(x) for x in ['implicit'] + keys['ground_keys'] + keys['supply_positive_keys'] + keys['supply_negative_keys']),
               ', '.join(lean_str(x) for x in keys['supply_positive_keys']),
               ', '.join(lean_str(x) for x in keys['connection_keys'])))
    return text, {'classes': emitted, 'unparsed': unparsed, 'rot_keys': [r[0] for r in rot_rows], 'rot_normalise': rot_norm}


if __name__ == '__main__':
    import sys
    if '--fingerprints' in sys.argv:
        import pprint
        pprint.pprint(fingerprints([a for a in sys.argv[1:] if not a.startswith('--')][0] if len(sys.argv) > 2 else '/repo'), width=150)
        sys.exit(0)
    t, info = generate(sys.argv[1] if len(sys.argv) > 1 else '/repo')
    print(t[:3000])
    print(len(info['classes']), 'classes;', 'unparsed:', info['unparsed'])
