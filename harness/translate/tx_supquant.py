"""tx_supquant: regenerate lean/Lcapy/Generated/QuantitiesSup.lean (property C18: Superposition operators,
phasor angular-frequency checks, sequences) from /repo's source text with `ast` (nothing executed except the
import-time lookup of the `domain` attribute of the classes named in classmap.py).

  lcapy/classmap.py            `domainmap = {domain: key}`  (which decomposition key a component of a domain gets)
                               `classmap  = {kind: Class}`  (which class a decomposition kind is rebuilt with)
  lcapy/superposition.py       Superposition.__add__: is the `x.quantity != self.quantity -> raise ValueError` test a
                               statement of the function body itself (not swallowed by a try/except)?  Is the
                               undefined -> quantity coercion there?  __sub__ = self + (-x)?  __eq__ through (self - x)?
  lcapy/superpositionvoltage.py / superpositioncurrent.py
                               _mul / _div: the quantity demanded of the operand (`if not x.is_admittance: raise`),
                               refusal of Superposition and time-domain operands, the class of the result
                               (`new = SuperpositionCurrent()`), and the per-key products
                               (`new += obj['dc'] * xs(0)`, `obj[key] * xs(j * obj[key].omega)`, `obj[key] * xs(omega)`,
                               `obj['s'] * xs`, `obj['t'] * x`)
  lcapy/phasor.py              PhasorExpression._compatible_phasors: statement order (domain test, omega equality,
                               zero escape, raise)
  lcapy/sequence.py, seq.py    (sequences carry the quantity/units of their elements: nothing table-like to translate;
                               checked by correspondence only)
"""
import ast
import os
import sys

from . import tx_tables

DOMAINS = tx_tables.DOMAINS


class Unparsed(Exception):
    pass


def fn_of(tree, cname, fname):
    for node in tree.body:
        if isinstance(node, ast.ClassDef) and node.name == cname:
            for f in node.body:
                if isinstance(f, ast.FunctionDef) and f.name == fname:
                    return f
    return None


def dict_literal(tree, name):
    for node in tree.body:
        if isinstance(node, ast.Assign) and len(node.targets) == 1 and getattr(node.targets[0], 'id', None) == name \
                and isinstance(node.value, ast.Dict):
            return node.value
    raise Unparsed('dict literal %s' % name)


def raises(stmts, exc):
    for st in stmts:
        if isinstance(st, ast.Raise) and st.exc is not None:
            f = st.exc.func if isinstance(st.exc, ast.Call) else st.exc
            if getattr(f, 'id', None) == exc:
                return True
    return False


def add_flags(f, unparsed):
    """structure of Superposition.__add__"""
    flags = {'supAddChecksQuantity': False, 'supAddCoercesUndefined': False}
    if f is None:
        unparsed.append({'item': 'Superposition.__add__', 'why': 'missing'})
        return flags
    for st in f.body:
        # the test must be a statement of the function body itself: a raise inside try/except-pass is swallowed
        if isinstance(st, ast.If) and 'x.quantity != self.quantity' in ast.unparse(st.test) and raises(st.body, 'ValueError'):
            flags['supAddChecksQuantity'] = True
    for sub in ast.walk(f):
        if isinstance(sub, ast.If) and 'x.is_undefined' in ast.unparse(sub.test) and 'as_quantity(self.quantity)' in ast.unparse(sub):
            flags['supAddCoercesUndefined'] = True
    return flags


ARGFORMS = {'xs(0)': 'atZero', 'xs': 'asLaplace', 'x': 'asIs', 'xs(omega)': 'atOmega'}


def mul_rows(f, cname, unparsed):
    """(demanded quantity, refuses superposition, refuses time domain, result class, [(key, argform)])"""
    need = None
    ref_sup = ref_time = False
    result = None
    rows = []
    for st in f.body:
        if isinstance(st, ast.If):
            t = ast.unparse(st.test)
            if t.startswith('not x.is_') and raises(st.body, 'TypeError'):
                need = t[len('not x.is_'):]
            elif 'isinstance(x, Superposition)' in t and raises(st.body, 'TypeError'):
                ref_sup = True
            elif t == 'x.is_time_domain' and raises(st.body, 'TypeError'):
                ref_time = True
        if isinstance(st, ast.Assign) and getattr(st.targets[0], 'id', None) == 'new' and isinstance(st.value, ast.Call):
            result = getattr(st.value.func, 'id', None)

    def product(aug):
        if not (isinstance(aug, ast.AugAssign) and isinstance(aug.op, ast.Add) and getattr(aug.target, 'id', None) == 'new'
                and isinstance(aug.value, ast.BinOp) and isinstance(aug.value.op, ast.Mult)):
            return None
        return ast.unparse(aug.value.left), ast.unparse(aug.value.right)
    for st in f.body:
        if isinstance(st, ast.If) and len(st.body) == 1 and product(st.body[0]):
            l, r = product(st.body[0])
            t = ast.unparse(st.test)
            for key in ('dc', 's', 't'):
                if t == "'%s' in obj" % key and l == "obj['%s']" % key:
                    if r not in ARGFORMS:
                        unparsed.append({'item': '%s._mul %s' % (cname, key), 'why': 'multiplier ' + r})
                    else:
                        rows.append((key, ARGFORMS[r]))
        if isinstance(st, ast.For) and len(st.body) == 1 and product(st.body[0]):
            l, r = product(st.body[0])
            it = ast.unparse(st.iter)
            if it == 'obj.ac_keys()' and l == 'obj[key]' and r == 'xs(j * obj[key].omega)':
                rows.append(('ac', 'atJOmega0'))
            elif it == 'obj.noise_keys()' and l == 'obj[key]' and r == 'xs(omega)':
                rows.append(('n', 'atOmega'))
            else:
                unparsed.append({'item': '%s._mul loop' % cname, 'why': '%s: %s * %s' % (it, l, r)})
    if need is None or result is None:
        unparsed.append({'item': '%s._mul' % cname, 'why': 'demanded quantity / result class not found'})
    return need, ref_sup, ref_time, result, rows


def div_need(f, cname, unparsed):
    need = None
    ref_sup = False
    via_mul = False
    for st in f.body:
        if isinstance(st, ast.If):
            t = ast.unparse(st.test)
            if t.startswith('not x.is_') and raises(st.body, 'TypeError'):
                need = t[len('not x.is_'):]
            elif 'isinstance(x, Superposition)' in t and raises(st.body, 'TypeError'):
                ref_sup = True
        if isinstance(st, ast.Return) and ast.unparse(st.value) in ('self * Y', 'self * Z'):
            via_mul = True
    if need is None or not via_mul:
        unparsed.append({'item': '%s._div' % cname, 'why': 'shape'})
    return need, ref_sup


def phasor_flags(f, unparsed):
    """_compatible_phasors: [domain test -> False, no omega -> True, equal omega -> True, zero -> True, raise]"""
    order = []
    if f is None:
        unparsed.append({'item': 'PhasorExpression._compatible_phasors', 'why': 'missing'})
        return {'phasorOmegaChecked': False, 'phasorZeroEscapes': False}
    for st in f.body:
        if isinstance(st, ast.If):
            t = ast.unparse(st.test)
            if 'self.domain != x.domain' in t:
                order.append('domain')
            elif "hasattr(x, 'omega')" in t:
                order.append('noomega')
            elif 'self.omega == x.omega' in t:
                order.append('equal')
            elif 'sympy == 0' in t:
                order.append('zero')
        elif isinstance(st, ast.Raise):
            order.append('raise')
    return {'phasorOmegaChecked': order[:1] == ['domain'] and 'equal' in order and order[-1:] == ['raise'],
            'phasorZeroEscapes': 'zero' in order and order.index('zero') < order.index('raise') if 'raise' in order else False,
            'order': order}


def generate(repo='/repo'):
    unparsed = []
    info = {'unparsed': unparsed}
    lc = os.path.join(repo, 'lcapy')
    if repo != '/repo' and repo not in sys.path:
        sys.path.insert(0, repo)
    import warnings
    warnings.filterwarnings('ignore')
    import importlib

    ctree = ast.parse(open(os.path.join(lc, 'classmap.py')).read())
    keys = []
    try:
        d = dict_literal(ctree, 'domainmap')
        for k, v in zip(d.keys, d.values):
            if k.value not in DOMAINS:
                unparsed.append({'item': 'domainmap', 'why': 'domain %r' % k.value})
                continue
            keys.append((k.value, v.value))
    except Unparsed as e:
        unparsed.append({'item': 'domainmap', 'why': str(e)})
    kinds = []
    try:
        d = dict_literal(ctree, 'classmap')
        cm = importlib.import_module('lcapy.classmap')
        for k, v in zip(d.keys, d.values):
            cls = getattr(cm, v.id, None)
            dom = getattr(cls, 'domain', None)
            if dom not in DOMAINS:
                unparsed.append({'item': 'classmap', 'why': '%s -> %s' % (k.value, v.id)})
                continue
            kinds.append((k.value, dom))
    except Unparsed as e:
        unparsed.append({'item': 'classmap', 'why': str(e)})

    stree = ast.parse(open(os.path.join(lc, 'superposition.py')).read())
    flags = add_flags(fn_of(stree, 'Superposition', '__add__'), unparsed)
    fsub = fn_of(stree, 'Superposition', '__sub__')
    flags['supSubIsAddNeg'] = bool(fsub) and any(isinstance(s, ast.Return) and ast.unparse(s.value) == 'self + -x' for s in fsub.body)
    feq = fn_of(stree, 'Superposition', '__eq__')
    flags['supEqThroughSub'] = bool(feq) and '(self - x)' in ast.unparse(feq)

    muls = []
    for fn, cname, q in (('superpositionvoltage.py', 'SuperpositionVoltage', 'voltage'),
                         ('superpositioncurrent.py', 'SuperpositionCurrent', 'current')):
        tree = ast.parse(open(os.path.join(lc, fn)).read())
        fm, fd = fn_of(tree, cname, '_mul'), fn_of(tree, cname, '_div')
        if fm is None or fd is None:
            unparsed.append({'item': cname, 'why': '_mul/_div missing'})
            continue
        need, ref_sup, ref_time, result, rows = mul_rows(fm, cname, unparsed)
        dneed, dref_sup = div_need(fd, cname, unparsed)
        resq = {'SuperpositionCurrent': 'current', 'SuperpositionVoltage': 'voltage'}.get(result)
        if need not in tx_tables.QUANTS or dneed not in tx_tables.QUANTS or resq is None:
            unparsed.append({'item': cname, 'why': 'need %s / %s, result %s' % (need, dneed, result)})
            continue
        muls.append({'q': q, 'mul_need': need, 'div_need': dneed, 'result': resq, 'refuses_sup': ref_sup and dref_sup,
                     'refuses_time': ref_time, 'rows': rows})

    ptree = ast.parse(open(os.path.join(lc, 'phasor.py')).read())
    pf = phasor_flags(fn_of(ptree, 'PhasorExpression', '_compatible_phasors'), unparsed)
    flags['phasorOmegaChecked'] = pf['phasorOmegaChecked']
    flags['phasorZeroEscapes'] = pf['phasorZeroEscapes']
    info.update({'keys': keys, 'kinds': kinds, 'flags': flags, 'muls': muls, 'phasor_order': pf.get('order')})

    def b(x):
        return 'true' if x else 'false'
    out = []
    w = out.append
    w('/- GENERATED by harness/translate/tx_supquant.py from /repo/lcapy (classmap.py, superposition.py,')
    w('   superpositionvoltage.py, superpositioncurrent.py, phasor.py) -- do not edit.  Rewritten on every run of ./vcheck C18. -/')
    w('import Lcapy.Model.QuantitiesSup')
    w('namespace Lcapy.Gen.QSup')
    w('open Lcapy.Dim Lcapy.QModel Lcapy.QSup')
    w('')
    w('/-- lcapy/classmap.py `domainmap`: the decomposition key a component of a domain is stored under -/')
    w('def domainKeys : List (Domain × String) := [')
    w(',\n'.join('  (.%s, "%s")' % (DOMAINS[d], k) for d, k in keys))
    w(']')
    w('')
    w('/-- lcapy/classmap.py `classmap`: the domain of the class a decomposition kind is rebuilt with -/')
    w('def kindDomains : List (String × Domain) := [')
    w(',\n'.join('  ("%s", .%s)' % (k, DOMAINS[d]) for k, d in kinds))
    w(']')
    w('')
    w('/-- superpositionvoltage.py / superpositioncurrent.py `_mul`, `_div` -/')
    w('def supMulTable : List SupMulRow := [')
    w(',\n'.join('  ⟨.%s, .%s, .%s, .%s, %s, %s, [%s]⟩' % (
        m['q'], m['mul_need'], m['div_need'], m['result'], b(m['refuses_sup']), b(m['refuses_time']),
        ', '.join('(.%s, .%s)' % (k if k != 't' else 't', a) for k, a in m['rows'])) for m in muls))
    w(']')
    w('')
    w('def supFlags : SupFlags :=')
    w('  { supAddChecksQuantity := %s, supAddCoercesUndefined := %s, supSubIsAddNeg := %s, supEqThroughSub := %s,' % tuple(
        b(flags[k]) for k in ('supAddChecksQuantity', 'supAddCoercesUndefined', 'supSubIsAddNeg', 'supEqThroughSub')))
    w('    phasorOmegaChecked := %s, phasorZeroEscapes := %s }' % (b(flags['phasorOmegaChecked']), b(flags['phasorZeroEscapes'])))
    w('')
    w('def supTables : SupTables := { keys := domainKeys, kinds := kindDomains, mul := supMulTable, flags := supFlags }')
    w('')
    w('end Lcapy.Gen.QSup')
    return '\n'.join(out) + '\n', info


if __name__ == '__main__':
    text, info = generate(sys.argv[1] if len(sys.argv) > 1 else '/repo')
    sys.stdout.write(text)
    sys.stderr.write('unparsed: %s\nflags: %s\n' % (info['unparsed'], info['flags']))
