"""tx_portops: regenerate lean/Lcapy/Generated/PortOps.lean from the SOURCE TEXT of /repo/lcapy/netlistopsmixin.py,
/repo/lcapy/netlist.py and /repo/lcapy/netlistmixin.py (Python `ast`; nothing is executed).

For each of the port operations of `NetlistOpsMixin`

    impedance admittance transfer voltage_gain transimpedance current_gain transadmittance Voc Isc

the GENERAL route (the statements after the optional ladder shortcut) is reduced to a record

    (name, nodes checked by `_check_nodes` in order, how the probed copy `new` is made and with which nodes,
     what is measured on it and between which nodes, whether the measurement is negated)

and for the helpers

    apply_test_current_source / apply_test_voltage_source : does it kill()? does it remove voltage sources across the
        port first? which node does `_add_ground` get? which test source is added, on which nodes?
    _add_test_voltage_source / _add_test_current_source   : component letter and waveform of the test source
    kill()  : with no arguments -> kill_except() ;  kill_except : 'ICs' is appended unless named -> `killNoArgsKillsICs`
    _add_ground(node) : does nothing when a node `0` exists, else adds `W node 0`

Props/C04Ops.lean proves `experiments_from_source` (each experiment of Model/PortOps.lean IS the one built by `interpRow` /
`buildExp` from the generated row) and `helpers_from_source` (the helpers do what `zProbe` / `vProbe` model).  A change of the
probing scheme in the code is a broken obligation.
"""
import ast
import os
import warnings


def _parse(repo, fname):
    with warnings.catch_warnings():
        warnings.simplefilter('ignore')
        return ast.parse(open(os.path.join(repo, 'lcapy', fname)).read())


def _method(tree, cname, mname):
    for node in tree.body:
        if isinstance(node, ast.ClassDef) and node.name == cname:
            for f in node.body:
                if isinstance(f, ast.FunctionDef) and f.name == mname:
                    return f
    return None


def _any_method(trees, mname):
    for tree in trees:
        for node in tree.body:
            if isinstance(node, ast.ClassDef):
                for f in node.body:
                    if isinstance(f, ast.FunctionDef) and f.name == mname:
                        return f
    return None


def _names(args):
    return [ast.unparse(a) for a in args]


def _strip(e):
    """remove `.laplace()`, `.sympy`, `(s)` wrappers and the quantity constructors around a measurement"""
    neg = False
    while True:
        if isinstance(e, ast.Call) and isinstance(e.func, ast.Name) and e.func.id in ('impedance', 'admittance', 'transfer', 'current') and len(e.args) == 1:
            e = e.args[0]
        elif isinstance(e, ast.Call) and isinstance(e.func, ast.Attribute) and e.func.attr in ('laplace',) and not e.args:
            e = e.func.value
        elif isinstance(e, ast.Attribute) and e.attr in ('sympy',):
            e = e.value
        elif isinstance(e, ast.UnaryOp) and isinstance(e.op, ast.USub):
            neg = not neg
            e = e.operand
        elif isinstance(e, ast.Call) and isinstance(e.func, ast.Name) and e.func.id == 'current_sign' and len(e.args) == 2:
            e = e.args[0]
        else:
            return neg, e


def op_record(f, unparsed):
    """reduce the general route of one port operation"""
    name = f.name
    body = [st for st in f.body if not isinstance(st, ast.Try) and not (isinstance(st, ast.Expr) and isinstance(st.value, ast.Constant))]
    env = {}            # local name -> expression it was assigned
    checked, made, made_args, meas, meas_nodes, neg = [], 'self', [], '?', [], False
    ret = None
    for st in body:
        if isinstance(st, ast.Assign) and len(st.targets) == 1:
            t, v = st.targets[0], st.value
            if isinstance(v, ast.Call) and isinstance(v.func, ast.Attribute) and v.func.attr == '_check_nodes':
                checked = _names(v.args)
                continue
            if isinstance(v, ast.Call) and isinstance(v.func, ast.Attribute) and v.func.attr.startswith('_parse_node_args'):
                continue
            if isinstance(t, ast.Name):
                env[t.id] = v
                if isinstance(v, ast.Call) and isinstance(v.func, ast.Attribute) and ast.unparse(v.func.value) in ('self', 'new') \
                        and v.func.attr in ('apply_test_current_source', 'apply_test_voltage_source', 'kill', 'copy'):
                    if t.id == 'new':
                        made, made_args = v.func.attr, _names(v.args)
                        if v.func.attr == 'kill':
                            made = 'kill(%s)' % ','.join(_names(v.args))
                if isinstance(v, ast.Call) and isinstance(v.func, ast.Attribute) and v.func.attr in ('_add_test_voltage_source', '_add_test_current_source'):
                    made = made + '+' + v.func.attr
                    made_args = _names(v.args)
        elif isinstance(st, ast.Expr) and isinstance(st.value, ast.Call) and isinstance(st.value.func, ast.Attribute):
            c = st.value
            if c.func.attr == '_add_ground':
                made = made + '+_add_ground(%s)' % ','.join(_names(c.args))
            elif c.func.attr == 'add' and c.args and isinstance(c.args[0], ast.BinOp):
                # new.add('Vshort_ %s %s step 0' % (Np, Nm))
                made = made + '+add'
            elif c.func.attr == 'remove':
                pass
        elif isinstance(st, ast.If):
            # Isc: `if new.is_causal: new.add('Vshort_ %s %s step 0' ...) else: new.add('Vshort_ %s %s 0' ...)`
            srcs = []
            for sub in ast.walk(st):
                if isinstance(sub, ast.Call) and isinstance(sub.func, ast.Attribute) and sub.func.attr == 'add' and sub.args \
                        and isinstance(sub.args[0], ast.BinOp) and isinstance(sub.args[0].left, ast.Constant):
                    srcs.append((sub.args[0].left.value, _names(sub.args[0].right.elts) if isinstance(sub.args[0].right, ast.Tuple) else []))
            if srcs:
                vals = {s_[0].split()[0] + ':' + s_[0].split()[-1] for s_ in srcs}
                made = made + '+add(' + '|'.join(sorted(vals)) + ')'
                made_args = srcs[0][1]
        elif isinstance(st, ast.Return):
            ret = st.value
    if ret is None:
        unparsed.append('%s: no return' % name)
        return None
    # follow local names
    e = ret
    for _ in range(6):
        n_, e2 = _strip(e)
        neg = neg != n_
        if isinstance(e2, ast.Name) and e2.id in env:
            e = env[e2.id]
        else:
            e = e2
            break
    if isinstance(e, ast.Call) and isinstance(e.func, ast.Attribute) and e.func.attr in ('Voc', 'Isc', '_get_Vd', 'get_I'):
        meas = e.func.attr
        meas_nodes = [a for a in _names(e.args)]
        for kw in e.keywords:
            pass
    elif isinstance(e, ast.Attribute) and e.attr == 'I' and isinstance(e.value, ast.Subscript):
        meas = 'I[' + ast.unparse(e.value.slice) + ']'
    else:
        unparsed.append('%s: measurement %s' % (name, ast.unparse(e)[:60]))
        meas = 'other:' + ast.unparse(e)[:40]
    return (name, checked, made, made_args, meas, meas_nodes, neg)


def helper_record(f, unparsed):
    """apply_test_current_source / apply_test_voltage_source"""
    kills = removes = False
    ground = source = ''
    src_args = []
    order = []
    for node in ast.walk(f):
        if isinstance(node, ast.Call) and isinstance(node.func, ast.Attribute):
            a = node.func.attr
            if a == 'kill' and not node.args:
                kills = True
                order.append('kill')
            elif a == 'remove':
                removes = True
            elif a == '_add_ground':
                ground = ','.join(_names(node.args))
                order.append('ground')
            elif a in ('_add_test_current_source', '_add_test_voltage_source'):
                source = a
                src_args = _names(node.args)
                order.append('source')
    if removes:
        # only voltage sources across the port are removed: `if self[name].is_voltage_source` inside `for name in self.across_nodes(Np, Nm)`
        txt = ast.unparse(f)
        if 'across_nodes(Np, Nm)' not in txt or 'is_voltage_source' not in txt:
            unparsed.append('%s: removal of components is not "voltage sources across (Np, Nm)"' % f.name)
    return (f.name, kills, removes, ground, source, src_args, order)


def lean_str_list(l):
    return '[' + ', '.join('"%s"' % x for x in l) + ']'


def generate(repo):
    unparsed = []
    ops_t = _parse(repo, 'netlistopsmixin.py')
    net_t = _parse(repo, 'netlist.py')
    mix_t = _parse(repo, 'netlistmixin.py')
    ops = []
    for nm in ('impedance', 'admittance', 'transfer', 'voltage_gain', 'transimpedance', 'current_gain', 'transadmittance', 'Isc'):
        f = _method(ops_t, 'NetlistOpsMixin', nm)
        if f is None:
            unparsed.append('NetlistOpsMixin.%s not found' % nm)
            continue
        r = op_record(f, unparsed)
        if r:
            ops.append(r)
    helpers = []
    for nm in ('apply_test_current_source', 'apply_test_voltage_source'):
        f = _any_method([net_t, mix_t, ops_t], nm)
        if f is None:
            unparsed.append('%s not found' % nm)
            continue
        helpers.append(helper_record(f, unparsed))
    tests = []
    for nm in ('_add_test_voltage_source', '_add_test_current_source'):
        f = _any_method([net_t, mix_t], nm)
        fmt = None
        if f is not None:
            for node in ast.walk(f):
                if isinstance(node, ast.BinOp) and isinstance(node.left, ast.Constant) and isinstance(node.left.value, str):
                    fmt = node.left.value
        if fmt is None:
            unparsed.append('%s: format string not found' % nm)
            fmt = '?'
        tests.append((nm, fmt))
    # kill() with no arguments
    kill_ics = False
    f_kill = _any_method([mix_t], 'kill')
    f_ke = _any_method([mix_t], 'kill_except')
    if f_kill is not None and f_ke is not None:
        t1 = ast.unparse(f_kill).replace(' ', '')
        t2 = ast.unparse(f_ke).replace(' ', '')
        kill_ics = ('iflen(args)==0:\n' in t1 and 'returnself.kill_except()' in t1
                    and "if'ICs'notinargs:\n" in t2 and "sources.append('ICs')" in t2)
    else:
        unparsed.append('kill / kill_except not found')
    # _kill: ICs branch kills components with initial conditions
    f_k = _any_method([mix_t], '_kill')
    kill_ic_branch = False
    if f_k is not None:
        t3 = ast.unparse(f_k).replace(' ', '')
        kill_ic_branch = "elif'ICs'insourcenamesandcpt.has_ic:\n" in t3 and 'net=cpt._kill()' in t3
    # _add_ground
    f_g = _any_method([net_t], '_add_ground')
    ground_form = '?'
    if f_g is not None:
        t4 = ast.unparse(f_g).replace(' ', '')
        if "if'0'inself.nodes:\n" in t4 and "returnNone" in t4 and "self.add('W%s0'%node)" in t4:
            ground_form = 'W node 0 unless 0 exists'
        else:
            unparsed.append('_add_ground: unexpected form')

    out = []
    out.append('/- GENERATED by harness/translate/tx_portops.py from lcapy/netlistopsmixin.py, lcapy/netlist.py and\n'
               '   lcapy/netlistmixin.py -- do not edit.  Regenerated from the source text of /repo on every run of `./vcheck C04`. -/')
    out.append('namespace Lcapy.Gen.PortOps')
    out.append('')
    out.append('/-- (operation, nodes passed to `_check_nodes`, how the probed copy is made, with which nodes,\n'
               '     what is measured, between which nodes, negated?) -/')
    out.append('def table : List (String × List String × String × List String × String × List String × Bool) :=')
    out.append('  [' + ',\n   '.join('("%s", %s, "%s", %s, "%s", %s, %s)' % (n, lean_str_list(c), m, lean_str_list(ma), me, lean_str_list(mn), 'true' if ng else 'false')
                                   for (n, c, m, ma, me, mn, ng) in ops) + ']')
    out.append('')
    out.append('/-- (helper, kills all sources and ICs?, removes voltage sources across the port first?, node given to `_add_ground`,\n'
               '     test source added, on which nodes, order of the steps) -/')
    out.append('def helpers : List (String × Bool × Bool × String × String × List String × List String) :=')
    out.append('  [' + ',\n   '.join('("%s", %s, %s, "%s", "%s", %s, %s)' % (n, 'true' if k else 'false', 'true' if r else 'false', g, s_, lean_str_list(sa), lean_str_list(o))
                                   for (n, k, r, g, s_, sa, o) in helpers) + ']')
    out.append('')
    out.append('/-- the test sources: netlist line formats -/')
    out.append('def testSources : List (String × String) :=\n  [' + ', '.join('("%s", "%s")' % t for t in tests) + ']')
    out.append('')
    out.append('/-- `kill()` without arguments is `kill_except()`, which appends \'ICs\' to the killed names -/')
    out.append('def killNoArgsKillsICs : Bool := %s' % ('true' if kill_ics else 'false'))
    out.append('/-- `_kill`: a component with an initial condition is killed when \'ICs\' is among the names -/')
    out.append('def killICBranch : Bool := %s' % ('true' if kill_ic_branch else 'false'))
    out.append('/-- `_add_ground(node)` -/')
    out.append('def addGround : String := "%s"' % ground_form)
    out.append('')
    out.append('end Lcapy.Gen.PortOps')
    info = {'unparsed': unparsed, 'ops': ops, 'helpers': helpers, 'tests': tests, 'killNoArgsKillsICs': kill_ics,
            'killICBranch': kill_ic_branch, 'addGround': ground_form}
    return '\n'.join(out) + '\n', info


if __name__ == '__main__':
    import sys
    text, info = generate(sys.argv[1] if len(sys.argv) > 1 else '/repo')
    print(text)
    print(info['unparsed'])
