"""C17 translator, part 2: lcapy/simulator.py (companion formulas geq/veq of the four Simulated* classes, the step size
used by Simulator._step, the entries SimulatedComponent.stamp adds) and lcapy/sexpr.py (_response_impulse_invariance: at
which times the kernel is sampled, the scale of the convolution) -> lean/Lcapy/Generated/SimCompanion.lean.

Pure `ast` reading of the source text: nothing of the modelled logic is executed.  Anything outside the small fragment
understood here is recorded as `unparsed` and replaced by the hand-written definition (FALLBACK), with `parsed_<x> := false`;
the item is then vouched for by the correspondence run only.
"""
import ast
import os

CLASSES = [('CapacitorTrapezoid', 'SimulatedCapacitorTrapezoid'), ('InductorTrapezoid', 'SimulatedInductorTrapezoid'),
           ('CapacitorBackwardEuler', 'SimulatedCapacitorBackwardEuler'), ('InductorBackwardEuler', 'SimulatedInductorBackwardEuler')]

FALLBACK = {
    'geq_CapacitorTrapezoid': '((2 * val) / dt)',
    'veq_CapacitorTrapezoid': '(v + (i / ((2 * val) / dt)))',
    'geq_InductorTrapezoid': '(dt / (2 * val))',
    'veq_InductorTrapezoid': '((-v) - (i / (dt / (2 * val))))',
    'geq_CapacitorBackwardEuler': '(val / dt)',
    'veq_CapacitorBackwardEuler': 'v',
    'geq_InductorBackwardEuler': '(dt / val)',
    'veq_InductorBackwardEuler': '((-i) / (dt / val))',
    'stepDt': '(tcur - tprev)',
    'stampA': '[(n1, n2, -geq), (n2, n1, -geq), (n1, n1, geq), (n2, n2, geq)]',
    'stampZ': '[(m, veq)]',
    'iiKernelTimes': 'lagTimes tv.length dt',
    'iiScale': 'dt',
}


class Unparsed(Exception):
    pass


def is_nm1(node):
    """`n - 1`"""
    return isinstance(node, ast.BinOp) and isinstance(node.op, ast.Sub) and isinstance(node.left, ast.Name) and node.left.id == 'n' \
        and isinstance(node.right, ast.Constant) and node.right.value == 1


def prev_sample(node, name):
    """`name[n - 1]`"""
    return isinstance(node, ast.Subscript) and isinstance(node.value, ast.Name) and node.value.id == name and is_nm1(node.slice)


def tr_companion(node, env):
    """expression of a geq/veq body -> Lean text over (val dt v i)"""
    if isinstance(node, ast.Constant) and isinstance(node.value, int) and node.value in (0, 1, 2):
        return str(node.value)
    if isinstance(node, ast.Name):
        if node.id in env:
            return env[node.id]
        if node.id == 'dt':
            return 'dt'
        raise Unparsed('name ' + node.id)
    if isinstance(node, ast.Attribute) and isinstance(node.value, ast.Name) and node.value.id == 'self' and node.attr in ('Cval', 'Lval'):
        return 'val'
    if prev_sample(node, 'i'):
        return 'i'
    if isinstance(node, ast.BinOp):
        # the state voltage `v1[n - 1] - v2[n - 1]`
        if isinstance(node.op, ast.Sub) and prev_sample(node.left, 'v1') and prev_sample(node.right, 'v2'):
            return 'v'
        op = {ast.Add: '+', ast.Sub: '-', ast.Mult: '*', ast.Div: '/'}.get(type(node.op))
        if op is None:
            raise Unparsed('operator ' + type(node.op).__name__)
        return '(%s %s %s)' % (tr_companion(node.left, env), op, tr_companion(node.right, env))
    if isinstance(node, ast.UnaryOp) and isinstance(node.op, ast.USub):
        return '(-%s)' % tr_companion(node.operand, env)
    raise Unparsed(ast.dump(node)[:60])


def tr_method(fn):
    """body of geq/veq: optional `if n < 1: return 0` guard (n >= 1 in Simulator._step: pruned), local assignments, return"""
    env = {}
    pruned = []
    for st in fn.body:
        if isinstance(st, ast.Expr) and isinstance(st.value, ast.Constant):
            continue      # docstring
        if isinstance(st, ast.If):
            t = st.test
            if (isinstance(t, ast.Compare) and isinstance(t.left, ast.Name) and t.left.id == 'n' and len(t.ops) == 1 and
                    isinstance(t.ops[0], ast.Lt) and isinstance(t.comparators[0], ast.Constant) and t.comparators[0].value == 1 and
                    len(st.body) == 1 and isinstance(st.body[0], ast.Return) and not st.orelse):
                pruned.append('n < 1')
                continue
            raise Unparsed('if')
        if isinstance(st, ast.Assign) and len(st.targets) == 1 and isinstance(st.targets[0], ast.Name):
            env[st.targets[0].id] = tr_companion(st.value, env)
            continue
        if isinstance(st, ast.Return):
            return tr_companion(st.value, env), pruned
        raise Unparsed(type(st).__name__)
    raise Unparsed('no return')


def tv_index(node):
    """tv[<k>] -> one of tcur tprev t1 t0"""
    if isinstance(node, ast.Subscript) and isinstance(node.value, ast.Name) and node.value.id == 'tv':
        k = node.slice
        if isinstance(k, ast.Name) and k.id == 'n':
            return 'tcur'
        if is_nm1(k):
            return 'tprev'
        if isinstance(k, ast.Constant) and k.value == 1:
            return 't1'
        if isinstance(k, ast.Constant) and k.value == 0:
            return 't0'
    return None


def tr_dt(node, selfdt):
    t = tv_index(node)
    if t:
        return t
    if isinstance(node, ast.BinOp) and isinstance(node.op, (ast.Sub, ast.Add, ast.Mult, ast.Div)):
        op = {ast.Add: '+', ast.Sub: '-', ast.Mult: '*', ast.Div: '/'}[type(node.op)]
        return '(%s %s %s)' % (tr_dt(node.left, selfdt), op, tr_dt(node.right, selfdt))
    if isinstance(node, ast.Attribute) and isinstance(node.value, ast.Name) and node.value.id == 'self' and node.attr in selfdt:
        return tr_dt(selfdt[node.attr], {})
    if isinstance(node, ast.Constant) and isinstance(node.value, int) and node.value in (0, 1, 2):
        return str(node.value)
    raise Unparsed('dt expression ' + ast.dump(node)[:60])


def find_class(tree, name):
    for n in tree.body:
        if isinstance(n, ast.ClassDef) and n.name == name:
            return n
    raise Unparsed('class ' + name)


def find_method(cls, name):
    for n in cls.body:
        if isinstance(n, ast.FunctionDef) and n.name == name:
            return n
    raise Unparsed('%s.%s' % (cls.name, name))


def tr_stamp(fn):
    """SimulatedComponent.stamp -> (A entries, Z entries) as Lean list text over (n1 n2 m geq veq)"""
    names = {}
    a_entries, z_entries = [], []

    def idx(node):
        if isinstance(node, ast.Name) and node.id in names:
            return names[node.id]
        raise Unparsed('index ' + ast.dump(node)[:40])

    def val(node):
        if isinstance(node, ast.Name) and node.id in ('geq', 'veq'):
            return node.id
        raise Unparsed('value ' + ast.dump(node)[:40])

    def aug(st):
        if not (isinstance(st, ast.AugAssign) and isinstance(st.op, (ast.Add, ast.Sub)) and isinstance(st.target, ast.Subscript)
                and isinstance(st.target.value, ast.Name)):
            raise Unparsed('stamp statement')
        sign = '' if isinstance(st.op, ast.Add) else '-'
        if st.target.value.id == 'A' and isinstance(st.target.slice, ast.Tuple) and len(st.target.slice.elts) == 2:
            r, c = st.target.slice.elts
            a_entries.append('(%s, %s, %s%s)' % (idx(r), idx(c), sign, val(st.value)))
        elif st.target.value.id == 'Z':
            z_entries.append('(%s, %s%s)' % (idx(st.target.slice), sign, val(st.value)))
        else:
            raise Unparsed('stamp target')

    for st in fn.body:
        if isinstance(st, ast.Expr) and isinstance(st.value, ast.Constant):
            continue
        if isinstance(st, ast.Assign) and len(st.targets) == 1:
            tg, v = st.targets[0], st.value
            if isinstance(tg, ast.Name) and tg.id in ('geq', 'veq'):
                continue     # geq = self.geq(...), veq = self.veq(...)
            if isinstance(tg, ast.Tuple) and isinstance(v, ast.Tuple) and [e.id for e in tg.elts] == ['n1', 'n2'] and \
                    [getattr(e, 'attr', None) for e in v.elts] == ['v1_index', 'v3_index']:
                names['n1'], names['n2'] = 'n1', 'n2'
                continue
            if isinstance(tg, ast.Name) and tg.id == 'm' and isinstance(v, ast.BinOp) and isinstance(v.op, ast.Add) and \
                    getattr(v.left, 'attr', None) == 'i_index' and getattr(v.right, 'id', None) == 'num_nodes':
                names['m'] = 'm'
                continue
            raise Unparsed('stamp assignment')
        if isinstance(st, ast.If):
            # `if n1 >= 0 [and n2 >= 0]:` ground guards (index -1 has no row/column): the model emits every entry
            if st.orelse:
                raise Unparsed('stamp else')
            for s2 in st.body:
                aug(s2)
            continue
        aug(st)
    return '[%s]' % ', '.join(a_entries), '[%s]' % ', '.join(z_entries)


def tr_ii(fn):
    """_response_impulse_invariance: (kernel times, scale)"""
    assigns = {}
    for st in ast.walk(fn):
        if isinstance(st, ast.Assign) and len(st.targets) == 1 and isinstance(st.targets[0], ast.Name):
            assigns.setdefault(st.targets[0].id, st.value)
    calls = [c for c in ast.walk(fn) if isinstance(c, ast.Call) and isinstance(c.func, ast.Attribute) and c.func.attr == 'transient_response']
    if len(calls) != 1 or len(calls[0].args) != 1 or not isinstance(calls[0].args[0], ast.Name):
        raise Unparsed('transient_response call')
    arg = calls[0].args[0].id

    def is_len_tv(node):
        if isinstance(node, ast.Name) and node.id in assigns:
            node = assigns[node.id]
        return isinstance(node, ast.Call) and getattr(node.func, 'id', None) == 'len' and getattr(node.args[0], 'id', None) == 'tvector'

    if arg == 'tvector':
        times = 'tv'
    else:
        v = assigns.get(arg)
        # arange(Nt) * dtval
        if isinstance(v, ast.BinOp) and isinstance(v.op, ast.Mult) and isinstance(v.left, ast.Call) and getattr(v.left.func, 'id', None) == 'arange' \
                and len(v.left.args) == 1 and is_len_tv(v.left.args[0]) and getattr(v.right, 'id', None) == 'dtval':
            times = 'lagTimes tv.length dt'
        else:
            raise Unparsed('kernel times ' + (ast.dump(v)[:60] if v is not None else arg))
    y = assigns.get('y')
    # convolve(xvector, hvector)[0:Nt] * dtval
    ok = (isinstance(y, ast.BinOp) and isinstance(y.op, ast.Mult) and getattr(y.right, 'id', None) == 'dtval' and isinstance(y.left, ast.Subscript)
          and isinstance(y.left.value, ast.Call) and getattr(y.left.value.func, 'id', None) == 'convolve'
          and [getattr(a, 'id', None) for a in y.left.value.args] == ['xvector', 'hvector']
          and isinstance(y.left.slice, ast.Slice) and getattr(y.left.slice.lower, 'value', None) == 0 and is_len_tv(y.left.slice.upper))
    if not ok:
        raise Unparsed('convolution line')
    return times, 'dt'


def generate(repo):
    sim_src = open(os.path.join(repo, 'lcapy', 'simulator.py')).read()
    sx_src = open(os.path.join(repo, 'lcapy', 'sexpr.py')).read()
    sim_tree, sx_tree = ast.parse(sim_src), ast.parse(sx_src)
    unparsed, pruned, defs = [], {}, {}

    def attempt(name, fn_):
        try:
            defs[name] = (fn_(), True)
        except Unparsed as ex:
            unparsed.append('%s: %s' % (name, ex))
            defs[name] = (FALLBACK[name], False)
        except Exception as ex:   # noqa  malformed source etc.
            unparsed.append('%s: %s' % (name, type(ex).__name__))
            defs[name] = (FALLBACK[name], False)

    for short, cname in CLASSES:
        for meth in ('geq', 'veq'):
            def one(cname=cname, meth=meth, short=short):
                body, pr = tr_method(find_method(find_class(sim_tree, cname), meth))
                if pr:
                    pruned['%s_%s' % (meth, short)] = pr
                return body
            attempt('%s_%s' % (meth, short), one)

    def step_dt():
        simc = find_class(sim_tree, 'Simulator')
        selfdt = {}
        for st in ast.walk(find_method(simc, '__call__')):
            if isinstance(st, ast.Assign) and len(st.targets) == 1 and isinstance(st.targets[0], ast.Attribute) and \
                    getattr(st.targets[0].value, 'id', None) == 'self':
                selfdt[st.targets[0].attr] = st.value
        cands = [st.value for st in ast.walk(find_method(simc, '_step'))
                 if isinstance(st, ast.Assign) and len(st.targets) == 1 and getattr(st.targets[0], 'id', None) == 'dt']
        if len(cands) != 1:
            raise Unparsed('%d assignments to dt in _step' % len(cands))
        return tr_dt(cands[0], selfdt)
    attempt('stepDt', step_dt)

    try:
        a, z = tr_stamp(find_method(find_class(sim_tree, 'SimulatedComponent'), 'stamp'))
        defs['stampA'], defs['stampZ'] = (a, True), (z, True)
    except Exception as ex:   # noqa
        unparsed.append('stamp: %s' % ex)
        defs['stampA'], defs['stampZ'] = (FALLBACK['stampA'], False), (FALLBACK['stampZ'], False)

    try:
        times, scale = tr_ii(find_method(find_class(sx_tree, 'LaplaceDomainExpression'), '_response_impulse_invariance'))
        defs['iiKernelTimes'], defs['iiScale'] = (times, True), (scale, True)
    except Exception as ex:   # noqa
        unparsed.append('_response_impulse_invariance: %s' % ex)
        defs['iiKernelTimes'], defs['iiScale'] = (FALLBACK['iiKernelTimes'], False), (FALLBACK['iiScale'], False)

    b = lambda ok: 'true' if ok else 'false'   # noqa
    out = ['/- GENERATED by harness/translate/tx_simresp.py from lcapy/simulator.py and lcapy/sexpr.py -- do not edit. -/',
           'import Lcapy.Model.SimBase', 'set_option linter.unusedVariables false', 'namespace Lcapy.Gen.Sim', 'open Lcapy.SimBase',
           'variable {K : Type} [Add K] [Mul K] [Neg K] [Sub K] [Div K] [OfNat K 0] [OfNat K 1] [OfNat K 2]', '']
    for short, _ in CLASSES:
        for meth in ('geq', 'veq'):
            nm = '%s_%s' % (meth, short)
            out.append('def parsed_%s : Bool := %s' % (nm, b(defs[nm][1])))
            out.append('def %s (val dt v i : K) : K := %s' % (nm, defs[nm][0]))
    out += ['', '/-- `dt` used by `Simulator._step` at step n: tcur = tv[n], tprev = tv[n-1], t1 = tv[1], t0 = tv[0] -/',
            'def parsed_stepDt : Bool := %s' % b(defs['stepDt'][1]),
            'def stepDt (tcur tprev t1 t0 : K) : K := %s' % defs['stepDt'][0], '',
            '/-- `SimulatedComponent.stamp`: entries (row, col, value) added to A and (row, value) added to Z;',
            '    n1 = v1_index, n2 = v3_index (the dummy node), m = i_index -/',
            'def parsed_stamp : Bool := %s' % b(defs['stampA'][1]),
            'def stampA (n1 n2 : Nat) (geq : K) : List (Nat × Nat × K) := %s' % defs['stampA'][0],
            'def stampZ (m : Nat) (veq : K) : List (Nat × K) := %s' % defs['stampZ'][0], '',
            '/-- `_response_impulse_invariance`: the times at which the kernel is sampled -/',
            'def parsed_iiKernelTimes : Bool := %s' % b(defs['iiKernelTimes'][1]),
            'def iiKernelTimes (tv : List K) (dt : K) : List K := %s' % defs['iiKernelTimes'][0],
            '/-- `y = convolve(xvector, hvector)[0:Nt] * dtval` -/',
            'def parsed_iiScale : Bool := %s' % b(defs['iiScale'][1]),
            'def iiScale (dt : K) : K := %s' % defs['iiScale'][0], '', 'end Lcapy.Gen.Sim', '']
    info = {'unparsed': unparsed, 'pruned_guards': pruned, 'defs': {k: v[0] for k, v in defs.items()}}
    return '\n'.join(out), info


if __name__ == '__main__':
    import sys
    text, info = generate(sys.argv[1] if len(sys.argv) > 1 else '/repo')
    print(text)
    print(info, file=sys.stderr)
