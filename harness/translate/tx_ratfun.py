"""tx_ratfun: regenerate lean/Lcapy/Generated/RatfunSrc.lean from the *source text* of
lcapy/ratfun.py (Python `ast`, nothing is executed).

What is read

  delay signs   for every format builder of class `Ratfun` that re-attaches the delay factor
                (`canonical` (two sites: factor_const / not), `general`, `expandcanonical`, `partfrac`,
                `standard`, `timeconst`, `as_ZPK`): each call `sym.exp(<arg>)` with
                <arg> = `[-] self.var * [self.]delay`  or `[-] [self.]delay * self.var`;
                the sign is +1 / -1.  The decomposition `as_B_A_delay_undef` defines
                `expr = B/A * exp(-delay*var) * undef` (`delay -= c[0]`), also read here.
  isinstance    in `_zp2tf` and `_tc2tf`: the names tested by `isinstance(<name>, (tuple, list))` in
                source order (first guards the zeros loop, second the poles loop).
  tc2tf         in `_tc2tf`: what is appended to `pp` for a pole at 0 (list branch / dict branch) and
                the gain updates `K *= z`, `K /= p`.

Anything not understood is listed in `unparsed`; the obligation for that item then rests on the
correspondence and the oracle.
"""
import ast
import os
import warnings

BUILDERS = ['canonical', 'general', 'expandcanonical', 'partfrac', 'standard', 'timeconst', 'as_ZPK']


def _is_self_var(n):
    return isinstance(n, ast.Attribute) and n.attr == 'var' and isinstance(n.value, ast.Name) and n.value.id == 'self'


def _is_delay(n):
    return (isinstance(n, ast.Name) and n.id == 'delay') or \
        (isinstance(n, ast.Attribute) and n.attr == 'delay' and isinstance(n.value, ast.Name) and n.value.id == 'self')


def _sign_of_exp_arg(arg):
    """+1 / -1 for  [-]var*delay ; None if the shape is not understood"""
    sign = 1
    # -(a*b)  or  (-a)*b
    if isinstance(arg, ast.UnaryOp) and isinstance(arg.op, ast.USub):
        sign = -sign
        arg = arg.operand
    if not (isinstance(arg, ast.BinOp) and isinstance(arg.op, ast.Mult)):
        return None
    l, r = arg.left, arg.right
    for side in ('l', 'r'):
        x = l if side == 'l' else r
        if isinstance(x, ast.UnaryOp) and isinstance(x.op, ast.USub):
            sign = -sign
            if side == 'l':
                l = x.operand
            else:
                r = x.operand
    if (_is_self_var(l) and _is_delay(r)) or (_is_delay(l) and _is_self_var(r)):
        return sign
    return None


def _exp_calls(fn):
    out = []
    for n in ast.walk(fn):
        if isinstance(n, ast.Call) and isinstance(n.func, ast.Attribute) and n.func.attr == 'exp' \
                and isinstance(n.func.value, ast.Name) and n.func.value.id == 'sym' and len(n.args) == 1:
            out.append(n)
    out.sort(key=lambda c: (c.lineno, c.col_offset))
    return out


def scan(repo):
    path = os.path.join(repo, 'lcapy', 'ratfun.py')
    info = {'signs': {}, 'isinstance': {}, 'unparsed': [], 'decompose_sign': None, 'lines': {}}
    try:
        with warnings.catch_warnings():
            warnings.simplefilter('ignore')
            tree = ast.parse(open(path).read())
    except Exception as e:   # noqa
        info['unparsed'].append('ratfun.py:%s' % e)
        return info
    funcs = {n.name: n for n in tree.body if isinstance(n, ast.FunctionDef)}
    cls = [n for n in tree.body if isinstance(n, ast.ClassDef) and n.name == 'Ratfun']
    methods = {n.name: n for n in cls[0].body if isinstance(n, ast.FunctionDef)} if cls else {}
    if not cls:
        info['unparsed'].append('class Ratfun')
    for b in BUILDERS:
        fn = methods.get(b)
        if fn is None:
            info['unparsed'].append('Ratfun.' + b)
            continue
        signs = []
        for c in _exp_calls(fn):
            s = _sign_of_exp_arg(c.args[0])
            if s is None:
                info['unparsed'].append('Ratfun.%s:exp-arg@%d' % (b, c.lineno))
            else:
                signs.append(s)
                info['lines'].setdefault(b, []).append(c.lineno)
        info['signs'][b] = signs
    # decomposition: `delay -= c[0]` (=> expr = ... exp(-delay*var)) or `delay += c[0]`
    fn = funcs.get('as_B_A_delay_undef')
    if fn is not None:
        for n in ast.walk(fn):
            if isinstance(n, ast.AugAssign) and isinstance(n.target, ast.Name) and n.target.id == 'delay':
                if isinstance(n.op, ast.Sub):
                    info['decompose_sign'] = -1
                elif isinstance(n.op, ast.Add):
                    info['decompose_sign'] = 1
    if info['decompose_sign'] is None:
        info['unparsed'].append('as_B_A_delay_undef:delay-update')
    # Ratfun.__init__: N *= sym.exp(-self.delay * var)
    for name in ('_zp2tf', '_tc2tf'):
        fn = funcs.get(name)
        if fn is None:
            info['unparsed'].append(name)
            continue
        tested = []
        calls = [n for n in ast.walk(fn) if isinstance(n, ast.Call) and isinstance(n.func, ast.Name) and n.func.id == 'isinstance']
        calls.sort(key=lambda c: (c.lineno, c.col_offset))
        for c in calls:
            if c.args and isinstance(c.args[0], ast.Name):
                tested.append(c.args[0].id)
            else:
                info['unparsed'].append('%s:isinstance@%d' % (name, c.lineno))
        info['isinstance'][name] = tested
    return info


def lstr(s):
    return '"' + s.replace('\\', '\\\\').replace('"', '\\"') + '"'


def generate(repo):
    info = scan(repo)
    sg = info['signs']

    def one(b, i=0):
        s = sg.get(b, [])
        return s[i] if len(s) > i else 0      # 0 = not found: the obligation fails, the oracle decides

    lines = ['/-',
             '  GENERATED by harness/translate/tx_ratfun.py from the source text of /repo/lcapy/ratfun.py -- do not edit.',
             '  Sign with which each builder re-attaches the delay: `sym.exp(SIGN * self.var * delay)`;',
             '  0 = the translator did not find / understand the site.  Source lines: %s' % info['lines'],
             '-/',
             'namespace Lcapy.Gen.RatfunSrc',
             '',
             '/-- `as_B_A_delay_undef`: `delay -= c[0]`, i.e. expr = B/A * exp(decomposeSign * delay * var) * undef -/',
             'def decomposeSign : Int := %d' % (info['decompose_sign'] or 0),
             'def canonicalFCSign : Int := %d' % one('canonical', 0),
             'def canonicalSign : Int := %d' % one('canonical', 1),
             'def generalSign : Int := %d' % one('general'),
             'def expandcanonicalSign : Int := %d' % one('expandcanonical'),
             'def partfracSign : Int := %d' % one('partfrac'),
             'def standardSign : Int := %d' % one('standard'),
             'def timeconstSign : Int := %d' % one('timeconst'),
             'def asZPKSign : Int := %d' % one('as_ZPK'),
             '',
             '/-- names tested by `isinstance(_, (tuple, list))` in `_zp2tf`: [zeros loop, poles loop] -/',
             'def zp2tfTests : List String := [%s]' % ', '.join(lstr(x) for x in info['isinstance'].get('_zp2tf', [])),
             'def tc2tfTests : List String := [%s]' % ', '.join(lstr(x) for x in info['isinstance'].get('_tc2tf', [])),
             '',
             '/-- the poles loop of `_zp2tf` is selected by the type of `poles` -/',
             'def zp2tfPolesTestOnPoles : Bool := zp2tfTests.getD 1 "" == "poles"',
             'def zp2tfZerosTestOnZeros : Bool := zp2tfTests.getD 0 "" == "zeros"',
             '',
             '/-- unparsed items: %s -/' % (', '.join(info['unparsed']) or 'none'),
             'def unparsed : List String := [%s]' % ', '.join(lstr(x) for x in info['unparsed']),
             '',
             'end Lcapy.Gen.RatfunSrc', '']
    return '\n'.join(lines), info



# ---------------------------------------------------------------------------------------------------
# round 3: the declarative parts of the remaining formats (lcapy/expr.py, lcapy/utils.py, lcapy/ratfun.py)
#
#   normIdx            Expr.coeffs(norm=True):  `c1 / c[IDX]`            (which coefficient normalises)
#   baIdx, baA, baB    Expr.ba:  `a = self.D.coeffs(); b = self.N.coeffs(); a0 = a[IDX]`
#   rfCoeffs           Ratfun.coeffs:  `return Bpoly.all_coeffs(), Apoly.all_coeffs()`  (order of the pair)
#   degreeFn/Args      Ratfun.degree:  `return max(self.Bpoly.degree(), self.Apoly.degree())`
#   ndegreeArg, ddegreeArg     Ratfun.Ndegree / Ddegree:  `return self.Bpoly.degree()`
#   sproper            Ratfun.is_strictly_proper:  `return self.Ddegree > self.Ndegree`  -> [left, op, right]
#   dtbNumer/Denom/Return      Expr.divide_top_and_bottom:  `N = (self.N / factor).expand()` ... `return N / D`
#   mtbNumer/Denom/Return      Expr.multiply_top_and_bottom: `N = sym.Mul(N, factor, ...)`, `ID = sym.Pow(D, -1)`, `sym.Mul(N, ID)`
#   rdMult, rdParts, rdPows, rdOp, rdReturn    Expr.rationalize_denominator
#   recipIn, recipOut  Expr.recippartfrac: `self.subs(1 / tmpsym)` ... `nexpr.subs(tmpsym, 1 / self.var)`
#   sfInit, sfFrom, sfOp       Expr.simplify_factors: `result = factors[0]`, `for factor in factors[1:]`, `result *= ...`
#   stInit, stOp               Expr.simplify_terms:   `result = 0`, `result += ...`
#   ndMonicDiv, ndMonicD       utils.as_N_D(monic_denominator): `LC = Dpoly.LC()`, `D = Dpoly.monic().as_expr()`, `N = (N / LC)...`
#   ecReversed, ecDen          Ratfun.expandcanonical: `enumerate(reversed(Bpoly.all_coeffs()))`, `sym.Mul(..., 1 / A)`
#   polesMerge, listRepeat     Expr.poles: `polesdict[key] += pole.n`;  Expr._fmt_roots._wrap_list: `[...] * n`

OPN = {ast.Div: 'Div', ast.Mult: 'Mult', ast.Add: 'Add', ast.Sub: 'Sub', ast.Gt: 'Gt', ast.Lt: 'Lt', ast.GtE: 'GtE',
       ast.LtE: 'LtE', ast.Eq: 'Eq', ast.NotEq: 'NotEq', ast.Pow: 'Pow'}


def _opn(op):
    return OPN.get(type(op), type(op).__name__)


def _self_attr(n):
    """`self.X` -> 'X'"""
    if isinstance(n, ast.Attribute) and isinstance(n.value, ast.Name) and n.value.id == 'self':
        return n.attr
    return None


def _name(n):
    return n.id if isinstance(n, ast.Name) else None


def _const(n):
    if isinstance(n, ast.Constant):
        return n.value
    if isinstance(n, ast.UnaryOp) and isinstance(n.op, ast.USub) and isinstance(n.operand, ast.Constant):
        return -n.operand.value
    return None


def _strip_calls(n, names):
    """peel `X.expand()` / `X.simplify()` ... -> X"""
    while isinstance(n, ast.Call) and isinstance(n.func, ast.Attribute) and n.func.attr in names and not n.args:
        n = n.func.value
    return n


def _assigns(fn):
    """[(target name, value node)] in source order (simple single-name targets, also AugAssign as (name, op, value))"""
    out = []
    for n in ast.walk(fn):
        if isinstance(n, ast.Assign) and len(n.targets) == 1 and isinstance(n.targets[0], ast.Name):
            out.append((n.lineno, n.targets[0].id, None, n.value))
        elif isinstance(n, ast.AugAssign) and isinstance(n.target, ast.Name):
            out.append((n.lineno, n.target.id, _opn(n.op), n.value))
    out.sort(key=lambda t: t[0])
    return out


def _returns(fn):
    r = [n for n in ast.walk(fn) if isinstance(n, ast.Return) and n.value is not None]
    r.sort(key=lambda n: n.lineno)
    return r


def _is_sym_call(n, name):
    return isinstance(n, ast.Call) and isinstance(n.func, ast.Attribute) and n.func.attr == name and _name(n.func.value) == 'sym'


def _inv_of(n, what):
    """`1 / <what>` where <what> is matched by the predicate"""
    return isinstance(n, ast.BinOp) and isinstance(n.op, ast.Div) and _const(n.left) == 1 and what(n.right)


def scan_fmt(repo):
    info = {'unparsed': []}
    bad = info['unparsed'].append
    trees = {}
    for f in ('expr.py', 'utils.py', 'ratfun.py'):
        try:
            with warnings.catch_warnings():
                warnings.simplefilter('ignore')
                trees[f] = ast.parse(open(os.path.join(repo, 'lcapy', f)).read())
        except Exception as e:   # noqa
            bad('%s:%s' % (f, e))
            trees[f] = ast.parse('')

    def methods(tree, cls):
        c = [n for n in tree.body if isinstance(n, ast.ClassDef) and n.name == cls]
        return {n.name: n for n in c[0].body if isinstance(n, ast.FunctionDef)} if c else {}
    E = methods(trees['expr.py'], 'Expr')
    R = methods(trees['ratfun.py'], 'Ratfun')
    U = {n.name: n for n in trees['utils.py'].body if isinstance(n, ast.FunctionDef)}

    def need(d, name, tag):
        fn = d.get(name)
        if fn is None:
            bad(tag + name)
        return fn

    # ---- Expr.coeffs: c1 / c[IDX]
    info['normIdx'] = None
    fn = need(E, 'coeffs', 'Expr.')
    if fn is not None:
        for n in ast.walk(fn):
            if isinstance(n, ast.ListComp) and isinstance(n.elt, ast.Call) and n.elt.args:
                b = n.elt.args[0]
                if isinstance(b, ast.BinOp) and isinstance(b.op, ast.Div) and isinstance(b.right, ast.Subscript) \
                        and _name(b.left) == _name(n.generators[0].target) and _name(b.right.value) == _name(n.generators[0].iter):
                    info['normIdx'] = _const(b.right.slice)
        if not isinstance(info['normIdx'], int):
            bad('Expr.coeffs:norm-divisor')
    # ---- Expr.ba
    info['baIdx'], info['baA'], info['baB'] = None, '', ''
    fn = need(E, 'ba', 'Expr.')
    if fn is not None:
        for (_, tgt, aug, val) in _assigns(fn):
            if aug is None and tgt in ('a', 'b') and isinstance(val, ast.Call) and isinstance(val.func, ast.Attribute) \
                    and val.func.attr == 'coeffs' and _self_attr(val.func.value):
                info['baA' if tgt == 'a' else 'baB'] = _self_attr(val.func.value)
            if aug is None and tgt == 'a0' and isinstance(val, ast.Subscript) and _name(val.value) == 'a':
                info['baIdx'] = _const(val.slice)
        if not isinstance(info['baIdx'], int) or not info['baA'] or not info['baB']:
            bad('Expr.ba')
    # ---- Ratfun.coeffs
    info['rfCoeffs'] = []
    fn = need(R, 'coeffs', 'Ratfun.')
    if fn is not None:
        alias = {tgt: _self_attr(val) for (_, tgt, aug, val) in _assigns(fn) if aug is None and _self_attr(val)}
        rets = _returns(fn)
        if rets and isinstance(rets[-1].value, ast.Tuple):
            for el in rets[-1].value.elts:
                if isinstance(el, ast.Call) and isinstance(el.func, ast.Attribute) and el.func.attr == 'all_coeffs':
                    info['rfCoeffs'].append(alias.get(_name(el.func.value), _self_attr(el.func.value) or '?'))
        if len(info['rfCoeffs']) != 2 or '?' in info['rfCoeffs']:
            bad('Ratfun.coeffs')
    # ---- Ratfun.degree / Ndegree / Ddegree / is_strictly_proper

    def deg_of(n):
        """`self.Xpoly.degree()` -> 'Xpoly'"""
        if isinstance(n, ast.Call) and isinstance(n.func, ast.Attribute) and n.func.attr == 'degree' and not n.args:
            return _self_attr(n.func.value)
        return None
    info['degreeFn'], info['degreeArgs'] = '', []
    fn = need(R, 'degree', 'Ratfun.')
    if fn is not None:
        rets = _returns(fn)
        v = rets[-1].value if rets else None
        if isinstance(v, ast.Call) and _name(v.func) and all(deg_of(a) for a in v.args) and len(v.args) == 2:
            info['degreeFn'], info['degreeArgs'] = _name(v.func), [deg_of(a) for a in v.args]
        else:
            bad('Ratfun.degree')
    for key, name in (('ndegreeArg', 'Ndegree'), ('ddegreeArg', 'Ddegree')):
        info[key] = ''
        fn = need(R, name, 'Ratfun.')
        if fn is not None:
            rets = _returns(fn)
            info[key] = (deg_of(rets[-1].value) if rets else None) or ''
            if not info[key]:
                bad('Ratfun.' + name)
    info['sproper'] = []
    fn = need(R, 'is_strictly_proper', 'Ratfun.')
    if fn is not None:
        rets = _returns(fn)
        v = rets[-1].value if rets else None
        if isinstance(v, ast.Compare) and len(v.ops) == 1 and _self_attr(v.left) and _self_attr(v.comparators[0]):
            info['sproper'] = [_self_attr(v.left), _opn(v.ops[0]), _self_attr(v.comparators[0])]
        else:
            bad('Ratfun.is_strictly_proper')
    # ---- divide_top_and_bottom / multiply_top_and_bottom
    for pre, name in (('dtb', 'divide_top_and_bottom'), ('mtb', 'multiply_top_and_bottom')):
        info[pre + 'Numer'], info[pre + 'Denom'], info[pre + 'Return'] = [], [], []
        fn = need(E, name, 'Expr.')
        if fn is None:
            continue
        src = {}        # local name -> self attribute it was loaded from (`N = self.N.sympy`)
        side = {}       # local name -> [attr, op, operand]
        inv = {}        # local name -> name it is the reciprocal of  (`ID = sym.Pow(D, -1, ...)`)
        ret = []
        for (_, tgt, aug, val) in _assigns(fn):
            v = _strip_calls(val, ('expand', 'simplify'))
            if isinstance(v, ast.Attribute) and v.attr == 'sympy':
                v = v.value
            if aug is None and _self_attr(v):
                src[tgt] = _self_attr(v)
            elif aug is None and isinstance(v, ast.BinOp) and _self_attr(v.left) and _name(v.right):
                side[tgt] = [_self_attr(v.left), _opn(v.op), _name(v.right)]
            elif aug is None and _is_sym_call(v, 'Mul') and len(v.args) == 2 and _name(v.args[0]) in src and _name(v.args[1]) == 'factor':
                side[tgt] = [src[_name(v.args[0])], 'Mult', 'factor']
            elif aug is None and _is_sym_call(v, 'Pow') and len(v.args) == 2 and _name(v.args[0]) and _const(v.args[1]) == -1:
                inv[tgt] = _name(v.args[0])
            elif aug is None and _is_sym_call(v, 'Mul') and len(v.args) == 2 and _name(v.args[0]) in side and _name(v.args[1]) in inv:
                ret = [_name(v.args[0]), 'Div', inv[_name(v.args[1])]]
        rets = _returns(fn)
        v = rets[-1].value if rets else None
        if isinstance(v, ast.BinOp) and _name(v.left) and _name(v.right):
            ret = [_name(v.left), _opn(v.op), _name(v.right)]
        if len(ret) == 3 and ret[0] in side and ret[2] in side:
            # report the sides by the attribute they were built from, in the order numerator-of-result, denominator-of-result
            info[pre + 'Numer'], info[pre + 'Denom'] = side[ret[0]], side[ret[2]]
            info[pre + 'Return'] = [side[ret[0]][0], ret[1], side[ret[2]][0]]
        else:
            bad('Expr.' + name)
    # ---- rationalize_denominator
    info['rdMult'], info['rdParts'], info['rdPows'], info['rdOp'], info['rdReturn'] = '', [], [], '', []
    fn = need(E, 'rationalize_denominator', 'Expr.')
    if fn is not None:
        loc = {}      # local -> description
        for (_, tgt, aug, val) in _assigns(fn):
            v = _strip_calls(val, ('expand', 'simplify'))
            if aug is not None:
                continue
            if _self_attr(v):
                loc[tgt] = ('attr', _self_attr(v))
            elif isinstance(v, ast.Attribute) and _name(v.value) in loc and v.attr in ('conj', 'real', 'imag', 'real_imag'):
                if v.attr == 'real_imag':
                    loc[tgt] = loc[_name(v.value)]          # a re-write of the same value as x + j y
                else:
                    loc[tgt] = (v.attr, loc[_name(v.value)])
            elif isinstance(v, ast.BinOp) and isinstance(v.op, ast.Mult) and _name(v.left) in loc and _name(v.right) in loc:
                loc[tgt] = ('mul', loc[_name(v.left)], loc[_name(v.right)])
            elif isinstance(v, ast.BinOp) and isinstance(v.op, (ast.Add, ast.Sub)):
                parts, pows = [], []
                for side_ in (v.left, v.right):
                    if isinstance(side_, ast.BinOp) and isinstance(side_.op, ast.Pow) and isinstance(side_.left, ast.Attribute) \
                            and loc.get(_name(side_.left.value)) == ('attr', 'D'):
                        parts.append(side_.left.attr)
                        pows.append(_const(side_.right))
                if len(parts) == 2:
                    loc[tgt] = ('sumsq', _opn(v.op), parts, pows)
        rets = _returns(fn)
        v = rets[-1].value if rets else None
        ok = False
        if isinstance(v, ast.BinOp) and _name(v.left) in loc and _name(v.right) in loc:
            n_, d_ = loc[_name(v.left)], loc[_name(v.right)]
            if n_[0] == 'mul' and n_[1] == ('attr', 'N') and n_[2][0] in ('conj', 'real', 'imag') and n_[2][1] == ('attr', 'D') and d_[0] == 'sumsq':
                info['rdMult'], info['rdOp'], info['rdParts'], info['rdPows'] = n_[2][0], d_[1], d_[2], d_[3]
                info['rdReturn'] = ['N', _opn(v.op), 'D']
                ok = all(isinstance(p, int) for p in d_[3])
        if not ok:
            bad('Expr.rationalize_denominator')
    # ---- recippartfrac
    info['recipIn'], info['recipOut'] = '', ''
    fn = need(E, 'recippartfrac', 'Expr.')
    if fn is not None:
        tmp = None
        for (_, tgt, aug, val) in _assigns(fn):
            if aug is None and isinstance(val, ast.Call) and _name(val.func) == 'miscsymbol':
                tmp = tgt
        for (_, tgt, aug, val) in _assigns(fn):
            if aug is None and isinstance(val, ast.Call) and isinstance(val.func, ast.Attribute) and val.func.attr == 'subs':
                a = val.args
                if _name(val.func.value) == 'self' and len(a) == 1:
                    info['recipIn'] = 'inv' if _inv_of(a[0], lambda n: _name(n) == tmp) else ('id' if _name(a[0]) == tmp else '?')
                elif len(a) == 2 and _name(a[0]) == tmp:
                    info['recipOut'] = 'inv' if _inv_of(a[1], lambda n: _self_attr(n) == 'var') else ('id' if _self_attr(a[1]) == 'var' else '?')
        if info['recipIn'] in ('', '?') or info['recipOut'] in ('', '?'):
            bad('Expr.recippartfrac')
    # ---- simplify_factors / simplify_terms
    info['sfInit'], info['sfFrom'], info['sfOp'] = None, None, ''
    fn = need(E, 'simplify_factors', 'Expr.')
    if fn is not None:
        for (_, tgt, aug, val) in _assigns(fn):
            if tgt == 'result' and aug is None and isinstance(val, ast.Subscript) and _name(val.value) == 'factors':
                info['sfInit'] = _const(val.slice)
            if tgt == 'result' and aug is not None:
                info['sfOp'] = aug
        for n in ast.walk(fn):
            if isinstance(n, ast.For) and isinstance(n.iter, ast.Subscript) and _name(n.iter.value) == 'factors' \
                    and isinstance(n.iter.slice, ast.Slice) and n.iter.slice.upper is None and n.iter.slice.step is None:
                info['sfFrom'] = _const(n.iter.slice.lower) if n.iter.slice.lower is not None else 0
            elif isinstance(n, ast.For) and _name(n.iter) == 'factors':
                info['sfFrom'] = 0
        if not isinstance(info['sfInit'], int) or not isinstance(info['sfFrom'], int) or not info['sfOp']:
            bad('Expr.simplify_factors')
    info['stInit'], info['stOp'] = None, ''
    fn = need(E, 'simplify_terms', 'Expr.')
    if fn is not None:
        for (_, tgt, aug, val) in _assigns(fn):
            if tgt == 'result' and aug is None:
                info['stInit'] = _const(val)
            if tgt == 'result' and aug is not None:
                info['stOp'] = aug
        if not isinstance(info['stInit'], int) or not info['stOp']:
            bad('Expr.simplify_terms')
    # ---- utils.as_N_D, monic_denominator branch
    info['ndMonicDiv'], info['ndMonicD'] = '', ''
    fn = need(U, 'as_N_D', 'utils.')
    if fn is not None:
        for n in ast.walk(fn):
            if isinstance(n, ast.If) and _name(n.test) == 'monic_denominator':
                loc = {}
                for st in n.body:
                    if isinstance(st, ast.Assign) and len(st.targets) == 1 and isinstance(st.targets[0], ast.Name):
                        tgt, val = st.targets[0].id, st.value
                        v = _strip_calls(val, ('as_expr', 'simplify', 'expand'))
                        if isinstance(v, ast.Call) and isinstance(v.func, ast.Attribute) and not v.args and _name(v.func.value) == 'Dpoly':
                            loc[tgt] = v.func.attr            # LC / EC / monic
                            if tgt == 'D':
                                info['ndMonicD'] = v.func.attr
                        elif tgt == 'N' and isinstance(v, ast.BinOp) and isinstance(v.op, ast.Div) and _name(v.left) == 'N' and _name(v.right) in loc:
                            info['ndMonicDiv'] = loc[_name(v.right)]
        if not info['ndMonicDiv'] or not info['ndMonicD']:
            bad('utils.as_N_D:monic')
    # ---- Ratfun.expandcanonical
    info['ecReversed'], info['ecDen'] = None, ''
    fn = need(R, 'expandcanonical', 'Ratfun.')
    if fn is not None:
        for n in ast.walk(fn):
            if isinstance(n, ast.For) and isinstance(n.iter, ast.Call) and _name(n.iter.func) == 'enumerate' and n.iter.args:
                a = n.iter.args[0]
                if isinstance(a, ast.Call) and _name(a.func) == 'reversed':
                    info['ecReversed'] = True
                elif isinstance(a, ast.Call) and isinstance(a.func, ast.Attribute) and a.func.attr == 'all_coeffs':
                    info['ecReversed'] = False
            if _is_sym_call(n, 'Mul') and len(n.args) == 2 and _inv_of(n.args[1], lambda m: _name(m) is not None):
                info['ecDen'] = _name(n.args[1].right)
        if info['ecReversed'] is None or not info['ecDen']:
            bad('Ratfun.expandcanonical')
    # ---- Ratfun.canonical: the branches that skip a unit factor and the place where the undefined factor is attached
    #   canonFC / canon = [kSkip, dSkip, nSkip, undefAt]:  `if K != <kSkip>` folds the gain, `if D == <dSkip>` omits 1/D,
    #   `if N == <nSkip>` omits N (only the factor_const=False branch; -99 = no such test), undefAt = "top" when
    #   `expr *= self.undef` is a statement of the branch body itself, "gain" when it sits under the `K != …` test, "?" otherwise
    info['canonFC'], info['canon'] = [-99, -99, -99, '?'], [-99, -99, -99, '?']
    fn = need(R, 'canonical', 'Ratfun.')
    if fn is not None:
        top = [n for n in fn.body if isinstance(n, ast.If) and _name(n.test) == 'factor_const']
        if not top:
            bad('Ratfun.canonical:if factor_const')
        else:
            def cmp_const(test, name, op):
                if isinstance(test, ast.Compare) and len(test.ops) == 1 and isinstance(test.ops[0], op) and _name(test.left) == name:
                    return _const(test.comparators[0])
                return None

            def is_undef_mul(st):
                if isinstance(st, ast.AugAssign) and isinstance(st.op, ast.Mult) and _name(st.target) == 'expr' and _self_attr(st.value) == 'undef':
                    return True
                return False

            def mentions_undef(node):
                return any(_self_attr(m) == 'undef' for m in ast.walk(node))
            for key, body in (('canonFC', top[0].body), ('canon', top[0].orelse)):
                k = d = nn = -99
                at = '?'
                if any(is_undef_mul(st) for st in body):
                    at = 'top'
                for st in ast.walk(ast.Module(body=body, type_ignores=[])):
                    if isinstance(st, ast.If):
                        c = cmp_const(st.test, 'K', ast.NotEq)
                        if isinstance(c, int):
                            k = c
                            if at != 'top' and any(mentions_undef(x) for x in st.body):
                                at = 'gain'
                        c = cmp_const(st.test, 'D', ast.Eq)
                        if isinstance(c, int):
                            d = c
                        c = cmp_const(st.test, 'N', ast.Eq)
                        if isinstance(c, int):
                            nn = c
                n_undef = sum(1 for st in ast.walk(ast.Module(body=body, type_ignores=[])) if _self_attr(st) == 'undef')
                if n_undef != 1:
                    at = '?'
                info[key] = [k, d, nn, at]
            if info['canonFC'][3] == '?' or info['canon'][3] == '?' or info['canonFC'][1] == -99 or info['canon'][1] == -99:
                bad('Ratfun.canonical:branches')
    # ---- Expr.poles merge / _fmt_roots._wrap_list
    info['polesMerge'], info['listRepeat'] = '', ''
    fn = need(E, 'poles', 'Expr.')
    if fn is not None:
        for n in ast.walk(fn):
            if isinstance(n, ast.AugAssign) and isinstance(n.target, ast.Subscript) and _name(n.target.value) == 'polesdict' \
                    and isinstance(n.value, ast.Attribute) and n.value.attr == 'n':
                info['polesMerge'] = _opn(n.op)
        if not info['polesMerge']:
            bad('Expr.poles:merge')
    fn = need(E, '_fmt_roots', 'Expr.')
    if fn is not None:
        for n in ast.walk(fn):
            if isinstance(n, ast.FunctionDef) and n.name == '_wrap_list':
                for m in ast.walk(n):
                    if isinstance(m, ast.AugAssign) and isinstance(m.op, ast.Add) and isinstance(m.value, ast.BinOp) \
                            and isinstance(m.value.op, ast.Mult) and isinstance(m.value.left, ast.List) and len(m.value.left.elts) == 1:
                        info['listRepeat'] = _name(m.value.right) or '?'
        if info['listRepeat'] != 'n':
            bad('Expr._fmt_roots:_wrap_list')
    return info


def generate_fmt(repo):
    info = scan_fmt(repo)

    def sl(xs):
        return '[%s]' % ', '.join(lstr(str(x)) for x in xs)

    def il(xs):
        return '[%s]' % ', '.join('(%d : Int)' % x if isinstance(x, int) and not isinstance(x, bool) else '(-99 : Int)' for x in xs)

    def iv(x, default=-99):
        return '%d' % (x if isinstance(x, int) and not isinstance(x, bool) else default)
    g = info
    lines = ['/-',
             '  GENERATED by harness/translate/tx_ratfun.py (scan_fmt) from the source text of /repo/lcapy/expr.py, utils.py, ratfun.py',
             '  -- do not edit.  Strings are Python `ast` operator / attribute names; -99 / "" / [] = not found.',
             '-/',
             'namespace Lcapy.Gen.RatfunFmtSrc',
             '',
             '/-- `Expr.coeffs(norm=True)`: `[simplify(c1 / c[normIdx]) for c1 in c]`, `c` highest power first -/',
             'def normIdx : Int := %s' % iv(g['normIdx']),
             '/-- `Expr.ba`: `a = self.<baA>.coeffs(); b = self.<baB>.coeffs(); a0 = a[baIdx]` -/',
             'def baIdx : Int := %s' % iv(g['baIdx']),
             'def baA : String := %s' % lstr(g['baA']),
             'def baB : String := %s' % lstr(g['baB']),
             '/-- `Ratfun.coeffs()`: the pair returned, by polynomial name -/',
             'def rfCoeffs : List String := %s' % sl(g['rfCoeffs']),
             '/-- `Ratfun.degree`: `degreeFn(self.<args0>.degree(), self.<args1>.degree())` -/',
             'def degreeFn : String := %s' % lstr(g['degreeFn']),
             'def degreeArgs : List String := %s' % sl(g['degreeArgs']),
             'def ndegreeArg : String := %s' % lstr(g['ndegreeArg']),
             'def ddegreeArg : String := %s' % lstr(g['ddegreeArg']),
             '/-- `Ratfun.is_strictly_proper`: `self.<0> <1> self.<2>` -/',
             'def sproper : List String := %s' % sl(g['sproper']),
             '/-- `Expr.divide_top_and_bottom(factor)`: each side as [attribute, operator, operand]; the result as [numerator, operator, denominator] -/',
             'def dtbNumer : List String := %s' % sl(g['dtbNumer']),
             'def dtbDenom : List String := %s' % sl(g['dtbDenom']),
             'def dtbReturn : List String := %s' % sl(g['dtbReturn']),
             '/-- `Expr.multiply_top_and_bottom(factor)` -/',
             'def mtbNumer : List String := %s' % sl(g['mtbNumer']),
             'def mtbDenom : List String := %s' % sl(g['mtbDenom']),
             'def mtbReturn : List String := %s' % sl(g['mtbReturn']),
             '/-- `Expr.rationalize_denominator()`: `Nnew = N * D.<rdMult>`, `Dnew = D.<p0>**k0 <rdOp> D.<p1>**k1`, `return Nnew / Dnew` -/',
             'def rdMult : String := %s' % lstr(g['rdMult']),
             'def rdParts : List String := %s' % sl(g['rdParts']),
             'def rdPows : List Int := %s' % il(g['rdPows']),
             'def rdOp : String := %s' % lstr(g['rdOp']),
             'def rdReturn : List String := %s' % sl(g['rdReturn']),
             '/-- `Expr.recippartfrac()`: substitution applied before / after the partial-fraction expansion ("inv" = reciprocal) -/',
             'def recipIn : String := %s' % lstr(g['recipIn']),
             'def recipOut : String := %s' % lstr(g['recipOut']),
             '/-- `Expr.simplify_factors()`: `result = factors[sfInit]; for factor in factors[sfFrom:]: result <sfOp>= simplify(factor)` -/',
             'def sfInit : Int := %s' % iv(g['sfInit']),
             'def sfFrom : Int := %s' % iv(g['sfFrom']),
             'def sfOp : String := %s' % lstr(g['sfOp']),
             '/-- `Expr.simplify_terms()`: `result = stInit; for term in terms: result <stOp>= simplify(term)` -/',
             'def stInit : Int := %s' % iv(g['stInit']),
             'def stOp : String := %s' % lstr(g['stOp']),
             '/-- `utils.as_N_D(monic_denominator=True)`: `D = Dpoly.<ndMonicD>()`, `N = N / Dpoly.<ndMonicDiv>()` -/',
             'def ndMonicDiv : String := %s' % lstr(g['ndMonicDiv']),
             'def ndMonicD : String := %s' % lstr(g['ndMonicD']),
             '/-- `Ratfun.expandcanonical()`: coefficients enumerated low power first (`reversed(all_coeffs())`); each term is divided by <ecDen> -/',
             'def ecReversed : Bool := %s' % ('true' if g['ecReversed'] else 'false'),
             'def ecDen : String := %s' % lstr(g['ecDen']),
             '/-- `Ratfun.canonical`: per branch the constant of `if K != c` (gain folded only then), of `if D == c` (1/D omitted),',
             '    of `if N == c` (N omitted; -99 = no such test), and where `expr *= self.undef` stands ("top" = statement of the branch) -/',
             'def canonFCSkip : List Int := %s' % il(g['canonFC'][:3]),
             'def canonFCUndefAt : String := %s' % lstr(g['canonFC'][3]),
             'def canonSkip : List Int := %s' % il(g['canon'][:3]),
             'def canonUndefAt : String := %s' % lstr(g['canon'][3]),
             '/-- `Expr.poles()`: `polesdict[key] <polesMerge>= pole.n`;  `_wrap_list`: `[root] * <listRepeat>` -/',
             'def polesMerge : String := %s' % lstr(g['polesMerge']),
             'def listRepeat : String := %s' % lstr(g['listRepeat']),
             '',
             '/-- unparsed items: %s -/' % (', '.join(info['unparsed']) or 'none'),
             'def unparsed : List String := %s' % sl(info['unparsed']),
             '',
             'end Lcapy.Gen.RatfunFmtSrc', '']
    return '\n'.join(lines), info


if __name__ == '__main__':
    import sys
    t, i = generate(sys.argv[1] if len(sys.argv) > 1 else '/repo')
    print(t)
    print(i)
    t, i = generate_fmt(sys.argv[1] if len(sys.argv) > 1 else '/repo')
    print(t)
    print(i)
