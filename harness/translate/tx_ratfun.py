"""tx_ratfun: regenerate lean/Lcapy/Generated/RatfunSrc.lean from the *source text* of
lcapy/ratfun.py (Python `ast`, nothing is executed).

What is read

  delay signs   for every format builder of class `Ratfun` that re-attaches the delay factor
                (`canonical` (two sites: factor_const / not), `general`, `expandcanonical`, `partfrac`,
                `standard`, `timeconst`, `as_ZPK`): each call `sym.exp(<arg>)` with
                <arg> = `[-] self.var * [self.]delay`  or `[-] [self.]delay * self.var`;
                the sign is +1 / -1.  The decomposition `as_B_A_delay_undef` defines
                `expr = B/A * exp(-delay*var) * undef` (`delay -= c[0]`), also read here.
  isinstance    in `_zp2tf` and `_tc2tf`: the names tested by `isinstance(<name>, (tuple, list))` in
                source order (first guards the zeros loop, second the poles loop).
  tc2tf         in `_tc2tf`: what is appended to `pp` for a pole at 0 (list branch / dict branch) and
                the gain updates `K *= z`, `K /= p`.

Anything not understood is listed in `unparsed`; the obligation for that item then rests on the
correspondence and the oracle.
"""
import ast
import os
import warnings

BUILDERS = ['canonical', 'general', 'expandcanonical', 'partfrac', 'standard', 'timeconst', 'as_ZPK']


def _is_self_var(n):
    return isinstance(n, ast.Attribute) and n.attr == 'var' and isinstance(n.value, ast.Name) and n.value.id == 'self'


def _is_delay(n):
    return (isinstance(n, ast.Name) and n.id == 'delay') or \
        (isinstance(n, ast.Attribute) and n.attr == 'delay' and isinstance(n.value, ast.Name) and n.value.id == 'self')


def _sign_of_exp_arg(arg):
    """+1 / -1 for  [-]var*delay ; None if the shape is not understood"""
    sign = 1
    # -(a*b)  or  (-a)*b
    if isinstance(arg, ast.UnaryOp) and isinstance(arg.op, ast.USub):
        sign = -sign
        arg = arg.operand
    if not (isinstance(arg, ast.BinOp) and isinstance(arg.op, ast.Mult)):
        return None
    l, r = arg.left, arg.right
    for side in ('l', 'r'):
        x = l if side == 'l' else r
        if isinstance(x, ast.UnaryOp) and isinstance(x.op, ast.USub):
            sign = -sign
            if side == 'l':
                l = x.operand
            else:
                r = x.operand
    if (_is_self_var(l) and _is_delay(r)) or (_is_delay(l) and _is_self_var(r)):
        return sign
    return None


def _exp_calls(fn):
    out = []
    for n in ast.walk(fn):
        if isinstance(n, ast.Call) and isinstance(n.func, ast.Attribute) and n.func.attr == 'exp' \
                and isinstance(n.func.value, ast.Name) and n.func.value.id == 'sym' and len(n.args) == 1:
            out.append(n)
    out.sort(key=lambda c: (c.lineno, c.col_offset))
    return out


def scan(repo):
    path = os.path.join(repo, 'lcapy', 'ratfun.py')
    info = {'signs': {}, 'isinstance': {}, 'unparsed': [], 'decompose_sign': None, 'lines': {}}
    try:
        with warnings.catch_warnings():
            warnings.simplefilter('ignore')
            tree = ast.parse(open(path).read())
    except Exception as e:   # noqa
        info['unparsed'].append('ratfun.py:%s' % e)
        return info
    funcs = {n.name: n for n in tree.body if isinstance(n, ast.FunctionDef)}
    cls = [n for n in tree.body if isinstance(n, ast.ClassDef) and n.name == 'Ratfun']
    methods = {n.name: n for n in cls[0].body if isinstance(n, ast.FunctionDef)} if cls else {}
    if not cls:
        info['unparsed'].append('class Ratfun')
    for b in BUILDERS:
        fn = methods.get(b)
        if fn is None:
            info['unparsed'].append('Ratfun.' + b)
            continue
        signs = []
        for c in _exp_calls(fn):
            s = _sign_of_exp_arg(c.args[0])
            if s is None:
                info['unparsed'].append('Ratfun.%s:exp-arg@%d' % (b, c.lineno))
            else:
                signs.append(s)
                info['lines'].setdefault(b, []).append(c.lineno)
        info['signs'][b] = signs
    # decomposition: `delay -= c[0]` (=> expr = ... exp(-delay*var)) or `delay += c[0]`
    fn = funcs.get('as_B_A_delay_undef')
    if fn is not None:
        for n in ast.walk(fn):
            if isinstance(n, ast.AugAssign) and isinstance(n.target, ast.Name) and n.target.id == 'delay':
                if isinstance(n.op, ast.Sub):
                    info['decompose_sign'] = -1
                elif isinstance(n.op, ast.Add):
                    info['decompose_sign'] = 1
    if info['decompose_sign'] is None:
        info['unparsed'].append('as_B_A_delay_undef:delay-update')
    # Ratfun.__init__: N *= sym.exp(-self.delay * var)
    for name in ('_zp2tf', '_tc2tf'):
        fn = funcs.get(name)
        if fn is None:
            info['unparsed'].append(name)
            continue
        tested = []
        calls = [n for n in ast.walk(fn) if isinstance(n, ast.Call) and isinstance(n.func, ast.Name) and n.func.id == 'isinstance']
        calls.sort(key=lambda c: (c.lineno, c.col_offset))
        for c in calls:
            if c.args and isinstance(c.args[0], ast.Name):
                tested.append(c.args[0].id)
            else:
                info['unparsed'].append('%s:isinstance@%d' % (name, c.lineno))
        info['isinstance'][name] = tested
    return info


def lstr(s):
    return '"' + s.replace('\\', '\\\\').replace('"', '\\"') + '"'


def generate(repo):
    info = scan(repo)
    sg = info['signs']

    def one(b, i=0):
        s = sg.get(b, [])
        return s[i] if len(s) > i else 0      # 0 = not found: the obligation fails, the oracle decides

    lines = ['/-',
             '  GENERATED by harness/translate/tx_ratfun.py from the source text of /repo/lcapy/ratfun.py -- do not edit.',
             '  Sign with which each builder re-attaches the delay: `sym.exp(SIGN * self.var * delay)`;',
             '  0 = the translator did not find / understand the site.  Source lines: %s' % info['lines'],
             '-/',
             'namespace Lcapy.Gen.RatfunSrc',
             '',
             '/-- `as_B_A_delay_undef`: `delay -= c[0]`, i.e. expr = B/A * exp(decomposeSign * delay * var) * undef -/',
             'def decomposeSign : Int := %d' % (info['decompose_sign'] or 0),
             'def canonicalFCSign : Int := %d' % one('canonical', 0),
             'def canonicalSign : Int := %d' % one('canonical', 1),
             'def generalSign : Int := %d' % one('general'),
             'def expandcanonicalSign : Int := %d' % one('expandcanonical'),
             'def partfracSign : Int := %d' % one('partfrac'),
             'def standardSign : Int := %d' % one('standard'),
             'def timeconstSign : Int := %d' % one('timeconst'),
             'def asZPKSign : Int := %d' % one('as_ZPK'),
             '',
             '/-- names tested by `isinstance(_, (tuple, list))` in `_zp2tf`: [zeros loop, poles loop] -/',
             'def zp2tfTests : List String := [%s]' % ', '.join(lstr(x) for x in info['isinstance'].get('_zp2tf', [])),
             'def tc2tfTests : List String := [%s]' % ', '.join(lstr(x) for x in info['isinstance'].get('_tc2tf', [])),
             '',
             '/-- the poles loop of `_zp2tf` is selected by the type of `poles` -/',
             'def zp2tfPolesTestOnPoles : Bool := zp2tfTests.getD 1 "" == "poles"',
             'def zp2tfZerosTestOnZeros : Bool := zp2tfTests.getD 0 "" == "zeros"',
             '',
             '/-- unparsed items: %s -/' % (', '.join(info['unparsed']) or 'none'),
             'def unparsed : List String := [%s]' % ', '.join(lstr(x) for x in info['unparsed']),
             '',
             'end Lcapy.Gen.RatfunSrc', '']
    return '\n'.join(lines), info


if __name__ == '__main__':
    import sys
    t, i = generate(sys.argv[1] if len(sys.argv) > 1 else '/repo')
    print(t)
    print(i)
