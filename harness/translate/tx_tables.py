"""tx_tables: regenerate lean/Lcapy/Generated/Quantities.lean from /repo/lcapy (property C18).

Read from the *source text* with Python's `ast` (nothing executed):
  expr.py          Expr._mul_mapping / Expr._div_mapping        -> mulTable / divTable
  exprclasses.py   every `class X(QMixin, DomainExpression): _default_units = <unit expr>`
                   and the `exprclasses = {domain: {quantity: Class}}` literal   -> classTable units
  domains.py       `domain`, `domain_units`, `is_constant_domain`, `is_transform_domain` of the
                   Domain classes and the `domains = {...}` literal               -> domainTable
  *mixin.py        `quantity`, `is_ratio`, `is_immittance`, `is_signal`, `is_transfer`
                   (via quantities.py `quantities = {...}`)                       -> quantityTable
  texpr/sexpr/fexpr/omegaexpr/jfexpr/jomegaexpr/normfexpr/normomegaexpr.py
                   every `self.change(value, domain=..., units_scale=...)` call   -> transformTable

Read by import-time introspection of the installed package (acceptable for the class table, see
DESIGN.md; part of the trusted base; cross-checked against the AST reading where both exist):
  the `domain` / `quantity` attributes of each class in `exprclasses` (they come through the MRO),
  `exprmap(quantity, domain)` for every pair (-> exprmapTable, against which the hand model of
  exprmap.py is *proved* equal), the set of SI dimensions known to `lcapy.units.units._mapping`.

Anything whose shape is not understood is listed in `unparsed` and not emitted; the Lean
obligations that need it then fail to build (DESIGN.md 2.3).
"""
import ast
import os
import sys

QUANTS = ['undefined', 'constant', 'voltage', 'current', 'admittance', 'impedance', 'transfer',
          'voltagesquared', 'currentsquared', 'admittancesquared', 'impedancesquared', 'power']
DOMAINS = {'undefined': 'undefined', 'constant': 'constant', 'constant time': 'constantTime',
           'constant frequency response': 'constantFrequencyResponse', 'time': 'time',
           'laplace': 'laplace', 'fourier': 'fourier', 'norm fourier': 'normFourier',
           'angular fourier': 'angularFourier', 'norm angular fourier': 'normAngularFourier',
           'frequency response': 'frequencyResponse',
           'angular frequency response': 'angularFrequencyResponse', 'phasor': 'phasor',
           'phasor ratio': 'phasorRatio', 'fourier noise': 'fourierNoise',
           'angular fourier noise': 'angularFourierNoise', 'discrete time': 'discreteTime',
           'discrete fourier': 'discreteFourier', 'Z': 'Z', 'superposition': 'superposition'}
# order of the exponent vector (Lcapy.Dim.U)
SYMS = ['volt', 'ampere', 'ohm', 'siemens', 'watt', 'hertz', 'second', 'radian']
# attribute names of sympy.physics.units used in the sources -> symbol
UU = {'volt': 'volt', 'volts': 'volt', 'V': 'volt', 'ampere': 'ampere', 'amperes': 'ampere', 'A': 'ampere',
      'ohm': 'ohm', 'ohms': 'ohm', 'siemens': 'siemens', 'S': 'siemens', 'watt': 'watt', 'watts': 'watt', 'W': 'watt',
      'Hz': 'hertz', 'hertz': 'hertz', 's': 'second', 'second': 'second', 'seconds': 'second',
      'rad': 'radian', 'radian': 'radian', 'radians': 'radian'}
TRANSFORM_FILES = ['texpr.py', 'sexpr.py', 'fexpr.py', 'omegaexpr.py', 'jfexpr.py', 'jomegaexpr.py',
                   'normfexpr.py', 'normomegaexpr.py',
                   # round 3: the discrete-time family and the constant domains
                   'nexpr.py', 'zexpr.py', 'kexpr.py', 'cexpr.py']


class Unparsed(Exception):
    pass


def vec_add(a, b, k=1):
    return [x + k * y for x, y in zip(a, b)]


def unit_of_ast(node):
    """unit expression (uu.volt / uu.Hz, (uu.ohm / uu.s)**2, S.One, 1 / uu.s, 1) -> exponent list"""
    if isinstance(node, ast.Constant) and node.value == 1:
        return [0] * 8
    if isinstance(node, ast.Attribute) and isinstance(node.value, ast.Name):
        if node.value.id == 'S' and node.attr == 'One':
            return [0] * 8
        if node.value.id in ('uu', 'u') and node.attr in UU:
            v = [0] * 8
            v[SYMS.index(UU[node.attr])] = 1
            return v
        raise Unparsed('unit symbol %s' % ast.unparse(node))
    if isinstance(node, ast.BinOp):
        if isinstance(node.op, ast.Mult):
            return vec_add(unit_of_ast(node.left), unit_of_ast(node.right))
        if isinstance(node.op, ast.Div):
            return vec_add(unit_of_ast(node.left), unit_of_ast(node.right), -1)
        if isinstance(node.op, ast.Pow):
            e = node.right
            if isinstance(e, ast.UnaryOp) and isinstance(e.op, ast.USub) and isinstance(e.operand, ast.Constant):
                n = -e.operand.value
            elif isinstance(e, ast.Constant):
                n = e.value
            else:
                raise Unparsed('unit exponent %s' % ast.unparse(e))
            if not isinstance(n, int):
                raise Unparsed('non-integer unit exponent %s' % ast.unparse(e))
            return [n * x for x in unit_of_ast(node.left)]
    raise Unparsed('unit expression %s' % ast.unparse(node))


def unit_of_sympy(u):
    """sympy unit monomial -> exponent list (introspection side)"""
    import sympy
    from sympy.physics import units as su
    names = {su.volt: 'volt', su.ampere: 'ampere', su.ohm: 'ohm', su.siemens: 'siemens', su.watt: 'watt',
             su.hertz: 'hertz', su.second: 'second', su.radian: 'radian'}
    v = [0] * 8
    u = sympy.sympify(u)
    for base, e in u.as_powers_dict().items():
        if base == 1:
            continue
        if base not in names or not e.is_Integer:
            raise Unparsed('sympy unit %s' % u)
        v[SYMS.index(names[base])] += int(e)
    return v


def lean_u(v):
    return '⟨%s⟩' % ', '.join(str(x) for x in v)


def lean_q(name):
    if name not in QUANTS:
        raise Unparsed('quantity name %r' % name)
    return '.' + name


def lean_d(name):
    if name not in DOMAINS:
        raise Unparsed('domain name %r' % name)
    return '.' + DOMAINS[name]


def lean_b(b):
    return 'true' if b else 'false'


def class_attrs(tree):
    """{class name: ({attr: ast value}, [base names])} for simple `name = value` class attributes"""
    out = {}
    for node in tree.body:
        if isinstance(node, ast.ClassDef):
            attrs = {}
            for st in node.body:
                if isinstance(st, ast.Assign) and len(st.targets) == 1 and isinstance(st.targets[0], ast.Name):
                    attrs[st.targets[0].id] = st.value
            out[node.name] = (attrs, [b.id for b in node.bases if isinstance(b, ast.Name)])
    return out


def module_dict_literal(tree, name):
    for node in tree.body:
        if isinstance(node, ast.Assign) and len(node.targets) == 1 and isinstance(node.targets[0], ast.Name) \
                and node.targets[0].id == name and isinstance(node.value, ast.Dict):
            return node.value
    raise Unparsed('module-level dict literal %s' % name)


def const_attr(classes, cname, attr, default=None):
    """value of a constant class attribute, following single-name bases inside the same module"""
    seen = set()
    stack = [cname]
    while stack:
        c = stack.pop(0)
        if c in seen or c not in classes:
            continue
        seen.add(c)
        attrs, bases = classes[c]
        if attr in attrs:
            v = attrs[attr]
            if isinstance(v, ast.Constant):
                return v.value
            return v
        stack.extend(bases)
    return default


def mapping_table(repo, which, unparsed):
    src = open(os.path.join(repo, 'lcapy', 'expr.py')).read()
    tree = ast.parse(src)
    rows = []
    found = None
    for node in tree.body:
        if isinstance(node, ast.ClassDef) and node.name == 'Expr':
            for st in node.body:
                if isinstance(st, ast.Assign) and len(st.targets) == 1 and getattr(st.targets[0], 'id', None) == which:
                    found = st
    if found is None or not isinstance(found.value, ast.Dict):
        unparsed.append({'item': which, 'why': 'not a dict literal in class Expr'})
        return [], 0
    d = {}
    dup = 0
    for k, v in zip(found.value.keys, found.value.values):
        try:
            if not (isinstance(k, ast.Tuple) and len(k.elts) == 2 and all(isinstance(e, ast.Constant) and isinstance(e.value, str) for e in k.elts)
                    and isinstance(v, ast.Constant) and isinstance(v.value, str)):
                raise Unparsed('row %s: %s' % (ast.unparse(k) if k is not None else '**', ast.unparse(v)))
            key = (k.elts[0].value, k.elts[1].value)
            for n in key + (v.value,):
                lean_q(n)
            if key in d:
                dup += 1
                del d[key]         # Python keeps the last value for a repeated key
            d[key] = v.value
        except Unparsed as e:
            unparsed.append({'item': which, 'why': str(e)})
    # any other statement touching the table?
    others = 0
    for fn in sorted(os.listdir(os.path.join(repo, 'lcapy'))):
        if fn.endswith('.py'):
            txt = open(os.path.join(repo, 'lcapy', fn)).read()
            for line in txt.split('\n'):
                if which in line and ('%s[' % which in line and '=' in line.split('%s[' % which, 1)[1].split(']', 1)[-1][:4]
                                      or '%s.update' % which in line or '%s.pop' % which in line):
                    if 'self.%s[key]' % which in line and '= self.' in line:
                        continue
                    others += 1
    if others:
        unparsed.append({'item': which, 'why': '%d statements modify the table outside its literal' % others})
    rows = [(a, b, c) for (a, b), c in d.items()]
    return rows, dup


def transform_rows(repo, class_domain, unparsed):
    """every `self.change(value, <domain>, units_scale=<u>)` in the transform methods"""
    rows = []
    for fn in TRANSFORM_FILES:
        path = os.path.join(repo, 'lcapy', fn)
        if not os.path.exists(path):
            continue
        tree = ast.parse(open(path).read())
        # a base class of the file whose methods the generic classes inherit (cexpr.py: ConstantExpr):
        # its rows are emitted for every generic class of the file that derives from it and does not override the method
        local = {n.name: n for n in tree.body if isinstance(n, ast.ClassDef)}
        work = []
        for node in tree.body:
            if not isinstance(node, ast.ClassDef):
                continue
            if node.name in class_domain:
                work.append((node, class_domain[node.name], None))
            else:
                for sub in local.values():
                    if sub.name in class_domain and any(isinstance(b, ast.Name) and b.id == node.name for b in sub.bases):
                        own = {f.name for f in sub.body if isinstance(f, ast.FunctionDef)}
                        work.append((node, class_domain[sub.name], own))
        for node, src, overridden in work:
            for f in node.body:
                if overridden is not None and isinstance(f, ast.FunctionDef) and f.name in overridden:
                    continue
                if not isinstance(f, ast.FunctionDef):
                    continue
                calls = []
                for sub in ast.walk(f):
                    if isinstance(sub, ast.Return) and isinstance(sub.value, ast.Call) and is_change(sub.value):
                        calls.append((sub.value, True))
                for sub in ast.walk(f):
                    if isinstance(sub, ast.Call) and is_change(sub) and not any(sub is c for c, _ in calls):
                        calls.append((sub, False))
                seen = set()
                for call, direct in calls:
                    try:
                        dom = None
                        scale = None
                        if len(call.args) >= 2:
                            dom = call.args[1]
                        for kw in call.keywords:
                            if kw.arg == 'domain':
                                dom = kw.value
                            if kw.arg == 'units_scale':
                                scale = kw.value
                        if dom is None:
                            continue          # change within the same domain
                        if not (isinstance(dom, ast.Constant) and isinstance(dom.value, str)):
                            raise Unparsed('domain argument %s' % ast.unparse(dom))
                        lean_d(dom.value)
                        sc = None if scale is None else unit_of_ast(scale)
                        key = (src, f.name, dom.value)
                        if key in seen:
                            continue          # several branches of one method to the same domain: keep the first
                        seen.add(key)
                        rows.append({'src': src, 'method': f.name, 'dst': dom.value, 'scale': sc,
                                     'direct': direct or assigns_units(f),
                                     'where': '%s:%d' % (fn, call.lineno)})
                    except Unparsed as e:
                        unparsed.append({'item': '%s.%s' % (node.name, f.name), 'why': str(e)})
    return rows


def assigns_units(fn, owner=None):
    """does the function contain `<owner>.units = ...` (any name when owner is None)?"""
    for sub in ast.walk(fn):
        if isinstance(sub, ast.Assign):
            for t in sub.targets:
                if isinstance(t, ast.Attribute) and t.attr == 'units' and isinstance(t.value, ast.Name) \
                        and (owner is None or t.value.id == owner):
                    return True
    return False


def method_of(tree, cname, mname):
    for node in tree.body:
        if isinstance(node, ast.ClassDef) and node.name == cname:
            for f in node.body:
                if isinstance(f, ast.FunctionDef) and f.name == mname:
                    return f
    return None


def code_flags(repo, unparsed):
    """structural facts about the operator code that the hand model branches on"""
    lc = os.path.join(repo, 'lcapy')
    tree = ast.parse(open(os.path.join(lc, 'expr.py')).read())
    flags = {}
    f = method_of(tree, 'Expr', '__truediv__')
    flags['divRestoresUnits'] = bool(f) and assigns_units(f, 'x')
    f = method_of(tree, 'Expr', '__pow__')
    flags['powSetsUnits'] = bool(f) and assigns_units(f)
    rec = []
    keep = []
    for fn, cn in (('impedancemixin.py', 'ImpedanceMixin'), ('admittancemixin.py', 'AdmittanceMixin')):
        f = method_of(ast.parse(open(os.path.join(lc, fn)).read()), cn, '__rtruediv__')
        rec.append(bool(f) and assigns_units(f))
        # is the reciprocal built with self._class_by_quantity(<quantity>)(value, **self.assumptions) (keeps the domain
        # of the operand) or with the factory admittance(value) / impedance(value) (class chosen from the expression)?
        k = None
        if f:
            for sub in ast.walk(f):
                if isinstance(sub, ast.Assign) and getattr(sub.targets[0], 'id', None) == 'ret' and isinstance(sub.value, ast.Call):
                    fn_ = sub.value.func
                    if isinstance(fn_, ast.Call) and ast.unparse(fn_.func) == 'self._class_by_quantity' and len(fn_.args) == 1:
                        k = True
                    elif isinstance(fn_, ast.Name) and fn_.id in ('admittance', 'impedance'):
                        k = False
        keep.append(k)
    if rec[0] != rec[1] or keep[0] != keep[1]:
        unparsed.append({'item': 'flags.recipSetsUnits/recipKeepsDomain', 'why': 'the two immittance mixins differ'})
    if keep[0] is None:
        unparsed.append({'item': 'flags.recipKeepsDomain', 'why': 'shape of `ret = ...` in __rtruediv__ not understood'})
    flags['recipSetsUnits'] = all(rec)
    flags['recipKeepsDomain'] = bool(keep[0]) and bool(keep[1])
    # the omega-domain special cases of __compat_add__: top level, or guarded by a test on the quantities
    f = method_of(tree, 'Expr', '__compat_add__')
    guarded = None
    if f:
        for st in f.body:
            if isinstance(st, ast.If):
                test = ast.unparse(st.test)
                if 'is_phasor_ratio_domain' in test:
                    guarded = False
                elif 'quantity' in test and any(isinstance(b, ast.If) and 'is_phasor_ratio_domain' in ast.unparse(b.test) for b in st.body):
                    guarded = ('self.quantity == x.quantity' in test)
    if guarded is None:
        unparsed.append({'item': 'flags.omegaNeedsQuantity', 'why': 'omega-domain special cases not found in __compat_add__'})
        guarded = False
    flags['omegaNeedsQuantity'] = guarded
    # units.py: does simplify_units fold Hz into 1/s for units without a named equivalent?
    ut = ast.parse(open(os.path.join(lc, 'units.py')).read())
    f = method_of(ut, 'Units', 'simplify_units')
    fold = False
    if f:
        for st in f.body:
            if isinstance(st, ast.If) and '_mapping' in ast.unparse(st.test):
                body = ast.unparse(st)
                fold = ('.subs(' in body or '.replace(' in body or '.xreplace(' in body) and 'Hz' in body
    else:
        unparsed.append({'item': 'flags.canonFoldsHertz', 'why': 'Units.simplify_units not found'})
    flags['canonFoldsHertz'] = fold
    # where is state.canonical_units read?  (only the printing properties `_pexpr` may)
    readers = []
    for fn in sorted(os.listdir(lc)):
        if not fn.endswith('.py') or fn in ('state.py', 'config.py'):
            continue
        try:
            t = ast.parse(open(os.path.join(lc, fn)).read())
        except SyntaxError:
            continue
        for node in ast.walk(t):
            if isinstance(node, (ast.FunctionDef, ast.AsyncFunctionDef)):
                for sub in ast.walk(node):
                    if isinstance(sub, ast.Attribute) and sub.attr == 'canonical_units' and isinstance(sub.ctx, ast.Load) \
                            and isinstance(sub.value, ast.Name) and sub.value.id == 'state':
                        readers.append('%s:%s' % (fn, node.name))
    flags['canonicalOnlyPrinting'] = bool(readers) and all(r.split(':')[1] == '_pexpr' for r in readers)
    flags['canonical_units_readers'] = sorted(set(readers))
    return flags


def is_change(call):
    return isinstance(call.func, ast.Attribute) and call.func.attr == 'change' and \
        isinstance(call.func.value, ast.Name) and call.func.value.id == 'self'


def generate(repo='/repo'):
    unparsed = []
    info = {'unparsed': unparsed}
    lc = os.path.join(repo, 'lcapy')
    if repo != '/repo' and repo not in sys.path:
        sys.path.insert(0, repo)

    # ---- 1. the two algebra tables (AST)
    mul, dup_m = mapping_table(repo, '_mul_mapping', unparsed)
    div, dup_d = mapping_table(repo, '_div_mapping', unparsed)
    info['mul_rows'], info['div_rows'], info['duplicate_keys'] = len(mul), len(div), dup_m + dup_d

    # ---- 2. domains (AST)
    dtree = ast.parse(open(os.path.join(lc, 'domains.py')).read())
    dclasses = class_attrs(dtree)
    dom_rows = []
    domain_class = {}
    try:
        dlit = module_dict_literal(dtree, 'domains')
        for k, v in zip(dlit.keys, dlit.values):
            name, cname = k.value, v.id
            domain_class[cname] = name
            try:
                if const_attr(dclasses, cname, 'domain') != name:
                    raise Unparsed('domains[%r] is %s whose .domain is %r' % (name, cname, const_attr(dclasses, cname, 'domain')))
                du = const_attr(dclasses, cname, 'domain_units', 1)
                du = [0] * 8 if du == 1 else unit_of_ast(du)
                dom_rows.append((name, du, bool(const_attr(dclasses, cname, 'is_constant_domain', False)),
                                 bool(const_attr(dclasses, cname, 'is_transform_domain', False))))
                lean_d(name)
            except Unparsed as e:
                unparsed.append({'item': 'domain %s' % name, 'why': str(e)})
    except Unparsed as e:
        unparsed.append({'item': 'domains', 'why': str(e)})

    # ---- 3. quantities (AST)
    q_rows = []
    try:
        qtree = ast.parse(open(os.path.join(lc, 'quantities.py')).read())
        qlit = module_dict_literal(qtree, 'quantities')
        imports = {}
        for node in qtree.body:
            if isinstance(node, ast.ImportFrom):
                for a in node.names:
                    imports[a.asname or a.name] = node.module
        base = class_attrs(ast.parse(open(os.path.join(lc, 'quantity.py')).read()))
        for k, v in zip(qlit.keys, qlit.values):
            name, cname = k.value, v.id
            try:
                mtree = ast.parse(open(os.path.join(lc, imports[cname] + '.py')).read())
                mclasses = class_attrs(mtree)
                mclasses.update({kk: vv for kk, vv in base.items() if kk not in mclasses})
                if const_attr(mclasses, cname, 'quantity') != name:
                    raise Unparsed('quantities[%r] is %s whose .quantity differs' % (name, cname))
                lean_q(name)
                # is_undefined: the concrete classes are (Mixin, DomainExpression); DomainExpression derives from
                # UndefinedQuantity (True), which the MRO reaches before Quantity (False), so only the mixin's own
                # attribute can make it False
                own = mclasses[cname][0].get('is_undefined')
                undef = True if own is None else bool(own.value)
                q_rows.append((name, cname) + tuple(bool(const_attr(mclasses, cname, a, False))
                                                    for a in ('is_ratio', 'is_immittance', 'is_signal', 'is_transfer')) + (undef,))
            except (Unparsed, KeyError, OSError) as e:
                unparsed.append({'item': 'quantity %s' % name, 'why': str(e)})
    except Unparsed as e:
        unparsed.append({'item': 'quantities', 'why': str(e)})
    mixin_quantity = {r[1]: r[0] for r in q_rows}

    # ---- 4. class table: AST for the units, introspection for domain/quantity attributes and exprmap
    import warnings
    warnings.filterwarnings('ignore')
    import importlib
    exprclasses_mod = importlib.import_module('lcapy.exprclasses')
    exprmap_mod = importlib.import_module('lcapy.exprmap')
    units_mod = importlib.import_module('lcapy.units')
    info['introspected_from'] = os.path.dirname(os.path.abspath(exprclasses_mod.__file__))
    ctree = ast.parse(open(os.path.join(lc, 'exprclasses.py')).read())
    cclasses = class_attrs(ctree)
    class_rows = []
    mismatches = []
    class_domain = {}
    try:
        clit = module_dict_literal(ctree, 'exprclasses')
        for dk, dv in zip(clit.keys, clit.values):
            dname = dk.value
            if not isinstance(dv, ast.Dict):
                raise Unparsed('exprclasses[%r] is not a dict literal' % dname)
            for qk, qv in zip(dv.keys, dv.values):
                qname, cname = qk.value, qv.id
                try:
                    lean_d(dname), lean_q(qname)
                    cls = getattr(exprclasses_mod, cname)
                    cdom, cq = getattr(cls, 'domain', None), getattr(cls, 'quantity', None)
                    lean_d(cdom), lean_q(cq)
                    if qname == 'undefined':
                        class_domain[cname] = dname
                    units = None
                    if cname in cclasses:
                        attrs, bases = cclasses[cname]
                        if '_default_units' in attrs:
                            units = unit_of_ast(attrs['_default_units'])
                        # the mixin named in the source must be the quantity the MRO reports
                        mq = [mixin_quantity[b] for b in bases if b in mixin_quantity]
                        if mq and mq[0] != cq:
                            mismatches.append('%s: mixin %s vs .quantity %s' % (cname, mq[0], cq))
                    live = getattr(cls, '_default_units', None)
                    if (live is None) != (units is None) or (live is not None and unit_of_sympy(live) != units):
                        mismatches.append('%s: source units %s vs live %s' % (cname, units, live))
                        units = None if live is None else unit_of_sympy(live)
                    class_rows.append((dname, qname, cdom, cq, units))
                except Unparsed as e:
                    unparsed.append({'item': 'class %s' % cname, 'why': str(e)})
    except Unparsed as e:
        unparsed.append({'item': 'exprclasses', 'why': str(e)})
    # the flags read from the mixin sources must be what the live classes report
    for r in q_rows:
        try:
            cls = exprclasses_mod.exprclasses['laplace'][r[0]]
            live = tuple(bool(getattr(cls, a)) for a in ('is_ratio', 'is_immittance', 'is_signal', 'is_transfer', 'is_undefined'))
            if live != tuple(r[2:7]):
                mismatches.append('%s flags: source %s vs live %s' % (r[0], r[2:7], live))
        except Exception as e:   # noqa
            mismatches.append('%s flags: %s' % (r[0], e))
    info['class_rows'] = len(class_rows)
    info['ast_vs_introspection_mismatches'] = mismatches

    exprmap_rows = []
    for (dname, _, _, _) in dom_rows:
        if dname not in exprclasses_mod.exprclasses:
            continue
        for qname in QUANTS:
            if qname == 'constant':
                continue
            try:
                cls = exprmap_mod.exprmap(qname, dname)
                exprmap_rows.append((qname, dname, cls.domain))
                lean_d(cls.domain)
            except Exception as e:   # noqa
                unparsed.append({'item': 'exprmap(%s, %s)' % (qname, dname), 'why': '%s: %s' % (type(e).__name__, e)})

    # ---- 5. transforms (AST)
    tr_rows = transform_rows(repo, class_domain, unparsed)
    info['transform_rows'] = len(tr_rows)

    flags = code_flags(repo, unparsed)
    info['flags'] = flags

    # ---- 6. SI dimensions known to Units._mapping, on the box |v|,|a| <= 4, |t| <= 6
    known = []
    try:
        from sympy.physics import units as su
        U = units_mod.units
        for v in range(-4, 5):
            for a in range(-4, 5):
                for t in range(-6, 7):
                    unit = su.volt ** v * su.ampere ** a * su.second ** t
                    if U._makekey(unit) in U._mapping:
                        known.append((v, a, t))
    except Exception as e:   # noqa
        unparsed.append({'item': 'knownDims', 'why': '%s: %s' % (type(e).__name__, e)})
    info['known_dims'] = len(known)

    # ---- emit
    out = []
    w = out.append
    w('/- GENERATED by harness/translate/tx_tables.py from %s -- do not edit.' % '/repo/lcapy')
    w('   Rewritten on every run of ./vcheck C18; a baseline copy is committed. -/')
    w('import Lcapy.Model.Quantities')
    w('namespace Lcapy.Gen.Q')
    w('open Lcapy.Dim Lcapy.QModel')
    w('')
    for nm, rows, src in (('mulTable', mul, '_mul_mapping'), ('divTable', div, '_div_mapping')):
        w('/-- lcapy/expr.py  Expr.%s  (%d rows) -/' % (src, len(rows)))
        w('def %s : List (Quantity × Quantity × Quantity) := [' % nm)
        w(',\n'.join('  (%s, %s, %s)' % (lean_q(a), lean_q(b), lean_q(c)) for a, b, c in rows))
        w(']')
        w('')
    w('/-- lcapy/exprclasses.py: exprclasses[domain][quantity] with the class\'s own domain/quantity and _default_units -/')
    w('def classTable : List ClassRow := [')
    w(',\n'.join('  ⟨%s, %s, %s, %s, %s⟩' % (lean_d(d), lean_q(q), lean_d(cd), lean_q(cq),
                                              'none' if u is None else 'some ' + lean_u(u))
                 for d, q, cd, cq, u in class_rows))
    w(']')
    w('')
    w('/-- lcapy/domains.py: domain, domain_units, is_constant_domain, is_transform_domain -/')
    w('def domainTable : List DomainRow := [')
    w(',\n'.join('  ⟨%s, %s, %s, %s⟩' % (lean_d(d), lean_u(u), lean_b(c), lean_b(t)) for d, u, c, t in dom_rows))
    w(']')
    w('')
    w('/-- lcapy/quantities.py + *mixin.py: quantity, is_ratio, is_immittance, is_signal, is_transfer, is_undefined -/')
    w('def quantityTable : List QuantityRow := [')
    w(',\n'.join('  ⟨%s, %s, %s, %s, %s, %s⟩' % (lean_q(r[0]), lean_b(r[2]), lean_b(r[3]), lean_b(r[4]), lean_b(r[5]), lean_b(r[6])) for r in q_rows))
    w(']')
    w('')
    w('/-- lcapy/exprmap.py evaluated on every (quantity, domain): the domain of the class returned -/')
    w('def exprmapTable : List (Quantity × Domain × Domain) := [')
    w(',\n'.join('  (%s, %s, %s)' % (lean_q(q), lean_d(d), lean_d(cd)) for q, d, cd in exprmap_rows))
    w(']')
    w('')
    w('/-- every `self.change(value, domain, units_scale)` of the transform methods -/')
    w('def transformTable : List TransformRow := [')
    for i, r in enumerate(tr_rows):
        w('  ⟨%s, "%s", %s, %s, %s⟩%s  -- %s' % (
            lean_d(r['src']), r['method'], lean_d(r['dst']),
            'none' if r['scale'] is None else 'some ' + lean_u(r['scale']), lean_b(r['direct']),
            ',' if i + 1 < len(tr_rows) else '', r['where']))
    w(']')
    w('')
    w('/-- SI dimensions (V, A, s exponents) present in lcapy.units.units._mapping, box |v|,|a| ≤ 4, |t| ≤ 6 -/')
    w('def knownDims : List Dim3 := [')
    w(',\n'.join('  ' + ', '.join('⟨%d, %d, %d⟩' % k for k in known[i:i + 8]) for i in range(0, len(known), 8)))
    w(']')
    w('')
    w('/-- structural facts read from the operator code (expr.py, impedancemixin.py, admittancemixin.py) -/')
    w('def codeFlags : Flags :=')
    w('  { divRestoresUnits := %s, powSetsUnits := %s, recipSetsUnits := %s, omegaNeedsQuantity := %s,' % tuple(
        lean_b(flags[k]) for k in ('divRestoresUnits', 'powSetsUnits', 'recipSetsUnits', 'omegaNeedsQuantity')))
    w('    canonFoldsHertz := %s, canonicalOnlyPrinting := %s, recipKeepsDomain := %s }' % (
        lean_b(flags['canonFoldsHertz']), lean_b(flags['canonicalOnlyPrinting']), lean_b(flags['recipKeepsDomain'])))
    w('')
    w('def tables : Tables :=')
    w('  { mul := mulTable, div := divTable, classes := classTable, domains := domainTable,')
    w('    quantities := quantityTable, exprmap := exprmapTable, transforms := transformTable,')
    w('    knownDims := knownDims, flags := codeFlags }')
    w('')
    w('end Lcapy.Gen.Q')
    text = '\n'.join(out) + '\n'
    info['tables'] = {'mul': mul, 'div': div, 'transforms': tr_rows, 'exprmap_rows': len(exprmap_rows),
                      'domains': [d for d, _, _, _ in dom_rows], 'quantities': [r[0] for r in q_rows]}
    return text, info


if __name__ == '__main__':
    repo = sys.argv[1] if len(sys.argv) > 1 else '/repo'
    text, info = generate(repo)
    sys.stdout.write(text)
    sys.stderr.write('unparsed: %s\n' % info['unparsed'])
