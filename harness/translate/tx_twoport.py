"""tx_twoport: regenerate lean/Lcapy/Generated/TwoPort.lean from /repo/lcapy/twoport.py.

Reads the *source text* of the eight parameter-matrix classes (AMatrix ... ZMatrix), the
fall-backs in TwoPortMatrix and the derived attributes in TwoPortMixin with Python's `ast`
module and emits one Lean definition per (class, attribute), mirroring the call structure of
the code (a delegation `self.Hparams.Yparams` becomes `H_to_Y (G_to_H m Z0) Z0`).

Nothing of the modelled logic is executed.  Anything whose shape is not understood is
recorded in the `unparsed` list of the JSON side file and simply not emitted, so that a Lean
obligation that mentions it fails to build and the check falls back on the correspondence.
"""
import ast
import json
import os
import sys

REPS = ['A', 'B', 'G', 'H', 'S', 'T', 'Y', 'Z']
SCALARS = ['Z1oc', 'Z1sc', 'Z2oc', 'Z2sc', 'Vgain12', 'Vgain21', 'Igain12', 'Igain21',
           'forward_transadmittance', 'reverse_transadmittance',
           'forward_transimpedance', 'reverse_transimpedance',
           'voltage_gain', 'forward_voltage_gain', 'reverse_voltage_gain',
           'current_gain', 'forward_current_gain', 'reverse_current_gain',
           'transadmittance', 'transimpedance']
SECTIONS = ['Zseries', 'Yseries', 'Yshunt', 'Zshunt', 'transformer', 'gyrator',
            'Lsection', 'Tsection', 'Pisection', 'voltage_amplifier', 'current_amplifier']
WRAPPERS = {'LaplaceDomainImpedance', 'LaplaceDomainAdmittance', 'LaplaceDomainTransferFunction',
            'LaplaceDomainExpression', 'ConstantDomainExpression', 'expr',
            'LaplaceDomainVoltage', 'LaplaceDomainCurrent'}
IDX = {'11': 'a11', '12': 'a12', '21': 'a21', '22': 'a22'}


class Unparsed(Exception):
    pass


class Tx:
    def __init__(self, src):
        self.tree = ast.parse(src)
        self.classes = {}
        for node in self.tree.body:
            if isinstance(node, ast.ClassDef):
                self.classes[node.name] = {f.name: f for f in node.body if isinstance(f, ast.FunctionDef)}
        self.defs = {}        # name -> (lean text, kind, lineno)
        self.order = []
        self.stack = []
        self.unparsed = []
        self.routes = {}

    # ---------------- method resolution
    def lookup(self, rep, attr):
        for cname in (rep + 'Matrix', 'TwoPortMatrix', 'TwoPortMixin'):
            f = self.classes.get(cname, {}).get(attr)
            if f is not None:
                return cname, f
        raise Unparsed('%sMatrix.%s not found' % (rep, attr))

    # ---------------- requesting a definition (emits dependencies first)
    def need_conv(self, x, p):
        name = '%s_to_%s' % (x, p)
        self.need(name, x, p + 'params', 'mat')
        return name

    def need_scalar(self, x, attr):
        name = '%s_%s' % (x, attr)
        self.need(name, x, attr, 'scalar')
        return name

    def need(self, name, rep, attr, kind):
        if name in self.defs:
            if self.defs[name] is None:
                raise Unparsed('%s depends on untranslatable/cyclic %s' % (self.stack[-1] if self.stack else '?', name))
            return
        if name in self.stack:
            raise Unparsed('cycle through %s' % name)
        self.stack.append(name)
        try:
            cname, f = self.lookup(rep, attr)
            body, route = self.method_body(rep, f, kind)
            ty = 'M2 K' if kind == 'mat' else 'K'
            text = '/-- %s.%s (twoport.py:%d) -/\ndef %s (m : M2 K) (Z0 : K) : %s :=\n  %s\n' % (
                cname, attr, f.lineno, name, ty, body)
            self.defs[name] = text
            self.order.append(name)
            self.routes[name] = {'defined_in': cname, 'line': f.lineno, 'route': route}
        except Unparsed as e:
            self.defs[name] = None
            self.unparsed.append({'item': name, 'why': str(e)})
            raise
        finally:
            self.stack.pop()

    # ---------------- statement level
    def method_body(self, rep, f, kind):
        env = {}
        ret = None
        for st in f.body:
            if isinstance(st, ast.Expr) and isinstance(st.value, ast.Constant):
                continue   # docstring
            if isinstance(st, ast.Assign) and len(st.targets) == 1 and isinstance(st.targets[0], ast.Name):
                env[st.targets[0].id] = st.value
                continue
            if isinstance(st, ast.If):
                # memo pattern: if not hasattr(self, '_X'): [assigns]; self._X = <value>
                t = st.test
                if (isinstance(t, ast.UnaryOp) and isinstance(t.op, ast.Not) and isinstance(t.operand, ast.Call)
                        and getattr(t.operand.func, 'id', None) == 'hasattr'):
                    memo = t.operand.args[1].value
                    for s2 in st.body:
                        if isinstance(s2, ast.Assign) and isinstance(s2.targets[0], ast.Name):
                            env[s2.targets[0].id] = s2.value
                        elif (isinstance(s2, ast.Assign) and isinstance(s2.targets[0], ast.Attribute)
                              and s2.targets[0].attr == memo):
                            env['self.' + memo] = s2.value
                        elif isinstance(s2, ast.If) and self.is_warn_only(s2):
                            continue
                        else:
                            raise Unparsed('memo body statement %s' % ast.unparse(s2)[:60])
                    continue
                if self.is_warn_only(st):
                    continue
                raise Unparsed('if statement %s' % ast.unparse(st.test)[:60])
            if isinstance(st, ast.Return):
                ret = st.value
                continue
            raise Unparsed('statement %s' % type(st).__name__)
        if ret is None:
            raise Unparsed('no return')
        if kind == 'mat':
            return self.mat(rep, ret, env), self.route_of(ret, env)
        return self.sc(rep, ret, env), self.route_of(ret, env)

    @staticmethod
    def is_warn_only(st):
        return all(isinstance(s, ast.Expr) and isinstance(s.value, ast.Call)
                   and getattr(s.value.func, 'id', None) == 'warn' for s in st.body) and not st.orelse

    def route_of(self, ret, env):
        s = ast.unparse(ret)
        if s == 'self':
            return 'identity'
        if s.startswith('self._') and s[5:] in ['_' + r + 'params' for r in REPS]:
            return 'memo:' + ast.unparse(env.get('self.' + s[5:], ret))[:40]
        if '.inv()' in s:
            return 'inverse'
        if s.startswith('self.') and 'Matrix' not in s and 'LaplaceDomain' not in s:
            return 'delegate:' + s
        return 'formula'

    # ---------------- matrix-valued expressions
    def mat(self, rep, e, env):
        # strip .simplify()
        if isinstance(e, ast.Call) and isinstance(e.func, ast.Attribute) and e.func.attr == 'simplify' and not e.args:
            return self.mat(rep, e.func.value, env)
        if isinstance(e, ast.Name):
            if e.id == 'self':
                return 'm'
            if e.id in env:
                return self.mat(rep, env[e.id], env)
            raise Unparsed('matrix name %s' % e.id)
        if isinstance(e, ast.Attribute) and isinstance(e.value, ast.Name) and e.value.id == 'self' \
                and e.attr.startswith('_') and e.attr.endswith('params') and ('self.' + e.attr) in env:
            return self.mat(rep, env['self.' + e.attr], env)
        # self.Pparams  /  <mat>.Pparams
        if isinstance(e, ast.Attribute) and e.attr.endswith('params') and e.attr[0] in REPS and len(e.attr) == 7:
            p = e.attr[0]
            inner_rep, inner = self.mat_with_rep(rep, e.value, env)
            return '(%s %s Z0)' % (self.need_conv(inner_rep, p), inner)
        if isinstance(e, ast.Call):
            fn = e.func
            # XMatrix(arg)
            if isinstance(fn, ast.Name) and fn.id.endswith('Matrix') and fn.id[0] in REPS and len(e.args) == 1:
                a = e.args[0]
                if isinstance(a, ast.Tuple):
                    rows = a.elts
                    if len(rows) == 2 and all(isinstance(r, ast.Tuple) and len(r.elts) == 2 for r in rows):
                        ents = [self.sc(rep, x, env) for r in rows for x in r.elts]
                        return '(⟨%s,\n    %s,\n    %s,\n    %s⟩ : M2 K)' % tuple(ents)
                    raise Unparsed('matrix literal shape')
                return self.mat(rep, a, env)
            # <mat>.inv()
            if isinstance(fn, ast.Attribute) and fn.attr == 'inv' and not e.args:
                return '(M2.inv %s)' % self.mat(rep, fn.value, env)
        if isinstance(e, ast.BinOp) and isinstance(e.op, ast.Div):
            return '(M2.sdiv %s %s)' % (self.mat(rep, e.left, env), self.sc(rep, e.right, env))
        raise Unparsed('matrix expression %s' % ast.unparse(e)[:60])

    def mat_with_rep(self, rep, e, env):
        """translate a matrix-valued sub-expression and say which representation it is in"""
        if isinstance(e, ast.Name) and e.id == 'self':
            return rep, 'm'
        if isinstance(e, ast.Attribute) and e.attr.endswith('params') and e.attr[0] in REPS and len(e.attr) == 7:
            return e.attr[0], self.mat(rep, e, env)
        raise Unparsed('receiver %s' % ast.unparse(e)[:60])

    # ---------------- scalar expressions
    def sc(self, rep, e, env):
        if isinstance(e, ast.Constant) and isinstance(e.value, int) and not isinstance(e.value, bool):
            if e.value < 0:
                return '(-%d)' % -e.value
            return '%d' % e.value
        if isinstance(e, ast.Name):
            if e.id in env:
                return self.sc(rep, env[e.id], env)
            if e.id == 'Z0':
                return 'Z0'
            raise Unparsed('name %s' % e.id)
        if isinstance(e, ast.UnaryOp) and isinstance(e.op, ast.USub):
            return '(-%s)' % self.sc(rep, e.operand, env)
        if isinstance(e, ast.BinOp):
            if isinstance(e.op, ast.Pow):
                if isinstance(e.right, ast.Constant) and isinstance(e.right.value, int) and 1 <= e.right.value <= 4:
                    b = self.sc(rep, e.left, env)
                    return '(' + ' * '.join([b] * e.right.value) + ')'
                raise Unparsed('power %s' % ast.unparse(e))
            ops = {ast.Add: '+', ast.Sub: '-', ast.Mult: '*', ast.Div: '/'}
            for k, v in ops.items():
                if isinstance(e.op, k):
                    return '(%s %s %s)' % (self.sc(rep, e.left, env), v, self.sc(rep, e.right, env))
            raise Unparsed('operator %s' % type(e.op).__name__)
        if isinstance(e, ast.Call):
            fn = e.func
            if isinstance(fn, ast.Name) and fn.id in WRAPPERS and len(e.args) == 1:
                a = e.args[0]
                if isinstance(a, ast.Constant) and a.value == 'Z_0':
                    return 'Z0'
                return self.sc(rep, a, env)
            if isinstance(fn, ast.Attribute) and fn.attr == 'as_expr' and not e.args:
                return self.sc(rep, fn.value, env)
            if isinstance(fn, ast.Attribute) and fn.attr == 'det' and not e.args:
                return '(M2.det %s)' % self.mat(rep, fn.value, env)
        if isinstance(e, ast.Attribute):
            if e.attr == 'expr':
                return self.sc(rep, e.value, env)
            # self._A12 / self.A12 / <mat>._A12
            a = e.attr.lstrip('_')
            if len(a) == 3 and a[0] in REPS and a[1:] in IDX:
                inner_rep, inner = self.mat_with_rep(rep, e.value, env)
                p = a[0]
                if p == inner_rep:
                    return '%s.%s' % (inner, IDX[a[1:]])
                return '(%s %s Z0).%s' % (self.need_conv(inner_rep, p), inner, IDX[a[1:]])
            if e.attr in SCALARS:
                inner_rep, inner = self.mat_with_rep(rep, e.value, env)
                return '(%s %s Z0)' % (self.need_scalar(inner_rep, e.attr), inner)
        raise Unparsed('scalar expression %s' % ast.unparse(e)[:60])

    # ---------------- class methods (sections, chain)
    def chain_order(self, rep):
        """Return 'self*TP' or 'TP*self' for XMatrix.chain.  The other operand may be converted to the
        class's own representation first (`self * TP.Aparams` in AMatrix.chain): on an argument that already is
        an X matrix that conversion is the identity; which conversion (if any) is applied is recorded in
        `self.chain_arg_conv[rep]` ('raw' when the argument's entries are used as they are)."""
        f = self.classes.get(rep + 'Matrix', {}).get('chain')
        if f is None:
            raise Unparsed('%sMatrix.chain missing' % rep)
        ret = [s for s in f.body if isinstance(s, ast.Return)]
        other = f.args.args[1].arg

        def operand(e):
            if isinstance(e, ast.Name):
                return e.id, 'raw'
            if (isinstance(e, ast.Attribute) and isinstance(e.value, ast.Name) and e.value.id == other
                    and e.attr.endswith('params') and len(e.attr) == 7 and e.attr[0] in REPS):
                return e.value.id, e.attr
            raise Unparsed('%sMatrix.chain operand %s' % (rep, ast.unparse(e)[:40]))
        if len(ret) == 1 and isinstance(ret[0].value, ast.BinOp) and isinstance(ret[0].value.op, ast.Mult):
            (l, lc), (r, rc) = operand(ret[0].value.left), operand(ret[0].value.right)
            conv = rc if l == 'self' else lc
            if conv not in ('raw', rep + 'params'):
                raise Unparsed('%sMatrix.chain converts its argument with %s' % (rep, conv))
            if not hasattr(self, 'chain_arg_conv'):
                self.chain_arg_conv = {}
            self.chain_arg_conv[rep] = conv
            if (l, r) == ('self', other) and lc == 'raw':
                return 'self*TP'
            if (l, r) == (other, 'self') and rc == 'raw':
                return 'TP*self'
        raise Unparsed('%sMatrix.chain body' % rep)

    def emit_chain(self, rep):
        name = '%s_chain' % rep
        try:
            o = self.chain_order(rep)
            body = 'M2.mul a b' if o == 'self*TP' else 'M2.mul b a'
            f = self.classes[rep + 'Matrix']['chain']
            self.defs[name] = '/-- %sMatrix.chain (twoport.py:%d): `%s` -/\ndef %s (a b : M2 K) : M2 K :=\n  %s\n' % (
                rep, f.lineno, o, name, body)
            self.order.append(name)
            self.routes[name] = {'defined_in': rep + 'Matrix', 'line': f.lineno, 'route': o}
        except Unparsed as e:
            self.defs[name] = None
            self.unparsed.append({'item': name, 'why': str(e)})

    def emit_cascade(self, rep):
        """XMatrix.cascade: `return self.chain(TP)` (or, if someone swaps it, `TP.chain(self)`)"""
        name = '%s_cascade' % rep
        f = self.classes.get(rep + 'Matrix', {}).get('cascade')
        if f is None:
            return
        try:
            if self.defs.get('%s_chain' % rep) is None:
                raise Unparsed('chain untranslated')
            ret = [s for s in f.body if isinstance(s, ast.Return)]
            other = f.args.args[1].arg
            body = None
            if len(ret) == 1 and isinstance(ret[0].value, ast.Call) and isinstance(ret[0].value.func, ast.Attribute) \
                    and ret[0].value.func.attr == 'chain' and len(ret[0].value.args) == 1 \
                    and isinstance(ret[0].value.func.value, ast.Name) and isinstance(ret[0].value.args[0], ast.Name):
                recv, arg = ret[0].value.func.value.id, ret[0].value.args[0].id
                if (recv, arg) == ('self', other):
                    body, o = '%s_chain a b' % rep, 'self.chain(TP)'
                elif (recv, arg) == (other, 'self'):
                    body, o = '%s_chain b a' % rep, 'TP.chain(self)'
            if body is None:
                raise Unparsed('%sMatrix.cascade body' % rep)
            self.defs[name] = '/-- %sMatrix.cascade (twoport.py:%d): `%s` -/\ndef %s (a b : M2 K) : M2 K :=\n  %s\n' % (
                rep, f.lineno, o, name, body)
            self.order.append(name)
            self.routes[name] = {'defined_in': rep + 'Matrix', 'line': f.lineno, 'route': 'self*TP'}
        except Unparsed as e:
            self.defs[name] = None
            self.unparsed.append({'item': name, 'why': str(e)})

    def emit_section(self, rep, sec):
        name = '%s_%s' % (rep, sec)
        f = self.classes.get(rep + 'Matrix', {}).get(sec)
        if f is None or name in self.defs:
            return
        try:
            params = [a.arg for a in f.args.args[1:]]
            env = {}
            ret = None
            for st in f.body:
                if isinstance(st, ast.Expr) and isinstance(st.value, ast.Constant):
                    continue
                if isinstance(st, ast.If):
                    # `if not isinstance(...): raise` type guards, or `if X == 0: raise/warn`
                    if all(isinstance(s, (ast.Raise,)) or self.is_warn_stmt(s) for s in st.body) and not st.orelse:
                        continue
                    raise Unparsed('if in section')
                if isinstance(st, ast.Assign) and isinstance(st.targets[0], ast.Name):
                    env[st.targets[0].id] = st.value
                    continue
                if isinstance(st, ast.Return):
                    ret = st.value
                    continue
                if isinstance(st, ast.Expr):
                    continue
                raise Unparsed('statement in section')
            body = self.secmat(rep, ret, env, params)
            args = ' '.join(params)
            self.defs[name] = '/-- %sMatrix.%s (twoport.py:%d) -/\ndef %s (%s : K) : M2 K :=\n  %s\n' % (
                rep, sec, f.lineno, name, args, body)
            self.order.append(name)
            self.routes[name] = {'defined_in': rep + 'Matrix', 'line': f.lineno, 'route': 'section', 'params': params}
        except Unparsed as e:
            self.defs[name] = None
            self.unparsed.append({'item': name, 'why': str(e)})

    @staticmethod
    def is_warn_stmt(s):
        return isinstance(s, ast.Expr) and isinstance(s.value, ast.Call) and getattr(s.value.func, 'id', None) == 'warn'

    def secsc(self, e, env, params, depth=0):
        if depth > 20:
            raise Unparsed('recursive local')
        if isinstance(e, ast.Constant) and isinstance(e.value, int):
            return '%d' % e.value if e.value >= 0 else '(-%d)' % -e.value
        if isinstance(e, ast.Name):
            if e.id in env:
                # a local re-binding `alpha = ConstantDomainExpression(alpha)` refers to the parameter
                v = env[e.id]
                env2 = dict(env)
                del env2[e.id]
                return self.secsc(v, env2, params, depth + 1)
            if e.id in params:
                return e.id
            raise Unparsed('section name %s' % e.id)
        if isinstance(e, ast.UnaryOp) and isinstance(e.op, ast.USub):
            return '(-%s)' % self.secsc(e.operand, env, params, depth)
        if isinstance(e, ast.BinOp):
            ops = {ast.Add: '+', ast.Sub: '-', ast.Mult: '*', ast.Div: '/'}
            for k, v in ops.items():
                if isinstance(e.op, k):
                    return '(%s %s %s)' % (self.secsc(e.left, env, params, depth), v, self.secsc(e.right, env, params, depth))
        if isinstance(e, ast.Call) and isinstance(e.func, ast.Name) and e.func.id in WRAPPERS and len(e.args) == 1:
            return self.secsc(e.args[0], env, params, depth)
        raise Unparsed('section scalar %s' % ast.unparse(e)[:60])

    def secmat(self, rep, e, env, params):
        if isinstance(e, ast.Call):
            fn = e.func
            if isinstance(fn, ast.Name) and fn.id == 'cls' and len(e.args) == 1 and isinstance(e.args[0], ast.Tuple):
                rows = e.args[0].elts
                ents = [self.secsc(x, env, params) for r in rows for x in r.elts]
                if len(ents) != 4:
                    raise Unparsed('section literal')
                return '(⟨%s, %s, %s, %s⟩ : M2 K)' % tuple(ents)
            if isinstance(fn, ast.Attribute) and isinstance(fn.value, ast.Name) and fn.value.id == 'cls':
                callee = '%s_%s' % (rep, fn.attr)
                if callee not in self.defs:
                    self.emit_section(rep, fn.attr)
                target = self.classes.get(rep + 'Matrix', {}).get(fn.attr)
                if target is not None and len(e.args) != len(target.args.args) - 1:
                    raise Unparsed('section %s: wrong number of arguments for %s' % (ast.unparse(e)[:40], callee))
                if self.defs.get(callee) is None:
                    raise Unparsed('section %s uses untranslated %s' % (ast.unparse(e)[:40], callee))
                args = ' '.join(self.secsc(a, env, params) for a in e.args)
                return '(%s %s)' % (callee, args)
            if isinstance(fn, ast.Attribute) and fn.attr in ('chain', 'cascade') and len(e.args) == 1:
                if self.defs.get('%s_chain' % rep) is None:
                    raise Unparsed('chain untranslated')
                return '(%s_chain %s %s)' % (rep, self.secmat(rep, fn.value, env, params), self.secmat(rep, e.args[0], env, params))
        raise Unparsed('section matrix %s' % ast.unparse(e)[:60])

    # ---------------- equations (spec tie)
    def equations(self):
        out = {}
        for rep in REPS:
            f = self.classes.get(rep + 'Matrix', {}).get('equation')
            if f is None:
                continue
            for n in ast.walk(f):
                if isinstance(n, ast.Call) and getattr(n.func, 'id', None) == 'Equation':
                    try:
                        lhs = [c.value for c in n.args[0].args[0].elts]
                        mm = n.args[1]
                        rhs = [c.value for c in mm.args[1].args[0].elts]
                        out[rep] = (lhs, rhs)
                    except Exception:
                        pass
        return out

    def run(self):
        for x in REPS:
            for p in REPS:
                try:
                    self.need_conv(x, p)
                except Unparsed:
                    pass
        for x in REPS:
            for a in SCALARS:
                try:
                    self.need_scalar(x, a)
                except Unparsed:
                    pass
        for x in REPS:
            if 'chain' in self.classes.get(x + 'Matrix', {}):
                self.emit_chain(x)
                self.emit_cascade(x)
        for x in REPS:
            for sname in SECTIONS:
                self.emit_section(x, sname)
        return self


HEADER = '''/-
  GENERATED by harness/translate/tx_twoport.py from /repo/lcapy/twoport.py -- do not edit.
  One definition per (parameter-matrix class, attribute); call structure mirrors the source.
-/
import Lcapy.Model.M2
namespace Lcapy.Gen
open Lcapy
set_option linter.unusedVariables false
variable {K : Type} [Add K] [Mul K] [Neg K] [Sub K] [Div K] [OfNat K 0] [OfNat K 1] [OfNat K 2]

'''


def generate(repo='/repo'):
    src = open(os.path.join(repo, 'lcapy', 'twoport.py')).read()
    tx = Tx(src).run()
    parts = [HEADER]
    for name in tx.order:
        parts.append(tx.defs[name])
        parts.append('\n')
    eqs = tx.equations()
    parts.append('/-- the `equation()` method of each class: (lhs vector, rhs vector) -/\n')
    parts.append('def equations : List (String × List String × List String) :=\n  [')
    parts.append(',\n   '.join('("%s", [%s], [%s])' % (r, ', '.join('"%s"' % x for x in l), ', '.join('"%s"' % x for x in rr))
                               for r, (l, rr) in sorted(eqs.items())))
    parts.append(']\n\n')
    cac = getattr(tx, 'chain_arg_conv', {})
    parts.append('/-- `XMatrix.chain(TP)`: how the argument is brought to representation X before the product '
                 '("raw" = its entries are used as they are, whatever its class) -/\n')
    parts.append('def chainArgConv : List (String × String) :=\n  [' +
                 ', '.join('("%s", "%s")' % (r, cac[r]) for r in sorted(cac)) + ']\n\n')
    convs = [n for n in tx.order if len(n) == 6 and n[1:5] == '_to_']
    scal = [n for n in tx.order if tx.routes[n].get('route') not in ('section', 'self*TP', 'TP*self') and n not in convs]
    secs = [n for n in tx.order if tx.routes[n].get('route') == 'section']
    chains = [n for n in tx.order if n.endswith('_chain') or n.endswith('_cascade')]
    parts.append('/-- dispatch tables for the line-protocol driver -/\n')
    parts.append('def convTable : List (String × (M2 K → K → M2 K)) :=\n  [' + ',\n   '.join('("%s", %s)' % (n, n) for n in convs) + ']\n\n')
    parts.append('def scalarTable : List (String × (M2 K → K → K)) :=\n  [' + ',\n   '.join('("%s", %s)' % (n, n) for n in scal) + ']\n\n')
    parts.append('def chainTable : List (String × (M2 K → M2 K → M2 K)) :=\n  [' + ',\n   '.join('("%s", %s)' % (n, n) for n in chains) + ']\n\n')
    def secfun(n):
        ps = tx.routes[n]['params']
        pat = '[' + ', '.join(ps) + ']'
        return '("%s", fun l => match l with | %s => some (%s %s) | _ => none)' % (n, pat, n, ' '.join(ps))
    parts.append('def sectionTable : List (String × (List K → Option (M2 K))) :=\n  [' + ',\n   '.join(secfun(n) for n in secs) + ']\n\n')
    parts.append('end Lcapy.Gen\n')
    text = ''.join(parts)
    info = {'defs': tx.order, 'routes': tx.routes, 'unparsed': tx.unparsed, 'equations': eqs}
    return text, info


def main():
    here = os.path.dirname(os.path.abspath(__file__))
    out = os.path.join(here, '..', '..', 'lean', 'Lcapy', 'Generated', 'TwoPort.lean')
    text, info = generate(os.environ.get('VERIF_REPO', '/repo'))
    old = open(out).read() if os.path.exists(out) else None
    if old != text:
        with open(out, 'w') as f:
            f.write(text)
    json.dump(info, sys.stdout, indent=1)


if __name__ == '__main__':
    main()
