"""tx_specialfn: regenerate lean/Lcapy/Generated/SpecialFn.lean from the *source text* of

  /repo/lcapy/expr.py           Expr.evaluate -> evaluate_expr: the nested numeric definitions handed to
                                lambdify (heaviside, rect, tri, trap, sign, ramp, rampstep, unitstep, ...),
                                the lambdify replacement dict, and the causal mask at the top of `func`
  /repo/lcapy/extrafunctions.py the symbolic `eval` classmethods of the same functions
  /repo/lcapy/config.py         heaviside_zero, unitstep_zero

Python's `ast` only; nothing of the modelled logic is executed.  The understood fragment is:
if/elif/else chains of comparisons on rationals, + - * / abs, calls to sibling functions of the table,
the `if zero is None: zero = <config>` idiom, SymPy's three-valued predicates on *numbers*
(.is_zero, .is_nonnegative, .is_negative, .is_integer, .is_even, .is_odd, fuzzy_not; `.is_Number` guards are
true because the model substitutes rational numbers), `(-1) ** e`, and a fixed list of transcendental
sub-expressions of the sinc family that are mapped (textually) to the hand-written helpers of
Lcapy/Model/EvalBase.lean.  Whatever is not understood is recorded in `unparsed` and the definition is emitted as
an alias of the hand-written fallback `Lcapy.EvalFallback.<name>`, so that the Lean build still succeeds and the
item is vouched for by the correspondence run only.
"""
import ast
import json
import os
import sys
from fractions import Fraction

NUM_FUNCS = ['heaviside', 'unitstep', 'unitimpulse', 'dirac', 'rect', 'sign', 'dtsign', 'dtrect',
             'tri', 'trap', 'ramp', 'rampstep', 'sincn', 'sincu', 'sinc', 'psinc']
NOT_MODELLED = ['besseli', 'besselj', 'exp', 'sqrt']
SYM_CLASSES = ['UnitImpulse', 'UnitStep', 'rect', 'dtrect', 'dtsign', 'sincn', 'sincu', 'psinc',
               'tri', 'trap', 'ramp', 'rampstep']
# SymPy function name (as printed by lambdify) -> handled here
TABLE_KEYS = ['DiracDelta', 'Heaviside', 'UnitImpulse', 'UnitStep', 'dtrect', 'dtsign', 'sinc', 'sincn',
              'sincu', 'psinc', 'rect', 'tri', 'trap', 'ramp', 'rampstep', 'sign']
CONFIG = {'heaviside_zero': 'heavisideZero', 'unitstep_zero': 'unitstepZero'}

# transcendental sub-expressions (after substituting the locals that hold pi-multiples), textual
TRANS_VALUE = {
    'np.sin(np.pi * arg) / (np.pi * arg)': 'sinPiOverPi arg',
    'np.sin(arg) / arg': 'sinOver arg',
    'np.sin(M * np.pi * arg) / (M * np.sin(np.pi * arg))': 'psincFloat M arg',
    'sym.sin(sym.pi * val) / (sym.pi * val)': 'sinPiOverPi val',
    'sym.sin(val) / val': 'sinOver val',
    'sym.sin(M * (sym.pi * val)) / (M * sym.sin(sym.pi * val))': 'psincExact M val',
}
TRANS_COND = {
    'np.sin(np.pi * arg) == 0': '(floatSinPiIsZero arg = true)',
    'np.sin(np.pi * arg) == 0.0': '(floatSinPiIsZero arg = true)',
}


class Unparsed(Exception):
    pass


def ratlit(x):
    fr = Fraction(repr(x)) if isinstance(x, float) else Fraction(x)
    if fr.denominator == 1:
        return '(%d : Rat)' % fr.numerator
    return '(%d/%d : Rat)' % (fr.numerator, fr.denominator)


class Subst(ast.NodeTransformer):
    def __init__(self, tl):
        self.tl = tl

    def visit_Name(self, node):
        if node.id in self.tl:
            return self.tl[node.id]
        return node


def mentions_trans(node):
    for n in ast.walk(node):
        if isinstance(n, ast.Attribute) and isinstance(n.value, ast.Name) and n.value.id in ('np', 'sym') \
                and n.attr in ('pi', 'sin', 'cos'):
            return True
    return False


class FnTx:
    """translate one function body"""

    def __init__(self, kind, siblings, sig):
        self.kind = kind            # 'num' | 'sym'
        self.siblings = siblings    # name -> (lean name, [param types])
        self.env = dict(sig)        # python name -> 'R' | 'OptR' | 'B'
        self.tl = {}                # locals holding transcendental expressions
        self.calls = set()
        self.notes = []

    # ---- expressions: returns (text, type) with type in R, O, P(prop)
    def lift(self, te):
        t, ty = te
        if ty == 'O':
            return t
        if ty == 'R':
            return '(some %s)' % t
        raise Unparsed('cannot lift %s' % ty)

    def expr(self, n):
        if mentions_trans(n) or any(isinstance(m, ast.Name) and m.id in self.tl for m in ast.walk(n)):
            txt = ast.unparse(Subst(self.tl).visit(ast.parse(ast.unparse(n), mode='eval').body))
            txt = ast.unparse(ast.parse(txt, mode='eval').body)      # normalise parentheses
            if txt in TRANS_VALUE:
                return (TRANS_VALUE[txt], 'O')
            if txt in TRANS_COND:
                return (TRANS_COND[txt], 'P')
            if not isinstance(n, (ast.IfExp, ast.BoolOp)) and not (isinstance(n, ast.UnaryOp) and isinstance(n.op, ast.Not)):
                raise Unparsed('transcendental expression not in the table: %s' % txt)
        if isinstance(n, ast.Constant):
            if n.value is None:
                return ('none', 'O')
            if isinstance(n.value, bool):
                return ('True' if n.value else 'False', 'P')
            if isinstance(n.value, (int, float)):
                return (ratlit(n.value), 'R')
            raise Unparsed('constant %r' % (n.value,))
        if isinstance(n, ast.Name):
            if n.id in self.env:
                ty = self.env[n.id]
                if ty == 'B':
                    return ('(%s = true)' % n.id, 'P')
                if ty == 'OptR':
                    return (n.id, 'O')
                return (n.id, 'R')
            if n.id in CONFIG:
                return (CONFIG[n.id], 'R')
            raise Unparsed('free name %s' % n.id)
        if isinstance(n, ast.Attribute):
            base = n.value
            if isinstance(base, ast.Name) and base.id == 'np' and n.attr == 'inf':
                return ('none', 'O')
            if isinstance(base, ast.Name) and base.id == 'S':
                v = {'One': 1, 'Zero': 0, 'Half': Fraction(1, 2), 'NegativeOne': -1}.get(n.attr)
                if v is None:
                    raise Unparsed('S.%s' % n.attr)
                return (ratlit(v), 'R')
            inner = self.expr(base)
            if inner[1] != 'R':
                raise Unparsed('predicate on non-number')
            x = inner[0]
            preds = {'is_zero': '(%s = 0)', 'is_nonnegative': '(%s ≥ 0)', 'is_negative': '(%s < 0)',
                     'is_positive': '(%s > 0)', 'is_nonpositive': '(%s ≤ 0)',
                     'is_Number': 'True', 'is_number': 'True',
                     'is_integer': '(isInt %s = true)', 'is_even': '(isEven %s = true)',
                     'is_odd': '(isOdd %s = true)'}
            if n.attr in preds:
                p = preds[n.attr]
                return ((p % x) if '%s' in p else p, 'P')
            raise Unparsed('attribute .%s' % n.attr)
        if isinstance(n, ast.UnaryOp):
            if isinstance(n.op, ast.USub):
                t, ty = self.expr(n.operand)
                if ty == 'R':
                    return ('(-%s)' % t, 'R')
                if ty == 'O':
                    return ('(oneg %s)' % t, 'O')
            if isinstance(n.op, ast.UAdd):
                return self.expr(n.operand)
            if isinstance(n.op, ast.Not):
                t, ty = self.expr(n.operand)
                if ty == 'P':
                    return ('(¬ %s)' % t, 'P')
            raise Unparsed('unary %s' % ast.dump(n.op))
        if isinstance(n, ast.BinOp):
            if isinstance(n.op, ast.Pow):
                b = self.expr(n.left)
                if b[1] == 'R' and b[0].replace(' ', '') in ('(-(1:Rat))', '(-1:Rat)'):
                    e = self.expr(n.right)
                    if e[1] == 'R':
                        return ('(negOnePow %s)' % e[0], 'O')
                raise Unparsed('power other than (-1) ** e')
            a = self.expr(n.left)
            b = self.expr(n.right)
            ops = {ast.Add: ('+', 'oadd'), ast.Sub: ('-', 'osub'), ast.Mult: ('*', 'omul')}
            for k, (sym, of) in ops.items():
                if isinstance(n.op, k):
                    if a[1] == 'R' and b[1] == 'R':
                        return ('(%s %s %s)' % (a[0], sym, b[0]), 'R')
                    return ('(%s %s %s)' % (of, self.lift(a), self.lift(b)), 'O')
            if isinstance(n.op, ast.Div):
                return ('(odiv %s %s)' % (self.lift(a), self.lift(b)), 'O')
            raise Unparsed('binop %s' % type(n.op).__name__)
        if isinstance(n, ast.BoolOp):
            parts = [self.expr(v) for v in n.values]
            if any(p[1] != 'P' for p in parts):
                raise Unparsed('boolean operator on non-conditions')
            j = ' ∧ ' if isinstance(n.op, ast.And) else ' ∨ '
            return ('(' + j.join(p[0] for p in parts) + ')', 'P')
        if isinstance(n, ast.Compare):
            # X == np.round(X)  -> integrality test
            if len(n.ops) == 1 and isinstance(n.ops[0], ast.Eq):
                for (p, q) in ((n.left, n.comparators[0]), (n.comparators[0], n.left)):
                    if isinstance(q, ast.Call) and ast.unparse(q.func) in ('np.round', 'round', 'np.rint', 'np.floor') \
                            and len(q.args) == 1 and ast.unparse(q.args[0]) == ast.unparse(p):
                        t, ty = self.expr(p)
                        if ty == 'R':
                            return ('(isInt %s = true)' % t, 'P')
            if len(n.ops) == 1 and isinstance(n.ops[0], (ast.Is, ast.IsNot)) \
                    and isinstance(n.comparators[0], ast.Constant) and n.comparators[0].value is None \
                    and isinstance(n.left, ast.Name) and self.env.get(n.left.id) == 'OptR':
                t = '(%s.isNone = true)' % n.left.id
                return (t if isinstance(n.ops[0], ast.Is) else '(¬ %s)' % t, 'P')
            terms = [n.left] + list(n.comparators)
            tt = [self.expr(x) for x in terms]
            if any(x[1] != 'R' for x in tt):
                raise Unparsed('comparison of non-numbers: %s' % ast.unparse(n))
            sy = {ast.Lt: '<', ast.LtE: '≤', ast.Gt: '>', ast.GtE: '≥', ast.Eq: '=', ast.NotEq: '≠'}
            out = []
            for i, op in enumerate(n.ops):
                if type(op) not in sy:
                    raise Unparsed('comparison %s' % type(op).__name__)
                out.append('(%s %s %s)' % (tt[i][0], sy[type(op)], tt[i + 1][0]))
            return (out[0] if len(out) == 1 else '(' + ' ∧ '.join(out) + ')', 'P')
        if isinstance(n, ast.IfExp):
            c = self.expr(n.test)
            a = self.expr(n.body)
            b = self.expr(n.orelse)
            if c[1] != 'P':
                raise Unparsed('condition')
            if a[1] == 'R' and b[1] == 'R':
                return ('(if %s then %s else %s)' % (c[0], a[0], b[0]), 'R')
            return ('(if %s then %s else %s)' % (c[0], self.lift(a), self.lift(b)), 'O')
        if isinstance(n, ast.Call):
            fn = ast.unparse(n.func)
            if fn == 'abs' and len(n.args) == 1:
                t, ty = self.expr(n.args[0])
                if ty == 'R':
                    return ('(rabs %s)' % t, 'R')
            if fn == 'fuzzy_not' and len(n.args) == 1:
                t, ty = self.expr(n.args[0])
                if ty == 'P':
                    return ('(¬ %s)' % t, 'P')
            if fn in ('np.round', 'round', 'np.rint') and len(n.args) == 1:
                t, ty = self.expr(n.args[0])
                if ty == 'R':
                    return ('(rround %s)' % t, 'R')
            if fn in ('float', 'int', 'complex') and len(n.args) == 1:
                return self.expr(n.args[0])
            if fn in self.siblings:
                lname, ptypes = self.siblings[fn]
                args = []
                kw = {k.arg: k.value for k in n.keywords}
                if kw:
                    raise Unparsed('keyword call')
                for i, pt in enumerate(ptypes):
                    if i < len(n.args):
                        t, ty = self.expr(n.args[i])
                        if pt == 'R' and ty == 'R':
                            args.append(t)
                        elif pt == 'OptR':
                            args.append(self.lift((t, ty)))
                        else:
                            raise Unparsed('argument type in call of %s' % fn)
                    elif pt == 'OptR':
                        args.append('none')
                    else:
                        raise Unparsed('missing argument in call of %s' % fn)
                self.calls.add(fn)
                return ('(%s %s)' % (lname, ' '.join(args)), 'O')
            raise Unparsed('call of %s' % fn)
        raise Unparsed('expression %s' % type(n).__name__)

    # ---- statements
    def block(self, stmts, ind):
        pad = '  ' * ind
        if not stmts:
            return pad + 'none'
        st, rest = stmts[0], stmts[1:]
        if isinstance(st, ast.Expr) and isinstance(st.value, ast.Constant):
            return self.block(rest, ind)            # docstring
        if isinstance(st, ast.Pass):
            return self.block(rest, ind)
        if isinstance(st, ast.Return):
            if st.value is None:
                return pad + 'none'
            return pad + self.lift(self.expr(st.value))
        if isinstance(st, ast.Assign) and len(st.targets) == 1 and isinstance(st.targets[0], ast.Name):
            name = st.targets[0].id
            if mentions_trans(st.value) or any(isinstance(m, ast.Name) and m.id in self.tl for m in ast.walk(st.value)):
                self.tl[name] = Subst(self.tl).visit(ast.parse(ast.unparse(st.value), mode='eval').body)
                self.env.pop(name, None)
                return self.block(rest, ind)
            t, ty = self.expr(st.value)
            if ty == 'R':
                self.env[name] = 'R'
                return '%slet %s : Rat := %s\n%s' % (pad, name, t, self.block(rest, ind))
            if ty == 'O':
                self.env[name] = 'OptR'
                return '%slet %s : Option Rat := %s\n%s' % (pad, name, t, self.block(rest, ind))
            raise Unparsed('assignment of a condition')
        if isinstance(st, ast.If):
            # idiom: if p is None: p = E
            if (not st.orelse and len(st.body) == 1 and isinstance(st.body[0], ast.Assign)
                    and isinstance(st.test, ast.Compare) and isinstance(st.test.ops[0], ast.Is)
                    and isinstance(st.test.left, ast.Name) and self.env.get(st.test.left.id) == 'OptR'
                    and isinstance(st.body[0].targets[0], ast.Name) and st.body[0].targets[0].id == st.test.left.id):
                p = st.test.left.id
                t, ty = self.expr(st.body[0].value)
                if ty != 'R':
                    raise Unparsed('default of %s' % p)
                saved = dict(self.env)
                self.env[p] = 'R'
                out = '%slet %s : Rat := %s.getD %s\n%s' % (pad, p, p, t, self.block(rest, ind))
                self.env = saved
                return out
            c = self.expr(st.test)
            if c[1] != 'P':
                raise Unparsed('if-test is not a condition')
            saved = (dict(self.env), dict(self.tl))
            a = self.block(list(st.body) + list(rest), ind + 1)
            self.env, self.tl = dict(saved[0]), dict(saved[1])
            b = self.block(list(st.orelse) + list(rest), ind + 1)
            self.env, self.tl = saved
            return '%sif %s then\n%s\n%selse\n%s' % (pad, c[0], a, pad, b)
        raise Unparsed('statement %s' % type(st).__name__)


def find_nested(tree):
    """Expr.evaluate -> evaluate_expr -> {name: FunctionDef}, plus the lambdify dict and `func`"""
    ev = None
    for node in ast.walk(tree):
        if isinstance(node, ast.ClassDef) and node.name == 'Expr':
            for f in node.body:
                if isinstance(f, ast.FunctionDef) and f.name == 'evaluate':
                    ev = f
    if ev is None:
        raise Unparsed('Expr.evaluate not found')
    ee = None
    for f in ev.body:
        if isinstance(f, ast.FunctionDef) and f.name == 'evaluate_expr':
            ee = f
    if ee is None:
        raise Unparsed('evaluate_expr not found')
    funcs = {f.name: f for f in ee.body if isinstance(f, ast.FunctionDef)}
    table = None
    for node in ast.walk(ee):
        if isinstance(node, ast.Call) and ast.unparse(node.func) == 'lambdify' and len(node.args) >= 3:
            mods = node.args[2]
            if isinstance(mods, ast.List) and mods.elts and isinstance(mods.elts[0], ast.Dict):
                d = mods.elts[0]
                table = {}
                for k, v in zip(d.keys, d.values):
                    if isinstance(k, ast.Constant) and isinstance(v, ast.Name):
                        table[k.value] = v.id
    return ev, ee, funcs, table


def signature(fdef, skip_first=False):
    args = fdef.args.args[1:] if skip_first else fdef.args.args
    defaults = [None] * (len(args) - len(fdef.args.defaults)) + list(fdef.args.defaults)
    sig = []
    for a, d in zip(args, defaults):
        if d is None:
            sig.append((a.arg, 'R'))
        elif isinstance(d, ast.Constant) and d.value is None:
            sig.append((a.arg, 'OptR'))
        else:
            raise Unparsed('default value of %s' % a.arg)
    return sig


def lean_params(sig):
    return ' '.join('(%s : %s)' % (n, 'Rat' if t == 'R' else 'Option Rat') for n, t in sig)


def lean_type(sig):
    return ' → '.join(['Rat' if t == 'R' else 'Option Rat' for _, t in sig] + ['Option Rat'])


def generate(repo='/repo'):
    info = {'defs': [], 'unparsed': [], 'not_modelled': list(NOT_MODELLED), 'table': {}, 'config': {}}
    out = []
    w = out.append
    w('/-')
    w('  GENERATED by harness/translate/tx_specialfn.py from /repo/lcapy/expr.py (Expr.evaluate),')
    w('  /repo/lcapy/extrafunctions.py and /repo/lcapy/config.py -- do not edit.')
    w('  num_*  = the numeric definitions handed to lambdify;  sym_* = the symbolic `eval` classmethods.')
    w('-/')
    w('import Lcapy.Model.EvalBase')
    w('import Lcapy.Model.EvalFallback')
    w('namespace Lcapy.Gen.SpecialFn')
    w('open Lcapy.EvalBase')
    w('set_option linter.unusedVariables false')
    w('')
    # ---- config
    cfg_src = open(os.path.join(repo, 'lcapy', 'config.py')).read()
    cfg = {}
    for node in ast.parse(cfg_src).body:
        if isinstance(node, ast.Assign) and len(node.targets) == 1 and isinstance(node.targets[0], ast.Name) \
                and node.targets[0].id in CONFIG and isinstance(node.value, ast.Constant) \
                and isinstance(node.value.value, (int, float)) and not isinstance(node.value.value, bool):
            cfg[node.targets[0].id] = node.value.value
    for py, ln in CONFIG.items():
        if py in cfg:
            w('/-- config.py: %s = %r -/' % (py, cfg[py]))
            w('def %s : Rat := %s' % (ln, ratlit(cfg[py])))
            info['config'][py] = str(Fraction(repr(cfg[py])) if isinstance(cfg[py], float) else cfg[py])
        else:
            info['unparsed'].append('config.%s' % py)
            w('def %s : Rat := Lcapy.EvalFallback.%s' % (ln, ln))
    w('')

    # ---- numeric table
    expr_src = open(os.path.join(repo, 'lcapy', 'expr.py')).read()
    try:
        ev, ee, funcs, table = find_nested(ast.parse(expr_src))
    except Unparsed as e:
        ev, ee, funcs, table = None, None, {}, None
        info['unparsed'].append('expr.evaluate:%s' % e)
    sigs = {}
    for name in NUM_FUNCS:
        if name in funcs:
            try:
                sigs[name] = signature(funcs[name])
            except Unparsed:
                pass
    fallback_sig = {'heaviside': [('arg', 'R'), ('zero', 'OptR')], 'unitstep': [('arg', 'R'), ('zero', 'OptR')],
                    'psinc': [('M', 'R'), ('arg', 'R')], 'trap': [('arg', 'R'), ('alpha', 'R')]}
    for name in NUM_FUNCS:
        sigs.setdefault(name, fallback_sig.get(name, [('arg', 'R')]))
    siblings = {n: ('num_' + n, [t for _, t in sigs[n]]) for n in NUM_FUNCS}
    bodies = {}
    deps = {}
    for name in NUM_FUNCS:
        sig = sigs[name]
        try:
            if name not in funcs:
                raise Unparsed('numeric function %s not found' % name)
            fdef = funcs[name]
            tx = FnTx('num', siblings, sig)
            stmts = list(fdef.body)
            note = ''
            if name == 'sinc':
                # lambdify prints SymPy's sinc(x) as sinc(x/pi); the body multiplies by pi again.  The model's
                # argument is the SymPy argument x itself.
                real = [s for s in stmts if not (isinstance(s, ast.Expr) and isinstance(s.value, ast.Constant))]
                if real and isinstance(real[0], ast.Assign) and ast.unparse(real[0]) == 'arg = arg * np.pi':
                    stmts = real[1:]
                    note = ' (after `arg = arg * np.pi`, which undoes lambdify\'s `sinc(x/pi)`; arg is the SymPy argument)'
                else:
                    raise Unparsed('sinc: expected `arg = arg * np.pi` first')
            body = tx.block(stmts, 1)
            bodies[name] = ('/-- expr.py:%d  evaluate_expr.%s%s -/\ndef num_%s %s : Option Rat :=\n%s'
                            % (fdef.lineno, name, note, name, lean_params(sig), body))
            deps[name] = set(tx.calls)
            info['defs'].append('num_' + name)
        except Unparsed as e:
            info['unparsed'].append('num_%s:%s' % (name, e))
            bodies[name] = ('/-- NOT PARSED (%s): alias of the hand-written fallback -/\ndef num_%s : %s := Lcapy.EvalFallback.num_%s'
                            % (str(e).replace('-/', '- /'), name, lean_type(sig), name))
            deps[name] = set()
    done = []
    while len(done) < len(NUM_FUNCS):
        progressed = False
        for name in NUM_FUNCS:
            if name not in done and deps[name] <= set(done):
                w(bodies[name])
                w('')
                done.append(name)
                progressed = True
        if not progressed:
            raise RuntimeError('cyclic calls in the numeric table')
    # ---- lambdify replacement dict
    w('/-! lambdify replacement dict: SymPy function name ↦ numeric definition -/')
    for key in TABLE_KEYS:
        target = (table or {}).get(key)
        if target in NUM_FUNCS:
            w('def numFor_%s : %s := num_%s' % (key, lean_type(sigs[target]), target))
            info['table'][key] = target
        else:
            info['unparsed'].append('table.%s:%s' % (key, target))
            fb = {'DiracDelta': 'dirac', 'Heaviside': 'heaviside', 'UnitImpulse': 'unitimpulse', 'UnitStep': 'unitstep'}.get(key, key)
            w('def numFor_%s : %s := Lcapy.EvalFallback.num_%s  -- NOT IN THE DICT' % (key, lean_type(sigs[fb]), fb))
    w('')
    # ---- causal mask: first statement of `func`
    try:
        f = funcs.get('func') if funcs else None
        if f is None:
            # `func` is defined after the lambdify call, still inside evaluate_expr
            raise Unparsed('func not found')
        real = [s for s in f.body if not (isinstance(s, ast.Expr) and isinstance(s.value, ast.Constant))]
        st = real[0]
        if not (isinstance(st, ast.If) and not st.orelse and len(st.body) == 1 and isinstance(st.body[0], ast.Return)):
            raise Unparsed('func: first statement is not the causal mask')
        tx = FnTx('num', {}, [('is_causal', 'B'), ('arg', 'R')])
        c = tx.expr(st.test)
        r = tx.lift(tx.expr(st.body[0].value))
        w('/-- expr.py:%d  first statement of `func`: the causal mask (`none` = fall through to the lambdified function) -/' % st.lineno)
        w('def causalMask (is_causal : Bool) (arg : Rat) : Option Rat :=\n  if %s then %s else none' % (c[0], r))
        info['defs'].append('causalMask')
    except (Unparsed, IndexError) as e:
        info['unparsed'].append('causalMask:%s' % e)
        w('def causalMask : Bool → Rat → Option Rat := Lcapy.EvalFallback.causalMask  -- NOT PARSED')
    # is_causal = is_time and self.is_causal
    try:
        flag = None
        for st in (ev.body if ev else []):
            if isinstance(st, ast.Assign) and ast.unparse(st.targets[0]) == 'is_causal':
                flag = ast.unparse(st.value)
        if flag != 'is_time and self.is_causal':
            raise Unparsed('is_causal = %s' % flag)
        w('/-- `is_causal = is_time and self.is_causal` -/')
        w('def causalFlag (is_time self_is_causal : Bool) : Bool := is_time && self_is_causal')
        info['defs'].append('causalFlag')
    except Unparsed as e:
        info['unparsed'].append('causalFlag:%s' % e)
        w('def causalFlag : Bool → Bool → Bool := Lcapy.EvalFallback.causalFlag  -- NOT PARSED')
    w('')

    # ---- symbolic eval classmethods
    xf_src = open(os.path.join(repo, 'lcapy', 'extrafunctions.py')).read()
    classes = {c.name: c for c in ast.parse(xf_src).body if isinstance(c, ast.ClassDef)}
    sym_fallback_sig = {'UnitStep': [('nval', 'R'), ('zero', 'OptR')], 'psinc': [('M', 'R'), ('val', 'R')],
                        'trap': [('val', 'R'), ('alpha', 'R')]}
    info['sym_sigs'] = {}
    for cname in SYM_CLASSES:
        sig = sym_fallback_sig.get(cname, [('val', 'R')])
        try:
            cdef = classes.get(cname)
            if cdef is None:
                raise Unparsed('class %s not found' % cname)
            ev_m = [f for f in cdef.body if isinstance(f, ast.FunctionDef) and f.name == 'eval']
            if not ev_m:
                raise Unparsed('%s.eval not found' % cname)
            fdef = ev_m[0]
            sig2 = signature(fdef, skip_first=True)
            if [t for _, t in sig2] != [t for _, t in sig]:
                raise Unparsed('%s.eval signature %s' % (cname, sig2))
            sig = sig2
            tx = FnTx('sym', {}, sig)
            body = tx.block(list(fdef.body), 1)
            w('/-- extrafunctions.py:%d  %s.eval on rational numbers (`none` = left unevaluated / not a rational) -/' % (fdef.lineno, cname))
            w('def sym_%s %s : Option Rat :=\n%s' % (cname, lean_params(sig), body))
            w('')
            info['defs'].append('sym_' + cname)
        except Unparsed as e:
            info['unparsed'].append('sym_%s:%s' % (cname, e))
            w('/-- NOT PARSED (%s): alias of the hand-written fallback -/' % str(e).replace('-/', '- /'))
            w('def sym_%s : %s := Lcapy.EvalFallback.sym_%s' % (cname, lean_type(sig), cname))
            w('')
    # ---- what the string parser binds the name `sinc` to (sym.py: global_dict)
    try:
        sp_src = open(os.path.join(repo, 'lcapy', 'sym.py')).read()
        bound = None
        for node in ast.parse(sp_src).body:
            if isinstance(node, ast.Assign) and ast.unparse(node.targets[0]) == "global_dict['sinc']":
                bound = ast.unparse(node.value)
        if bound is None:
            w('/-- sym.py: `sinc` is not rebound in global_dict, so a parsed `sinc(x)` is SymPy\'s own (unnormalised) sinc -/')
            w('def sym_parsedSinc (val : Rat) : Option Rat := sympySinc val')
        elif bound in ('sincn', 'sincu'):
            w('/-- sym.py: global_dict[\'sinc\'] = %s -/' % bound)
            w('def sym_parsedSinc (val : Rat) : Option Rat := sym_%s val' % bound)
        else:
            raise Unparsed("global_dict['sinc'] = %s" % bound)
        info['parsed_sinc'] = bound or 'sympy.sinc'
        info['defs'].append('sym_parsedSinc')
    except Unparsed as e:
        info['unparsed'].append('sym_parsedSinc:%s' % e)
        w('def sym_parsedSinc : Rat → Option Rat := Lcapy.EvalFallback.sym_sincn  -- NOT PARSED')
    w('')
    w('end Lcapy.Gen.SpecialFn')
    return '\n'.join(out) + '\n', info


def main():
    repo = sys.argv[1] if len(sys.argv) > 1 else '/repo'
    text, info = generate(repo)
    if len(sys.argv) > 2:
        with open(sys.argv[2], 'w') as f:
            f.write(text)
    else:
        sys.stdout.write(text)
    sys.stderr.write(json.dumps({'unparsed': info['unparsed'], 'defs': len(info['defs'])}) + '\n')


if __name__ == '__main__':
    main()
