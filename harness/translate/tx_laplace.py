"""tx_laplace: regenerate lean/Lcapy/Generated/LaplaceTable.lean from /repo/lcapy/laplace.py.

Reads the *source text* of `LaplaceTransformer.function` (the table of closed-form transforms of
rect / tri / ramp / rampstep of a scaled argument) with Python's `ast` module and emits one Lean
definition per table entry:   def <fn>Entry (E : K -> K) (s scale : K) : K := <return expression>
where `sym.exp(x)` becomes `E (x)`.  Nothing of the modelled logic is executed.

An entry whose shape is not understood is recorded in `unparsed` and emitted as the constant `0`
(with `<fn>EntryTranslated := false`), so that the obligation of Props/C09.lean that mentions it
fails to build and the check falls back on the correspondence.
"""
import ast
import os

FNS = ['rect', 'tri', 'ramp', 'rampstep']


class Unparsed(Exception):
    pass


def lean_expr(node):
    if isinstance(node, ast.BinOp):
        l, r = node.left, node.right
        if isinstance(node.op, ast.Pow):
            if isinstance(r, ast.Constant) and isinstance(r.value, int) and r.value >= 0:
                return 'pw (%s) %d' % (lean_expr(l), r.value)
            if (isinstance(r, ast.UnaryOp) and isinstance(r.op, ast.USub) and isinstance(r.operand, ast.Constant)
                    and isinstance(r.operand.value, int)):
                return '(1 / pw (%s) %d)' % (lean_expr(l), r.operand.value)
            raise Unparsed('power with non-constant exponent')
        ops = {ast.Add: '+', ast.Sub: '-', ast.Mult: '*', ast.Div: '/'}
        for k, v in ops.items():
            if isinstance(node.op, k):
                return '(%s %s %s)' % (lean_expr(l), v, lean_expr(r))
        raise Unparsed('operator %s' % type(node.op).__name__)
    if isinstance(node, ast.UnaryOp) and isinstance(node.op, ast.USub):
        return '(-%s)' % lean_expr(node.operand)
    if isinstance(node, ast.Constant) and isinstance(node.value, int) and node.value >= 0:
        return '(ofN %d)' % node.value
    if isinstance(node, ast.Name) and node.id in ('s', 'scale'):
        return node.id
    if isinstance(node, ast.Call):
        f = node.func
        if (isinstance(f, ast.Attribute) and f.attr == 'exp' and isinstance(f.value, ast.Name) and f.value.id == 'sym'
                and len(node.args) == 1 and not node.keywords):
            return 'E (%s)' % lean_expr(node.args[0])
        raise Unparsed('call %s' % ast.dump(f)[:60])
    raise Unparsed(ast.dump(node)[:80])


def find_function_method(src):
    import warnings
    with warnings.catch_warnings():
        warnings.simplefilter('ignore')
        tree = ast.parse(src)
    for node in tree.body:
        if isinstance(node, ast.ClassDef) and node.name == 'LaplaceTransformer':
            for f in node.body:
                if isinstance(f, ast.FunctionDef) and f.name == 'function':
                    return f
    raise Unparsed('LaplaceTransformer.function not found')


def table_entries(fdef):
    """{fn name: (return expression node, lineno)} from the `if expr.func is <fn>: ... return <e>` chain;
    also checks the prelude `expr, scale, shift = similarity_shift(expr, t)` / `if shift != 0: return None`."""
    out = {}
    notes = []
    prelude_ok = False
    guard_ok = False

    def visit_if(node):
        t = node.test
        if (isinstance(t, ast.Compare) and len(t.ops) == 1 and isinstance(t.ops[0], ast.Is)
                and isinstance(t.left, ast.Attribute) and t.left.attr == 'func'
                and isinstance(t.comparators[0], ast.Name)):
            name = t.comparators[0].id
            rets = [n for n in node.body if isinstance(n, ast.Return)]
            if len(rets) == 1 and rets[0].value is not None:
                out[name] = (rets[0].value, rets[0].lineno)
            else:
                notes.append('no single return for %s' % name)
        for o in node.orelse:
            if isinstance(o, ast.If):
                visit_if(o)

    for st in fdef.body:
        if isinstance(st, ast.Assign) and isinstance(st.value, ast.Call) and getattr(st.value.func, 'id', '') == 'similarity_shift':
            tg = st.targets[0]
            if isinstance(tg, ast.Tuple) and [getattr(e, 'id', None) for e in tg.elts] == ['expr', 'scale', 'shift']:
                prelude_ok = True
        if isinstance(st, ast.If):
            t = st.test
            if (isinstance(t, ast.Compare) and isinstance(t.left, ast.Name) and t.left.id == 'shift'
                    and isinstance(t.ops[0], ast.NotEq) and isinstance(t.comparators[0], ast.Constant)
                    and t.comparators[0].value == 0
                    and any(isinstance(n, ast.Return) and isinstance(n.value, ast.Constant) and n.value.value is None
                            for n in st.body)):
                guard_ok = True
            else:
                visit_if(st)
    if not prelude_ok:
        notes.append('prelude `expr, scale, shift = similarity_shift(expr, t)` not recognised')
    if not guard_ok:
        notes.append('guard `if shift != 0: return None` not recognised')
    return out, notes


SIGN_TESTS = {'is_positive': 'decide (¬ %s ≤ 0)', 'is_negative': 'decide (¬ 0 ≤ %s)',
              'is_nonnegative': 'decide (0 ≤ %s)', 'is_nonpositive': 'decide (%s ≤ 0)'}


def lean_guard(node):
    """sign test on `scale` / `shift` (SymPy assumptions `x.is_positive` ...), `and` / `or` / `not` of such"""
    if isinstance(node, ast.BoolOp):
        op = ' && ' if isinstance(node.op, ast.And) else ' || '
        return '(' + op.join(lean_guard(v) for v in node.values) + ')'
    if isinstance(node, ast.UnaryOp) and isinstance(node.op, ast.Not):
        return '(!%s)' % lean_guard(node.operand)
    if (isinstance(node, ast.Attribute) and node.attr in SIGN_TESTS and isinstance(node.value, ast.Name)
            and node.value.id in ('scale', 'shift')):
        return SIGN_TESTS[node.attr] % node.value.id
    raise Unparsed('guard ' + ast.dump(node)[:80])


def clip_guard(src):
    """the condition under which the helper `clip_step` of `LaplaceTransformer.term` replaces
    Heaviside(scale*t + shift) by 1:   if <test>: return sym.S.One"""
    import warnings
    with warnings.catch_warnings():
        warnings.simplefilter('ignore')
        tree = ast.parse(src)
    for node in ast.walk(tree):
        if isinstance(node, ast.ClassDef) and node.name == 'LaplaceTransformer':
            for f in node.body:
                if isinstance(f, ast.FunctionDef) and f.name == 'term':
                    for g in ast.walk(f):
                        if isinstance(g, ast.FunctionDef) and g.name == 'clip_step':
                            tests = []
                            for st in g.body:
                                if isinstance(st, ast.If):
                                    for r in st.body:
                                        if (isinstance(r, ast.Return) and isinstance(r.value, ast.Attribute)
                                                and r.value.attr == 'One'):
                                            tests.append((st.test, st.lineno))
                            if len(tests) != 1:
                                raise Unparsed('clip_step: expected exactly one `if <test>: return sym.S.One`, found %d' % len(tests))
                            # the prelude must be  scale, shift = scale_shift(arg, t)
                            ok = any(isinstance(x, ast.Assign) and isinstance(x.targets[0], ast.Tuple)
                                     and [getattr(e, 'id', None) for e in x.targets[0].elts] == ['scale', 'shift']
                                     and isinstance(x.value, ast.Call) and getattr(x.value.func, 'id', '') == 'scale_shift'
                                     for x in ast.walk(g))
                            if not ok:
                                raise Unparsed('clip_step: `scale, shift = scale_shift(arg, t)` not recognised')
                            return lean_guard(tests[0][0]), tests[0][1]
    raise Unparsed('LaplaceTransformer.term.clip_step not found')


def _method(src, name):
    import warnings
    with warnings.catch_warnings():
        warnings.simplefilter('ignore')
        tree = ast.parse(src)
    for node in tree.body:
        if isinstance(node, ast.ClassDef) and node.name == 'LaplaceTransformer':
            for f in node.body:
                if isinstance(f, ast.FunctionDef) and f.name == name:
                    return f
    raise Unparsed('LaplaceTransformer.%s not found' % name)


def deriv_applies_shift(src):
    """`derivative_undef`: is the transform of the differentiated function obtained with `self.func(<the function>, t, s)`
    (similarity and shift theorems applied to x(a t + b)) or written as `func1(s)` whatever the argument?
    Recognised forms of the statement  result = <F> * s ** order :
        F = func1(s)                          -> False
        F = self.func(<expr.args[0] | v>, t, s) -> True    (v assigned from expr.args[0])"""
    f = _method(src, 'derivative_undef')
    found = None
    for node in ast.walk(f):
        if isinstance(node, ast.Assign) and len(node.targets) == 1 and ast.unparse(node.targets[0]) == 'result':
            txt = ast.unparse(node.value)
            if txt == 'func1(s) * s ** order':
                found = (False, node.lineno)
            elif txt in ('self.func(v, t, s) * s ** order', 'self.func(expr.args[0], t, s) * s ** order'):
                ok = txt.startswith('self.func(expr.args[0]') or any(
                    isinstance(a, ast.Assign) and ast.unparse(a) == 'v = expr.args[0]' for a in ast.walk(f))
                if ok:
                    found = (True, node.lineno)
    if found is None:
        raise Unparsed('derivative_undef: statement `result = ... * s ** order` not recognised')
    return found


def delta_undef_sifts(src):
    """branch `DiracDelta(..) * x(t)` of `term`: does it apply the sifting property
    (`const * fun.subs(t, tau) * sym.exp(-s * tau) / abs(scale)` with `tau = -shift / scale`) or return `expr.args[1]`?"""
    f = _method(src, 'term')
    for node in ast.walk(f):
        if isinstance(node, ast.If):
            test = ast.unparse(node.test)
            if 'sym.DiracDelta' in test and 'AppliedUndef' in test and 'expr.args[0]' in test:
                rets = [ast.unparse(r.value) for r in ast.walk(node) if isinstance(r, ast.Return) and r.value is not None]
                asg = [ast.unparse(a) for a in ast.walk(node) if isinstance(a, ast.Assign)]
                if rets == ['expr.args[1]']:
                    return False, node.lineno
                if ('const * fun.subs(t, tau) * sym.exp(-s * tau) / abs(scale)' in rets and 'tau = -shift / scale' in asg
                        and 'scale, shift = scale_shift(delta.args[0], t)' in asg and 'delta, fun = expr.args' in asg):
                    return True, node.lineno
                raise Unparsed('term: DiracDelta * undefined-function branch has an unrecognised body')
    raise Unparsed('term: DiracDelta * undefined-function branch not found')


def fn_rejects_negative_scale(src):
    """`function`: is the table (valid for a positive scale) refused for a time-reversed argument,
         if scale.is_negative: return None ?"""
    f = _method(src, 'function')
    for node in f.body:
        if isinstance(node, ast.If) and ast.unparse(node.test) == 'scale.is_negative':
            if any(isinstance(r, ast.Return) and isinstance(r.value, ast.Constant) and r.value.value is None for r in node.body):
                return True, node.lineno
    return False, f.lineno


def generate(repo):
    path = os.path.join(repo, 'lcapy', 'laplace.py')
    src = open(path).read()
    unparsed = []
    defs = []
    lines = ['/- GENERATED by harness/translate/tx_laplace.py from lcapy/laplace.py (LaplaceTransformer.function, term.clip_step).',
             '   Do not edit: rewritten on every run of the C09 check. -/',
             'import Lcapy.Spec.Signal',
             'set_option linter.unusedVariables false',
             'namespace Lcapy.Laplace.Gen',
             'variable {K : Type} [Add K] [Mul K] [Neg K] [Sub K] [Div K] [OfNat K 0] [OfNat K 1]',
             '']
    try:
        fdef = find_function_method(src)
        entries, notes = table_entries(fdef)
        unparsed.extend(notes)
    except (Unparsed, SyntaxError) as e:
        entries = {}
        unparsed.append(str(e))
    for fn in FNS:
        body = None
        lineno = 0
        if fn in entries:
            try:
                body = lean_expr(entries[fn][0])
                lineno = entries[fn][1]
            except Unparsed as e:
                unparsed.append('%s: %s' % (fn, e))
        else:
            unparsed.append('%s: no table entry' % fn)
        if body is None:
            lines.append('/-- %s: NOT TRANSLATED (see unparsed) -/' % fn)
            lines.append('def %sEntry (E : K → K) (s scale : K) : K := 0' % fn)
            lines.append('def %sEntryTranslated : Bool := false' % fn)
        else:
            lines.append('/-- transform of `%s(scale·t)` as written at laplace.py:%d -/' % (fn, lineno))
            lines.append('def %sEntry (E : K → K) (s scale : K) : K :=\n  %s' % (fn, body))
            lines.append('def %sEntryTranslated : Bool := true' % fn)
            defs.append(fn)
        lines.append('')
    try:
        g, lineno = clip_guard(src)
        lines.append('/-- `clip_step` in `LaplaceTransformer.term` (laplace.py:%d): Heaviside(scale·t + shift) is replaced by 1 when -/' % lineno)
        lines.append('def clipGuard [LE K] [DecidableLE K] (scale shift : K) : Bool :=\n  %s' % g)
        lines.append('def clipGuardTranslated : Bool := true')
        defs.append('clipGuard')
    except (Unparsed, SyntaxError) as e:
        unparsed.append(str(e))
        lines.append('/-- clip_step: NOT TRANSLATED (see unparsed) -/')
        lines.append('def clipGuard [LE K] [DecidableLE K] (scale shift : K) : Bool := false')
        lines.append('def clipGuardTranslated : Bool := false')
    for (nm, fn, doc) in (('derivAppliesShift', deriv_applies_shift,
                           '`derivative_undef` (laplace.py:%d) applies the similarity/shift theorems to the differentiated function x(a t + b)'),
                          ('fnRejectsNegScale', fn_rejects_negative_scale,
                           '`function` (laplace.py:%d) returns None for a negative scale (the table holds for scale > 0 only)'),
                          ('deltaUndefSifts', delta_undef_sifts,
                           'the `DiracDelta * x(t)` branch of `term` (laplace.py:%d) applies the sifting property')):
        try:
            val, lineno = fn(src)
            lines.append('/-- %s -/' % (doc % lineno))
            lines.append('def %s : Bool := %s' % (nm, 'true' if val else 'false'))
            lines.append('def %sTranslated : Bool := true' % nm)
            defs.append(nm)
        except (Unparsed, SyntaxError) as e:
            unparsed.append(str(e))
            lines.append('/-- %s: NOT TRANSLATED (see unparsed) -/' % nm)
            lines.append('def %s : Bool := false' % nm)
            lines.append('def %sTranslated : Bool := false' % nm)
    lines.append('')
    lines.append('end Lcapy.Laplace.Gen')
    return '\n'.join(lines) + '\n', {'defs': defs, 'unparsed': unparsed}


if __name__ == '__main__':
    import sys
    text, info = generate(sys.argv[1] if len(sys.argv) > 1 else '/repo')
    sys.stdout.write(text)
    sys.stderr.write(repr(info) + '\n')
