"""tx_ilt: regenerate lean/Lcapy/Generated/ILTFlags.lean from /repo/lcapy/inverse_laplace.py.

Reads the *source text* of `InverseLaplaceTransformer.ratfun` with Python's `ast` module and extracts how the
loop that looks for the conjugate partner of a first-order pole filters candidates:

        for n in range(m + 1, len(R)):
            qp2 = QP[n]
            if <test>:
                continue

`conjPartnerMustBeSimple` is true when <test> mentions the order list `O` (the partner must itself be a
first-order entry), false when only `is_conjugate_pair` is consulted (a higher-order entry of a repeated complex
pole can then be taken as partner).  The Lean model `ratfunLoop` follows this flag.

It also lists (a) `keyOptions`: the option names that `InverseLaplaceTransformer.key` reads with
`kwargs.get('<name>', ...)` when it builds the cache key, and (b) `readOptions`: the option names that the methods
of `InverseLaplaceTransformer` (other than `key`) and of `UnilateralInverseTransformer` (transformer.py) read from
`kwargs` (get / pop / subscript), except the diagnostic switches `pdb` and `debug`, which do not influence the
result.  Props/C10.lean proves `ilt_key_complete : every read option is part of the key` by `decide` over these
complete finite tables.  Nothing is executed.
"""
import ast
import os
import warnings


DIAGNOSTIC = ('pdb', 'debug')


def kwargs_defaults(fdef):
    """(name, default text) for every kwargs.get('x', d) / kwargs.pop('x', d) inside a function"""
    out = []
    for node in ast.walk(fdef):
        if (isinstance(node, ast.Call) and isinstance(node.func, ast.Attribute) and node.func.attr in ('get', 'pop')
                and isinstance(node.func.value, ast.Name) and node.func.value.id == 'kwargs' and node.args
                and isinstance(node.args[0], ast.Constant) and isinstance(node.args[0].value, str)):
            d = ast.unparse(node.args[1]) if len(node.args) > 1 else 'None'
            pair = (node.args[0].value, d)
            if pair not in out:
                out.append(pair)
    return out


def kwargs_names(fdef):
    """names read from `kwargs` inside a function: kwargs.get('x', ..), kwargs.pop('x', ..), kwargs['x']"""
    out = []
    for node in ast.walk(fdef):
        name = None
        if (isinstance(node, ast.Call) and isinstance(node.func, ast.Attribute) and node.func.attr in ('get', 'pop')
                and isinstance(node.func.value, ast.Name) and node.func.value.id == 'kwargs' and node.args
                and isinstance(node.args[0], ast.Constant) and isinstance(node.args[0].value, str)):
            name = node.args[0].value
        elif (isinstance(node, ast.Subscript) and isinstance(node.value, ast.Name) and node.value.id == 'kwargs'
              and isinstance(node.slice, ast.Constant) and isinstance(node.slice.value, str)):
            name = node.slice.value
        if name is not None and name not in out:
            out.append(name)
    return out


def option_tables(repo, unparsed):
    key_opts, read_opts = [], []
    key_defs, read_defs = [], []
    found_key = False
    for fname, cname in (('inverse_laplace.py', 'InverseLaplaceTransformer'), ('transformer.py', 'UnilateralInverseTransformer')):
        try:
            with warnings.catch_warnings():
                warnings.simplefilter('ignore')
                tree = ast.parse(open(os.path.join(repo, 'lcapy', fname)).read())
        except (SyntaxError, OSError) as e:
            unparsed.append('%s: %s' % (fname, e))
            continue
        for node in tree.body:
            if isinstance(node, ast.ClassDef) and node.name == cname:
                for f in node.body:
                    if not isinstance(f, ast.FunctionDef):
                        continue
                    names = kwargs_names(f)
                    if f.name == 'key' and cname == 'InverseLaplaceTransformer':
                        found_key = True
                        rets = [n for n in ast.walk(f) if isinstance(n, ast.Return) and n.value is not None]
                        # only the first return statement is live
                        if rets:
                            live = ast.Module(body=[ast.Expr(rets[0].value)], type_ignores=[])
                            key_opts = kwargs_names(live)
                            key_defs = kwargs_defaults(live)
                    else:
                        for n in names:
                            if n not in DIAGNOSTIC and n not in read_opts:
                                read_opts.append(n)
                        for pr in kwargs_defaults(f):
                            if pr[0] not in DIAGNOSTIC and pr not in read_defs:
                                read_defs.append(pr)
    if not found_key:
        unparsed.append('InverseLaplaceTransformer.key not found')
    return key_opts, sorted(read_opts), found_key, key_defs, sorted(read_defs)



# --------------------------------------------------------------------------- do_damped_sin / polynomial-part loop

DS_FIELDS = ['rn0', 'rn1', 'rn2', 'rd0', 'rd1', 'rd2', 'n0', 'n1', 'n2', 'd0', 'd1', 'd2', 'sq1', 'sq2', 'E', 'S', 'C', 'Dl']


class Untranslatable(Exception):
    pass


class DSExpr:
    """Python arithmetic expression (ast) -> Lean term over a generic field, names resolved through an environment of
    let-bound names; `ncoeffs[i]` / `dcoeffs[i]` -> fields of the input record (raw before the normalising
    list comprehension has been seen, normalised afterwards); the k-th `sym.sqrt(...)` -> field `sq<k>` (its argument
    is recorded); `.simplify()` -> identity."""

    def __init__(self):
        self.bound = []          # names assigned so far (become Lean `let`s)
        self.norm = {'ncoeffs': False, 'dcoeffs': False}
        self.sqrt_args = []

    def tr(self, e):
        if isinstance(e, ast.BinOp):
            a, b = self.tr(e.left), self.tr(e.right) if not isinstance(e.op, ast.Pow) else None
            if isinstance(e.op, ast.Add):
                return '(%s + %s)' % (a, b)
            if isinstance(e.op, ast.Sub):
                return '(%s - %s)' % (a, b)
            if isinstance(e.op, ast.Mult):
                return '(%s * %s)' % (a, b)
            if isinstance(e.op, ast.Div):
                return '(%s / %s)' % (a, b)
            if isinstance(e.op, ast.Pow) and isinstance(e.right, ast.Constant) and isinstance(e.right.value, int) and e.right.value >= 0:
                return '(pw %s %d)' % (a, e.right.value)
            raise Untranslatable(ast.unparse(e))
        if isinstance(e, ast.UnaryOp) and isinstance(e.op, ast.USub):
            return '(-%s)' % self.tr(e.operand)
        if isinstance(e, ast.Constant) and isinstance(e.value, int) and e.value >= 0:
            return '(ofN %d)' % e.value
        if isinstance(e, ast.Name):
            if e.id in ('Zero',):
                return '(0 : K)'
            if e.id in ('One',):
                return '(1 : K)'
            if e.id in self.bound:
                return e.id + '_'
            raise Untranslatable('free name ' + e.id)
        if (isinstance(e, ast.Subscript) and isinstance(e.value, ast.Name) and e.value.id in ('ncoeffs', 'dcoeffs')
                and isinstance(e.slice, ast.Constant) and e.slice.value in (0, 1, 2)):
            pre = ('n' if e.value.id == 'ncoeffs' else 'd')
            if not self.norm[e.value.id]:
                pre = 'r' + pre
            return 'x.%s%d' % (pre, e.slice.value)
        if isinstance(e, ast.Call):
            f = e.func
            # (expr).simplify()
            if isinstance(f, ast.Attribute) and f.attr == 'simplify' and not e.args:
                return self.tr(f.value)
            if isinstance(f, ast.Attribute) and isinstance(f.value, ast.Name) and f.value.id == 'sym':
                if f.attr == 'sqrt' and len(e.args) == 1:
                    self.sqrt_args.append(self.tr(e.args[0]))
                    if len(self.sqrt_args) > 2:
                        raise Untranslatable('more than two square roots')
                    return 'x.sq%d' % len(self.sqrt_args)
                if f.attr == 'DiracDelta' and len(e.args) == 1 and isinstance(e.args[0], ast.Name) and e.args[0].id == 't':
                    return 'x.Dl'
        raise Untranslatable(ast.unparse(e))


def _times_t(e):
    """`X * t` -> X"""
    if isinstance(e, ast.BinOp) and isinstance(e.op, ast.Mult) and isinstance(e.right, ast.Name) and e.right.id == 't':
        return e.left
    raise Untranslatable(ast.unparse(e))


def damped_sin_defs(cls, unparsed):
    """Lean definitions mirroring the straight-line arithmetic of `do_damped_sin` (list of lines), info dict"""
    fdef = None
    for f in cls.body:
        if isinstance(f, ast.FunctionDef) and f.name == 'do_damped_sin':
            fdef = f
    lines = []
    info = {'translated': False, 'returns': 0}
    lets = []              # [(name, lean expr)]
    outs = {}              # lean def name -> (let-prefix length, expr)
    dx = DSExpr()
    try:
        if fdef is None:
            raise Untranslatable('do_damped_sin not found')

        def snapshot(name, expr):
            outs[name] = (len(lets), expr)

        def do_return(tag, node):
            v = node.value
            if not (isinstance(v, ast.Tuple) and len(v.elts) == 2):
                raise Untranslatable('return ' + ast.unparse(node))
            snapshot('dsRet%sc' % tag, dx.tr(v.elts[0]))
            snapshot('dsRet%su' % tag, dx.tr(v.elts[1]))
            info['returns'] += 1

        for st in fdef.body:
            if isinstance(st, ast.Assign) and len(st.targets) == 1:
                tg, val = st.targets[0], st.value
                if isinstance(tg, ast.Tuple):
                    # ncoeffs, dcoeffs = expr.coeffs()
                    if [getattr(x, 'id', None) for x in tg.elts] == ['ncoeffs', 'dcoeffs'] and ast.unparse(val) == 'expr.coeffs()':
                        continue
                    raise Untranslatable(ast.unparse(st))
                name = tg.id
                if name in ('ncoeffs', 'dcoeffs'):
                    if ast.unparse(val) == '[c / %s[0] for c in %s]' % (name, name):
                        dx.norm[name] = True
                        continue
                    raise Untranslatable(ast.unparse(st))
                if isinstance(val, ast.Call) and isinstance(val.func, ast.Attribute) and isinstance(val.func.value, ast.Name) \
                        and val.func.value.id == 'sym' and val.func.attr in ('exp', 'sin', 'cos') and name in ('E', 'S', 'C'):
                    snapshot({'E': 'dsRate', 'S': 'dsFreqS', 'C': 'dsFreqC'}[name], dx.tr(_times_t(val.args[0])))
                    lets.append((name, 'x.' + name))
                    dx.bound.append(name)
                    continue
                lets.append((name, dx.tr(val)))
                if name not in dx.bound:
                    dx.bound.append(name)
            elif isinstance(st, ast.If):
                rets = [b for b in st.body if isinstance(b, ast.Return)]
                test = ast.unparse(st.test)
                if rets and test.startswith('len(ncoeffs) == '):
                    do_return(test.split('== ')[1], rets[0])
                elif rets:
                    raise Untranslatable('conditional return ' + test)
                # error / warning guards are modelled by hand (Model/ILT.lean dampedSin) and recorded here
                elif 'error' in ast.unparse(st.body[0]):
                    info.setdefault('error_guards', []).append(test)
                elif 'warn' in ast.unparse(st.body[0]):
                    pass
                else:
                    raise Untranslatable('if ' + test)
            elif isinstance(st, ast.Return):
                do_return('3', st)
            elif isinstance(st, ast.Expr):
                continue
            else:
                raise Untranslatable(ast.unparse(st))
        need = ['dsRate', 'dsFreqS', 'dsFreqC', 'dsRet1c', 'dsRet1u', 'dsRet2c', 'dsRet2u', 'dsRet3c', 'dsRet3u']
        missing = [n for n in need if n not in outs]
        if missing:
            raise Untranslatable('missing ' + ','.join(missing))
        if len(dx.sqrt_args) != 2:
            raise Untranslatable('expected two square roots')
        info['translated'] = True
        info['error_guards'] = info.get('error_guards', [])
    except Untranslatable as e:
        unparsed.append('do_damped_sin: %s' % e)
        outs = {}
    lines.append('/-- inputs of `do_damped_sin`: raw coefficients (highest power first, as `Poly.all_coeffs`), the normalised ones,')
    lines.append('    the values of the two `sym.sqrt` calls, and the atoms E = exp(.), S = sin(.), C = cos(.), Dl = DiracDelta(t) -/')
    lines.append('structure DSIn (K : Type) where')
    lines.append('  (' + ' '.join(DS_FIELDS) + ' : K)')
    lines.append('section')
    lines.append('variable {K : Type} [Add K] [Mul K] [Neg K] [Sub K] [Div K] [OfNat K 0] [OfNat K 1]')
    need = ['dsRate', 'dsFreqS', 'dsFreqC', 'dsRet1c', 'dsRet1u', 'dsRet2c', 'dsRet2u', 'dsRet3c', 'dsRet3u', 'dsSqrtArg1', 'dsSqrtArg2']
    if info['translated']:
        # the sqrt arguments are expressions at the point where they occur: find their let prefix
        for k, a in enumerate(dx.sqrt_args):
            # prefix = all lets bound before the let whose value mentions x.sq<k+1>
            idx = next(i for i, (_, v) in enumerate(lets) if 'x.sq%d' % (k + 1) in v)
            outs['dsSqrtArg%d' % (k + 1)] = (idx, a)
    for name in need:
        if name in outs:
            n, expr = outs[name]
            body = ''.join('  let %s_ := %s\n' % (nm, v) for nm, v in lets[:n])
            lines.append('def %s (x : DSIn K) : K :=\n%s  %s' % (name, body, expr))
        else:
            lines.append('def %s (_x : DSIn K) : K := 0' % name)
    lines.append('end')
    lines.append('def dsNumNormalised : Bool := %s' % ('true' if dx.norm['ncoeffs'] else 'false'))
    lines.append('def dsDenNormalised : Bool := %s' % ('true' if dx.norm['dcoeffs'] else 'false'))
    lines.append('def dsTranslated : Bool := %s' % ('true' if info['translated'] else 'false'))
    return lines, info


def q_loop_flags(fdef, unparsed):
    """the loop of `ratfun` that turns the polynomial quotient into Dirac-delta derivatives:
         C = Qpoly.all_coeffs()            -> dense (every coefficient, highest power first) / `coeffs()` -> non-zero only
         ... sym.diff(sym.DiracDelta(t), t, <order>)   <order> = len(C) - n - 1 | Qpoly.degree() - n"""
    dense = None
    order = None
    for node in ast.walk(fdef):
        if isinstance(node, ast.Assign) and len(node.targets) == 1 and isinstance(node.targets[0], ast.Name) and node.targets[0].id == 'C':
            src = ast.unparse(node.value)
            if src == 'Qpoly.all_coeffs()':
                dense = True
            elif src == 'Qpoly.coeffs()':
                dense = False
        if (isinstance(node, ast.Call) and ast.unparse(node.func) == 'sym.diff' and len(node.args) == 3
                and ast.unparse(node.args[0]) == 'sym.DiracDelta(t)'):
            src = ast.unparse(node.args[2])
            if src == 'len(C) - n - 1':
                order = 'len'
            elif src in ('Qpoly.degree() - n',):
                order = 'degree'
    ok = dense is not None and order is not None
    if not ok:
        unparsed.append('polynomial-part loop of ratfun not recognised')
    return bool(dense), order == 'len', ok


def residue_divisor(repo, unparsed):
    """`Ratfun._find_residues_sub`, the branch for the lower-order entries of a repeated pole:
           expr = expr.diff(var)
           r = expr.subs(var, P[i]) / <divisor>
       -> Lean term for <divisor> as a function of m = M[i] - O[i] (the number of differentiations so far)"""
    try:
        with warnings.catch_warnings():
            warnings.simplefilter('ignore')
            tree = ast.parse(open(os.path.join(repo, 'lcapy', 'ratfun.py')).read())
    except (SyntaxError, OSError) as e:
        unparsed.append('ratfun.py: %s' % e)
        return '(0 : K)', False
    fdef = None
    for node in ast.walk(tree):
        if isinstance(node, ast.FunctionDef) and node.name == '_find_residues_sub':
            fdef = node
    if fdef is None:
        unparsed.append('_find_residues_sub not found')
        return '(0 : K)', False

    def tr(e):
        src = ast.unparse(e)
        if src == 'M[i] - O[i]':
            return '(ofN m)'
        if isinstance(e, ast.Call) and ast.unparse(e.func) == 'sym.factorial' and len(e.args) == 1 and ast.unparse(e.args[0]) == 'M[i] - O[i]':
            return '(fact m)'
        if isinstance(e, ast.Constant) and isinstance(e.value, int) and e.value >= 0:
            return '(ofN %d)' % e.value
        if isinstance(e, ast.BinOp) and isinstance(e.op, (ast.Mult, ast.Add)):
            return '(%s %s %s)' % (tr(e.left), '*' if isinstance(e.op, ast.Mult) else '+', tr(e.right))
        raise Untranslatable(src)
    for node in ast.walk(fdef):
        if isinstance(node, ast.If) and node.orelse:
            diffs = [st for st in node.orelse if isinstance(st, ast.Assign) and ast.unparse(st.value) == 'expr.diff(var)']
            rs = [st for st in node.orelse if isinstance(st, ast.Assign) and ast.unparse(st.targets[0]) == 'r']
            if diffs and rs:
                v = rs[0].value
                try:
                    if isinstance(v, ast.BinOp) and isinstance(v.op, ast.Div) and ast.unparse(v.left) == 'expr.subs(var, P[i])':
                        return tr(v.right), True
                    if ast.unparse(v) == 'expr.subs(var, P[i])':
                        return '(1 : K)', True
                except Untranslatable as e:
                    unparsed.append('_find_residues_sub divisor: %s' % e)
                    return '(0 : K)', False
    unparsed.append('_find_residues_sub: derivative branch not recognised')
    return '(0 : K)', False


def make_flags(repo, unparsed):
    """transformer.py `UnilateralInverseTransformer.make`: the result is wrapped in Piecewise((result, var >= 0)) under
           if not kwargs.get('causal', False):
               if uresult != 0:
       -> (guard requires `not causal`, guard requires a non-zero unilateral part, recognised)"""
    try:
        with warnings.catch_warnings():
            warnings.simplefilter('ignore')
            tree = ast.parse(open(os.path.join(repo, 'lcapy', 'transformer.py')).read())
    except (SyntaxError, OSError) as e:
        unparsed.append('transformer.py: %s' % e)
        return False, False, False
    fdef = None
    for node in tree.body:
        if isinstance(node, ast.ClassDef) and node.name == 'UnilateralInverseTransformer':
            for f in node.body:
                if isinstance(f, ast.FunctionDef) and f.name == 'make':
                    fdef = f
    if fdef is None:
        unparsed.append('UnilateralInverseTransformer.make not found')
        return False, False, False

    def wraps(st):
        return isinstance(st, ast.Assign) and 'Piecewise((result, var >= 0))' in ast.unparse(st.value)
    # find the Piecewise assignment and the chain of enclosing `if` tests
    def search(stmts, tests):
        for st in stmts:
            if wraps(st):
                return tests
            if isinstance(st, ast.If):
                r = search(st.body, tests + [ast.unparse(st.test)])
                if r is not None:
                    return r
                if st.orelse and search(st.orelse, tests + ['else']) is not None:
                    return None          # a guard in an else branch: not the recognised shape
        return None
    tests = search(fdef.body, [])
    if tests is None:
        unparsed.append('make: Piecewise guard not recognised')
        return False, False, False
    known = {"not kwargs.get('causal', False)": 'causal', 'uresult != 0': 'ures'}
    if any(t not in known for t in tests):
        unparsed.append('make: unrecognised guard condition %s' % tests)
        return False, False, False
    kinds = [known[t] for t in tests]
    return 'causal' in kinds, 'ures' in kinds, True


def tline_end_defs(cls, unparsed):
    """`tline_end`: 1/(a cosh(sT) + b sinh(sT)) -> `g = ...`, `d = ...`, `h = <pref> * Sum(<coef> * func(t - <mult> * T), (m, <start>, oo))`
       -> Lean definitions of g, d, the prefactor, the m-th coefficient, the delay multiple and the start index"""
    out = {'g': '(0 : K)', 'd': '(0 : K)', 'pref': '(0 : K)', 'coef': '(0 : K)', 'mult': '0', 'start': '0'}
    ok = False
    fdef = None
    for f in cls.body:
        if isinstance(f, ast.FunctionDef) and f.name == 'tline_end':
            fdef = f

    def ar(e, names):
        if isinstance(e, ast.BinOp):
            if isinstance(e.op, ast.Pow):
                if isinstance(e.right, ast.Name) and e.right.id == 'm':
                    return '(pw %s m)' % ar(e.left, names)
                if isinstance(e.right, ast.Constant) and isinstance(e.right.value, int) and e.right.value >= 0:
                    return '(pw %s %d)' % (ar(e.left, names), e.right.value)
                raise Untranslatable(ast.unparse(e))
            op = {ast.Add: '+', ast.Sub: '-', ast.Mult: '*', ast.Div: '/'}.get(type(e.op))
            if op is None:
                raise Untranslatable(ast.unparse(e))
            return '(%s %s %s)' % (ar(e.left, names), op, ar(e.right, names))
        if isinstance(e, ast.UnaryOp) and isinstance(e.op, ast.USub):
            return '(-%s)' % ar(e.operand, names)
        if isinstance(e, ast.Constant) and isinstance(e.value, int) and e.value >= 0:
            return '(ofN %d)' % e.value
        if isinstance(e, ast.Name) and e.id in names:
            return names[e.id]
        raise Untranslatable(ast.unparse(e))

    def nat(e):
        """delay multiple as a natural-number expression in m"""
        if isinstance(e, ast.BinOp) and isinstance(e.op, (ast.Add, ast.Mult)):
            return '(%s %s %s)' % (nat(e.left), '+' if isinstance(e.op, ast.Add) else '*', nat(e.right))
        if isinstance(e, ast.Constant) and isinstance(e.value, int) and e.value >= 0:
            return str(e.value)
        if isinstance(e, ast.Name) and e.id == 'm':
            return 'm'
        raise Untranslatable(ast.unparse(e))
    try:
        if fdef is None:
            raise Untranslatable('tline_end not found')
        for node in ast.walk(fdef):
            if isinstance(node, ast.Assign) and len(node.targets) == 1 and isinstance(node.targets[0], ast.Name):
                nm = node.targets[0].id
                if nm in ('g', 'd'):
                    out[nm] = ar(node.value, {'a': 'a', 'b': 'b'})
                if nm == 'h' and 'sym.Sum' in ast.unparse(node.value):
                    v = node.value          # <pref> * sym.Sum(<coef> * func(t - <mult> * T), (m, <start>, sym.oo))
                    if not (isinstance(v, ast.BinOp) and isinstance(v.op, ast.Mult) and isinstance(v.right, ast.Call)
                            and ast.unparse(v.right.func) == 'sym.Sum'):
                        raise Untranslatable(ast.unparse(v))
                    out['pref'] = ar(v.left, {'d': 'd', 'g': 'g'})
                    summand, lim = v.right.args
                    if not (isinstance(summand, ast.BinOp) and isinstance(summand.op, ast.Mult) and isinstance(summand.right, ast.Call)
                            and ast.unparse(summand.right.func) == 'func'):
                        raise Untranslatable(ast.unparse(summand))
                    out['coef'] = ar(summand.left, {'g': 'g', 'd': 'd'})
                    arg = summand.right.args[0]          # t - <mult> * T
                    if not (isinstance(arg, ast.BinOp) and isinstance(arg.op, ast.Sub) and ast.unparse(arg.left) == 't'
                            and isinstance(arg.right, ast.BinOp) and isinstance(arg.right.op, ast.Mult) and ast.unparse(arg.right.right) == 'T'):
                        raise Untranslatable(ast.unparse(arg))
                    out['mult'] = nat(arg.right.left)
                    if not (isinstance(lim, ast.Tuple) and len(lim.elts) == 3 and ast.unparse(lim.elts[0]) == 'm' and ast.unparse(lim.elts[2]) == 'sym.oo'):
                        raise Untranslatable(ast.unparse(lim))
                    out['start'] = nat(lim.elts[1])
                    ok = True
        if not ok:
            raise Untranslatable('series of tline_end not recognised')
    except Untranslatable as e:
        unparsed.append('tline_end: %s' % e)
        ok = False
    lines = ['section', 'variable {K : Type} [Add K] [Mul K] [Neg K] [Sub K] [Div K] [OfNat K 0] [OfNat K 1]',
             '/-- `tline_end`: echo ratio and scale of 1/(a cosh(sT) + b sinh(sT)), as written in the source -/',
             'def tlineEndG (a b : K) : K := %s' % out['g'],
             'def tlineEndD (a b : K) : K := %s' % out['d'],
             'def tlineEndPref (g d : K) : K := %s' % out['pref'],
             'def tlineEndCoef (g d : K) (m : Nat) : K := %s' % out['coef'],
             'end',
             '/-- the m-th term is delayed by this multiple of T; the sum starts at `tlineEndStart` -/',
             'def tlineEndDelay (m : Nat) : Nat := %s' % out['mult'],
             'def tlineEndStart : Nat := %s' % out['start'],
             'def tlineEndTranslated : Bool := %s' % ('true' if ok else 'false')]
    return lines, {'translated': ok, **out}


def generate(repo):
    path = os.path.join(repo, 'lcapy', 'inverse_laplace.py')
    src = open(path).read()
    unparsed = []
    flag = False
    found = False
    cls = None
    ds_lines, ds_info = [], {'translated': False}
    tl_lines, tl_info = [], {'translated': False}
    q_dense, q_bylen, q_ok = False, False, False
    try:
        with warnings.catch_warnings():
            warnings.simplefilter('ignore')
            tree = ast.parse(src)
        fdef = None
        for node in tree.body:
            if isinstance(node, ast.ClassDef) and node.name == 'InverseLaplaceTransformer':
                cls = node
                for f in node.body:
                    if isinstance(f, ast.FunctionDef) and f.name == 'ratfun':
                        fdef = f
        if fdef is None:
            unparsed.append('InverseLaplaceTransformer.ratfun not found')
        else:
            for node in ast.walk(fdef):
                if (isinstance(node, ast.For) and isinstance(node.target, ast.Name) and node.target.id == 'n'):
                    for st in node.body:
                        if isinstance(st, ast.If) and any(isinstance(b, ast.Continue) for b in st.body):
                            names = {x.id for x in ast.walk(st.test) if isinstance(x, ast.Name)}
                            attrs = {x.attr for x in ast.walk(st.test) if isinstance(x, ast.Attribute)}
                            if 'is_conjugate_pair' in attrs:
                                found = True
                                flag = 'O' in names
            if not found:
                unparsed.append('conjugate partner filter not recognised')
            q_dense, q_bylen, q_ok = q_loop_flags(fdef, unparsed)
        if cls is not None:
            ds_lines, ds_info = damped_sin_defs(cls, unparsed)
            tl_lines, tl_info = tline_end_defs(cls, unparsed)
    except SyntaxError as e:
        unparsed.append(str(e))
    key_opts, read_opts, found_key, key_defs, read_defs = option_tables(repo, unparsed)
    res_div, res_ok = residue_divisor(repo, unparsed)
    mk_causal, mk_ures, mk_ok = make_flags(repo, unparsed)

    def plst(xs):
        return '[' + ', '.join('("%s", "%s")' % (a, b.replace('"', "'")) for a, b in xs) + ']'

    def lst(xs):
        return '[' + ', '.join('"%s"' % x for x in xs) + ']'
    text = '\n'.join([
        '/- GENERATED by harness/translate/tx_ilt.py from lcapy/inverse_laplace.py (InverseLaplaceTransformer.ratfun).',
        '   Do not edit: rewritten on every run of the C10 check. -/',
        'import Lcapy.Spec.Signal',
        'set_option linter.unusedVariables false',
        'namespace Lcapy.Laplace.Gen',
        'open Lcapy.Laplace',
        '/-- the conjugate partner of a first-order pole must itself be a first-order entry -/',
        'def conjPartnerMustBeSimple : Bool := %s' % ('true' if flag else 'false'),
        'def conjPartnerFilterTranslated : Bool := %s' % ('true' if found else 'false'),
        '/-- option names that `InverseLaplaceTransformer.key` puts into the cache key -/',
        'def keyOptions : List String := %s' % lst(key_opts),
        '/-- option names read from kwargs by the inverse transformer (diagnostic switches pdb/debug excluded) -/',
        'def readOptions : List String := %s' % lst(read_opts),
        '/-- (option, default) as written in `key` and at the places where the option is read -/',
        'def keyOptionDefaults : List (String × String) := %s' % plst(key_defs),
        'def readOptionDefaults : List (String × String) := %s' % plst(read_defs),
        'def keyTranslated : Bool := %s' % ('true' if found_key else 'false'),
        '/-- polynomial part of `ratfun`: `C = Qpoly.all_coeffs()` (every coefficient) rather than the non-zero ones only -/',
        'def qCoeffsDense : Bool := %s' % ('true' if q_dense else 'false'),
        '/-- order of the delta derivative of the n-th entry: `len(C) - n - 1` (true) or `Qpoly.degree() - n` (false) -/',
        'def qOrderByLen : Bool := %s' % ('true' if q_bylen else 'false'),
        'def qLoopTranslated : Bool := %s' % ('true' if q_ok else 'false'),
        '/-- ratfun.py `_find_residues_sub`: what the m-th derivative (m = M[i] - O[i]) is divided by -/',
        'def residueDivisor {K : Type} [Add K] [Mul K] [OfNat K 0] [OfNat K 1] (m : Nat) : K := %s' % res_div,
        'def residueDivisorTranslated : Bool := %s' % ('true' if res_ok else 'false'),
        '/-- transformer.py `make`: the `t >= 0` condition is attached only under `if not kwargs.get(\'causal\', False)` -/',
        'def makeGuardOnlyIfNotCausal : Bool := %s' % ('true' if mk_causal else 'false'),
        '/-- ... and only under `if uresult != 0` -/',
        'def makeGuardOnlyIfUnilateral : Bool := %s' % ('true' if mk_ures else 'false'),
        'def makeTranslated : Bool := %s' % ('true' if mk_ok else 'false')] + ds_lines + tl_lines + [
        'end Lcapy.Laplace.Gen', ''])
    return text, {'defs': (['conjPartnerMustBeSimple'] if found else []) + (['keyOptions', 'readOptions'] if found_key else []),
                  'unparsed': unparsed, 'flag': flag, 'keyOptions': key_opts, 'readOptions': read_opts,
                  'dampedSin': ds_info, 'qLoop': {'dense': q_dense, 'orderByLen': q_bylen, 'translated': q_ok},
                  'residueDivisor': {'lean': res_div, 'translated': res_ok},
                  'tlineEnd': tl_info,
                  'make': {'guardOnlyIfNotCausal': mk_causal, 'guardOnlyIfUnilateral': mk_ures, 'translated': mk_ok}}


if __name__ == '__main__':
    import sys
    text, info = generate(sys.argv[1] if len(sys.argv) > 1 else '/repo')
    sys.stdout.write(text)
    sys.stderr.write(repr(info) + '\n')
