"""tx_ilt: regenerate lean/Lcapy/Generated/ILTFlags.lean from /repo/lcapy/inverse_laplace.py.

Reads the *source text* of `InverseLaplaceTransformer.ratfun` with Python's `ast` module and extracts how the
loop that looks for the conjugate partner of a first-order pole filters candidates:

        for n in range(m + 1, len(R)):
            qp2 = QP[n]
            if <test>:
                continue

`conjPartnerMustBeSimple` is true when <test> mentions the order list `O` (the partner must itself be a
first-order entry), false when only `is_conjugate_pair` is consulted (a higher-order entry of a repeated complex
pole can then be taken as partner).  The Lean model `ratfunLoop` follows this flag.

It also lists (a) `keyOptions`: the option names that `InverseLaplaceTransformer.key` reads with
`kwargs.get('<name>', ...)` when it builds the cache key, and (b) `readOptions`: the option names that the methods
of `InverseLaplaceTransformer` (other than `key`) and of `UnilateralInverseTransformer` (transformer.py) read from
`kwargs` (get / pop / subscript), except the diagnostic switches `pdb` and `debug`, which do not influence the
result.  Props/C10.lean proves `ilt_key_complete : every read option is part of the key` by `decide` over these
complete finite tables.  Nothing is executed.
"""
import ast
import os
import warnings


DIAGNOSTIC = ('pdb', 'debug')


def kwargs_defaults(fdef):
    """(name, default text) for every kwargs.get('x', d) / kwargs.pop('x', d) inside a function"""
    out = []
    for node in ast.walk(fdef):
        if (isinstance(node, ast.Call) and isinstance(node.func, ast.Attribute) and node.func.attr in ('get', 'pop')
                and isinstance(node.func.value, ast.Name) and node.func.value.id == 'kwargs' and node.args
                and isinstance(node.args[0], ast.Constant) and isinstance(node.args[0].value, str)):
            d = ast.unparse(node.args[1]) if len(node.args) > 1 else 'None'
            pair = (node.args[0].value, d)
            if pair not in out:
                out.append(pair)
    return out


def kwargs_names(fdef):
    """names read from `kwargs` inside a function: kwargs.get('x', ..), kwargs.pop('x', ..), kwargs['x']"""
    out = []
    for node in ast.walk(fdef):
        name = None
        if (isinstance(node, ast.Call) and isinstance(node.func, ast.Attribute) and node.func.attr in ('get', 'pop')
                and isinstance(node.func.value, ast.Name) and node.func.value.id == 'kwargs' and node.args
                and isinstance(node.args[0], ast.Constant) and isinstance(node.args[0].value, str)):
            name = node.args[0].value
        elif (isinstance(node, ast.Subscript) and isinstance(node.value, ast.Name) and node.value.id == 'kwargs'
              and isinstance(node.slice, ast.Constant) and isinstance(node.slice.value, str)):
            name = node.slice.value
        if name is not None and name not in out:
            out.append(name)
    return out


def option_tables(repo, unparsed):
    key_opts, read_opts = [], []
    key_defs, read_defs = [], []
    found_key = False
    for fname, cname in (('inverse_laplace.py', 'InverseLaplaceTransformer'), ('transformer.py', 'UnilateralInverseTransformer')):
        try:
            with warnings.catch_warnings():
                warnings.simplefilter('ignore')
                tree = ast.parse(open(os.path.join(repo, 'lcapy', fname)).read())
        except (SyntaxError, OSError) as e:
            unparsed.append('%s: %s' % (fname, e))
            continue
        for node in tree.body:
            if isinstance(node, ast.ClassDef) and node.name == cname:
                for f in node.body:
                    if not isinstance(f, ast.FunctionDef):
                        continue
                    names = kwargs_names(f)
                    if f.name == 'key' and cname == 'InverseLaplaceTransformer':
                        found_key = True
                        rets = [n for n in ast.walk(f) if isinstance(n, ast.Return) and n.value is not None]
                        # only the first return statement is live
                        if rets:
                            live = ast.Module(body=[ast.Expr(rets[0].value)], type_ignores=[])
                            key_opts = kwargs_names(live)
                            key_defs = kwargs_defaults(live)
                    else:
                        for n in names:
                            if n not in DIAGNOSTIC and n not in read_opts:
                                read_opts.append(n)
                        for pr in kwargs_defaults(f):
                            if pr[0] not in DIAGNOSTIC and pr not in read_defs:
                                read_defs.append(pr)
    if not found_key:
        unparsed.append('InverseLaplaceTransformer.key not found')
    return key_opts, sorted(read_opts), found_key, key_defs, sorted(read_defs)


def generate(repo):
    path = os.path.join(repo, 'lcapy', 'inverse_laplace.py')
    src = open(path).read()
    unparsed = []
    flag = False
    found = False
    try:
        with warnings.catch_warnings():
            warnings.simplefilter('ignore')
            tree = ast.parse(src)
        fdef = None
        for node in tree.body:
            if isinstance(node, ast.ClassDef) and node.name == 'InverseLaplaceTransformer':
                for f in node.body:
                    if isinstance(f, ast.FunctionDef) and f.name == 'ratfun':
                        fdef = f
        if fdef is None:
            unparsed.append('InverseLaplaceTransformer.ratfun not found')
        else:
            for node in ast.walk(fdef):
                if (isinstance(node, ast.For) and isinstance(node.target, ast.Name) and node.target.id == 'n'):
                    for st in node.body:
                        if isinstance(st, ast.If) and any(isinstance(b, ast.Continue) for b in st.body):
                            names = {x.id for x in ast.walk(st.test) if isinstance(x, ast.Name)}
                            attrs = {x.attr for x in ast.walk(st.test) if isinstance(x, ast.Attribute)}
                            if 'is_conjugate_pair' in attrs:
                                found = True
                                flag = 'O' in names
            if not found:
                unparsed.append('conjugate partner filter not recognised')
    except SyntaxError as e:
        unparsed.append(str(e))
    key_opts, read_opts, found_key, key_defs, read_defs = option_tables(repo, unparsed)

    def plst(xs):
        return '[' + ', '.join('("%s", "%s")' % (a, b.replace('"', "'")) for a, b in xs) + ']'

    def lst(xs):
        return '[' + ', '.join('"%s"' % x for x in xs) + ']'
    text = '\n'.join([
        '/- GENERATED by harness/translate/tx_ilt.py from lcapy/inverse_laplace.py (InverseLaplaceTransformer.ratfun).',
        '   Do not edit: rewritten on every run of the C10 check. -/',
        'namespace Lcapy.Laplace.Gen',
        '/-- the conjugate partner of a first-order pole must itself be a first-order entry -/',
        'def conjPartnerMustBeSimple : Bool := %s' % ('true' if flag else 'false'),
        'def conjPartnerFilterTranslated : Bool := %s' % ('true' if found else 'false'),
        '/-- option names that `InverseLaplaceTransformer.key` puts into the cache key -/',
        'def keyOptions : List String := %s' % lst(key_opts),
        '/-- option names read from kwargs by the inverse transformer (diagnostic switches pdb/debug excluded) -/',
        'def readOptions : List String := %s' % lst(read_opts),
        '/-- (option, default) as written in `key` and at the places where the option is read -/',
        'def keyOptionDefaults : List (String × String) := %s' % plst(key_defs),
        'def readOptionDefaults : List (String × String) := %s' % plst(read_defs),
        'def keyTranslated : Bool := %s' % ('true' if found_key else 'false'),
        'end Lcapy.Laplace.Gen', ''])
    return text, {'defs': (['conjPartnerMustBeSimple'] if found else []) + (['keyOptions', 'readOptions'] if found_key else []),
                  'unparsed': unparsed, 'flag': flag, 'keyOptions': key_opts, 'readOptions': read_opts}


if __name__ == '__main__':
    import sys
    text, info = generate(sys.argv[1] if len(sys.argv) > 1 else '/repo')
    sys.stdout.write(text)
    sys.stderr.write(repr(info) + '\n')
