"""branchcov: which source branches of the anchored lcapy files did the generated cases reach?

Instrumentation from the outside (no change to /repo): Python 3.12 `sys.monitoring` LINE events, enabled only for the
code objects of the listed functions (so SymPy runs at full speed), give per-line hit counts.  The source is parsed with
`ast` into *basic-block entries* -- the first statement of every function, of every if / elif / else / for / while / try /
except / finally / with body, and the statement that follows a compound statement (fall-through) -- and a block counts as
reached when its first line was executed.  The table goes into the evidence of C09 / C12 (`coverage['branch_coverage']`);
it is diagnostic (what the correspondence and the oracle exercised), never a verdict.
"""
import ast
import os
import sys
import types

COMPOUND = (ast.If, ast.For, ast.While, ast.Try, ast.With)


def _src_line(lines, lineno, n=110):
    return lines[lineno - 1].strip()[:n] if 0 < lineno <= len(lines) else ''


def blocks_of_function(fdef, qual, lines):
    """-> list of dict(fn, line, kind, text) for every basic-block entry of the function (nested functions included)"""
    out = []

    def entry(stmt, kind, ctx=''):
        out.append({'fn': qual, 'line': stmt.lineno, 'kind': kind, 'text': (ctx + ' | ' if ctx else '') + _src_line(lines, stmt.lineno)})

    def body(stmts, kind, ctx=''):
        if not stmts:
            return
        entry(stmts[0], kind, ctx)
        for i, st in enumerate(stmts):
            visit(st)
            if isinstance(st, COMPOUND) and i + 1 < len(stmts):
                entry(stmts[i + 1], 'after-' + type(st).__name__.lower())

    def visit(st):
        if isinstance(st, ast.If):
            test = ast.unparse(st.test)[:90]
            body(st.body, 'if', 'if ' + test)
            if st.orelse:
                if len(st.orelse) == 1 and isinstance(st.orelse[0], ast.If):
                    visit_elif(st.orelse[0])
                else:
                    body(st.orelse, 'else', 'else of ' + test)
        elif isinstance(st, (ast.For, ast.While)):
            body(st.body, 'loop')
            body(st.orelse, 'loop-else')
        elif isinstance(st, ast.Try):
            body(st.body, 'try')
            for h in st.handlers:
                body(h.body, 'except', 'except ' + (ast.unparse(h.type) if h.type else ''))
            body(st.orelse, 'try-else')
            body(st.finalbody, 'finally')
        elif isinstance(st, ast.With):
            body(st.body, 'with')
        elif isinstance(st, (ast.FunctionDef, ast.AsyncFunctionDef)):
            out.extend(blocks_of_function(st, qual + '.' + st.name, lines))

    def visit_elif(st):
        test = ast.unparse(st.test)[:90]
        body(st.body, 'elif', 'elif ' + test)
        if st.orelse:
            if len(st.orelse) == 1 and isinstance(st.orelse[0], ast.If):
                visit_elif(st.orelse[0])
            else:
                body(st.orelse, 'else', 'else of ' + test)

    stmts = fdef.body
    if stmts and isinstance(stmts[0], ast.Expr) and isinstance(stmts[0].value, ast.Constant) and isinstance(stmts[0].value.value, str):
        stmts = stmts[1:]          # a docstring produces no line event
    body(stmts, 'entry', 'def ' + fdef.name)
    return out


def enumerate_blocks(path, select=None):
    """select: None (everything) or a set of names: 'Class', 'Class.method', 'function'"""
    src = open(path).read()
    lines = src.split('\n')
    import warnings
    with warnings.catch_warnings():
        warnings.simplefilter('ignore')
        tree = ast.parse(src)
    out = []
    for node in tree.body:
        if isinstance(node, ast.ClassDef):
            for f in node.body:
                if isinstance(f, ast.FunctionDef):
                    q = node.name + '.' + f.name
                    if select is None or node.name in select or q in select:
                        out.extend(blocks_of_function(f, q, lines))
        elif isinstance(node, ast.FunctionDef):
            if select is None or node.name in select:
                out.extend(blocks_of_function(node, node.name, lines))
    # de-duplicate (a statement can be both `after-if` and something else): keep the first
    seen = set()
    res = []
    for b in out:
        if (b['fn'], b['line']) not in seen:
            seen.add((b['fn'], b['line']))
            res.append(b)
    return res


def _codes_of(code):
    yield code
    for c in code.co_consts:
        if isinstance(c, types.CodeType):
            yield from _codes_of(c)


class BranchCov:
    """files: {label: (module, select)}, e.g. {'laplace.py': (lcapy.laplace, None)}"""

    def __init__(self, files, annotate=None):
        self.files = {}
        self.hits = {}
        self.annotate = annotate or (lambda fname, block: '')
        self.tool = None
        self.active = False
        for label, (mod, select) in files.items():
            path = mod.__file__
            self.files[label] = {'path': os.path.realpath(path), 'module': mod, 'select': select,
                                 'blocks': enumerate_blocks(path, select)}

    def _module_codes(self, mod, path):
        for obj in vars(mod).values():
            fns = []
            if isinstance(obj, types.FunctionType):
                fns = [obj]
            elif isinstance(obj, type):
                for v in vars(obj).values():
                    if isinstance(v, types.FunctionType):
                        fns.append(v)
                    elif isinstance(v, (staticmethod, classmethod)):
                        fns.append(v.__func__)
                    elif isinstance(v, property) and v.fget:
                        fns.append(v.fget)
            for f in fns:
                f = getattr(f, '__wrapped__', f)
                code = getattr(f, '__code__', None)
                if code is not None and os.path.realpath(code.co_filename) == path:
                    yield from _codes_of(code)

    def start(self):
        mon = getattr(sys, 'monitoring', None)
        if mon is None:
            return False
        for tid in (3, 4, 1):
            try:
                mon.use_tool_id(tid, 'verif-branchcov')
                self.tool = tid
                break
            except ValueError:
                continue
        if self.tool is None:
            return False
        hits = self.hits
        paths = {f['path']: label for label, f in self.files.items()}

        def on_line(code, lineno):
            label = paths.get(code.co_filename) or paths.get(os.path.realpath(code.co_filename))
            if label is not None:
                k = (label, lineno)
                hits[k] = hits.get(k, 0) + 1
        mon.register_callback(self.tool, mon.events.LINE, on_line)
        for label, f in self.files.items():
            for code in set(self._module_codes(f['module'], f['path'])):
                try:
                    mon.set_local_events(self.tool, code, mon.events.LINE)
                except Exception:   # noqa
                    pass
        self.active = True
        return True

    def stop(self):
        if self.active:
            mon = sys.monitoring
            try:
                mon.register_callback(self.tool, mon.events.LINE, None)
                mon.free_tool_id(self.tool)
            except Exception:   # noqa
                pass
            self.active = False

    def snapshot(self):
        return dict(self.hits)

    def new_since(self, snap):
        """block keys (label, fn, line) first reached after the snapshot"""
        out = []
        for label, f in self.files.items():
            for b in f['blocks']:
                k = (label, b['line'])
                if self.hits.get(k, 0) > 0 and snap.get(k, 0) == 0:
                    out.append((label, b['fn'], b['line']))
        return out

    def table(self):
        """-> {'summary': {...}, 'files': {label: [rows]}, 'unreached': [...]}"""
        res = {'instrument': 'sys.monitoring LINE events on the code objects of the listed functions; block = basic-block entry (ast)',
               'active': self.active or bool(self.hits), 'summary': {}, 'files': {}, 'unreached': []}
        for label, f in self.files.items():
            rows = []
            reached = 0
            for b in f['blocks']:
                h = self.hits.get((label, b['line']), 0)
                note = self.annotate(label, b)
                rows.append({'fn': b['fn'], 'line': b['line'], 'kind': b['kind'], 'hits': h, 'text': b['text'], 'status': note})
                if h:
                    reached += 1
                else:
                    res['unreached'].append('%s:%d %s [%s] %s%s' % (label, b['line'], b['fn'], b['kind'], b['text'][:90],
                                                                    (' -- ' + note) if note else ''))
            res['files'][label] = rows
            res['summary'][label] = {'blocks': len(rows), 'reached': reached}
        return res


if __name__ == '__main__':
    p = sys.argv[1]
    for b in enumerate_blocks(p):
        print('%-45s %4d %-10s %s' % (b['fn'], b['line'], b['kind'], b['text']))
