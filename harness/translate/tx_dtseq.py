"""tx_dtseq: regenerate lean/Lcapy/Generated/DTSeq.lean from /repo/lcapy/nseq.py and /repo/lcapy/zseq.py.

Reads the *source text* of DiscreteTimeDomainSequence.ZT and ZDomainSequence.IZT with Python's `ast` module and
records, for each, (a) which exponent the per-element factor `z ** (...)` uses -- the list position `ni` or the
sequence index `self.n[ni]` -- and (b) whether the returned sequence keeps the indices (`ni=self.n` passed on).
The Lean driver selects the corresponding model (`seqZTPy` / `seqZT`, Lcapy/Model/DT.lean); the theorems
`seq_zt_partial` / `seq_zt_origin` (Props/C13b.lean) say for which of them the terms sum to the defining sum.
Nothing of the modelled logic is executed.  A shape that is not understood is reported in `unparsed` and the
flags default to the position form, so that the correspondence decides.
"""
import ast
import json
import os
import sys


def _find_method(tree, cls, name):
    for node in tree.body:
        if isinstance(node, ast.ClassDef) and node.name == cls:
            for f in node.body:
                if isinstance(f, ast.FunctionDef) and f.name == name:
                    return f
    return None


def _element_expr(fdef):
    """the expression appended to `results` inside the loop"""
    assigned = {}
    found = None
    for node in ast.walk(fdef):
        if isinstance(node, ast.For):
            for st in node.body:
                if isinstance(st, ast.Assign) and len(st.targets) == 1 and isinstance(st.targets[0], ast.Name):
                    # keep the FIRST assignment of a name (later ones re-wrap the same value: result.change(result, ...))
                    assigned.setdefault(st.targets[0].id, st.value)
                if (isinstance(st, ast.Expr) and isinstance(st.value, ast.Call) and isinstance(st.value.func, ast.Attribute)
                        and st.value.func.attr == 'append' and st.value.args):
                    a = st.value.args[0]
                    found = assigned.get(a.id) if isinstance(a, ast.Name) else a
    return found


def _exponent_kind(expr):
    """-> ('position' | 'index' | None, negated?) : the exponent of the factor  z ** (+-X)"""
    kinds = set()
    signs = set()
    for node in ast.walk(expr):
        base = node.left if isinstance(node, ast.BinOp) else None
        if isinstance(base, ast.Attribute) and base.attr in ('sympy', 'expr', 'var'):     # z.sympy ** (...)
            base = base.value
        if isinstance(node, ast.BinOp) and isinstance(node.op, ast.Pow) and isinstance(base, ast.Name) and base.id in ('z', 'zsym'):
            e = node.right
            neg = False
            if isinstance(e, ast.UnaryOp) and isinstance(e.op, ast.USub):
                e = e.operand
                neg = True
            signs.add(neg)
            if isinstance(e, ast.Name) and e.id == 'ni':
                kinds.add('position')
            elif (isinstance(e, ast.Subscript) and isinstance(e.value, ast.Attribute) and e.value.attr == 'n'
                  and isinstance(e.value.value, ast.Name) and e.value.value.id == 'self'
                  and isinstance(e.slice, ast.Name) and e.slice.id == 'ni'):
                kinds.add('index')
            else:
                kinds.add('other')
    if len(kinds) == 1 and 'other' not in kinds and len(signs) == 1:
        return kinds.pop(), signs.pop()
    return None, None


def _keeps_indices(fdef):
    """does the final `return self.change(results, ...)` pass `ni=self.n` (or the indices positionally)?"""
    for node in ast.walk(fdef):
        if isinstance(node, ast.Return) and isinstance(node.value, ast.Call):
            c = node.value
            for kw in c.keywords:
                if kw.arg == 'ni' and isinstance(kw.value, ast.Attribute) and kw.value.attr == 'n':
                    return True
            if len(c.args) >= 2 and isinstance(c.args[1], ast.Attribute) and c.args[1].attr == 'n':
                return True
            return False
    return False


def generate(repo, out_path):
    info = {'unparsed': []}
    res = {}
    for key, fname, cls, meth in (('zt', 'nseq.py', 'DiscreteTimeDomainSequence', 'ZT'), ('izt', 'zseq.py', 'ZDomainSequence', 'IZT')):
        path = os.path.join(repo, 'lcapy', fname)
        src = open(path).read()
        f = _find_method(ast.parse(src), cls, meth)
        kind, keeps, text = None, False, ''
        if f is None:
            info['unparsed'].append('%s.%s not found' % (cls, meth))
        else:
            e = _element_expr(f)
            if e is None:
                info['unparsed'].append('%s.%s: no results.append(...) in a loop' % (cls, meth))
            else:
                text = ast.unparse(e)
                kind, neg = _exponent_kind(e)
                if kind is None:
                    info['unparsed'].append('%s.%s: exponent of z not understood in %s' % (cls, meth, text))
                elif neg != (key == 'zt'):
                    # ZT multiplies by z**(-index), IZT by z**(+index); any other sign is not one of the two modelled forms
                    info['unparsed'].append('%s.%s: unexpected sign of the exponent in %s' % (cls, meth, text))
                    kind = None
            keeps = _keeps_indices(f)
        res[key] = {'exponent': kind or 'position', 'keeps_indices': keeps, 'source': text, 'line': getattr(f, 'lineno', 0)}
    info.update(res)
    b = lambda v: 'true' if v else 'false'   # noqa
    lean = ('/- GENERATED by harness/translate/tx_dtseq.py from lcapy/nseq.py and lcapy/zseq.py -- do not edit.\n'
            '   Which exponent the sequence transforms use: the list position `ni` or the sequence index `self.n[ni]`,\n'
            '   and whether the result keeps the sequence indices. -/\n'
            'namespace Lcapy.Generated.DTSeq\n'
            'def ztUsesSequenceIndex : Bool := %s\n'
            'def ztKeepsIndices : Bool := %s\n'
            'def iztUsesSequenceIndex : Bool := %s\n'
            'def iztKeepsIndices : Bool := %s\n'
            'def ztSource : String := %s\n'
            'def iztSource : String := %s\n'
            'end Lcapy.Generated.DTSeq\n') % (b(res['zt']['exponent'] == 'index'), b(res['zt']['keeps_indices']),
                                             b(res['izt']['exponent'] == 'index'), b(res['izt']['keeps_indices']),
                                             json.dumps(res['zt']['source']), json.dumps(res['izt']['source']))
    old = open(out_path).read() if os.path.exists(out_path) else None
    if old != lean:
        with open(out_path, 'w') as fh:
            fh.write(lean)
    info['changed'] = old != lean
    return info


if __name__ == '__main__':
    repo = sys.argv[1] if len(sys.argv) > 1 else os.environ.get('VERIF_REPO', '/repo')
    here = os.path.dirname(os.path.dirname(os.path.dirname(os.path.abspath(__file__))))
    print(json.dumps(generate(repo, os.path.join(here, 'lean', 'Lcapy', 'Generated', 'DTSeq.lean')), indent=1))
