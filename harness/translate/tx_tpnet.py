"""tx_tpnet: regenerate lean/Lcapy/Generated/TwoPortNet.lean from /repo/lcapy/twoport.py (property C08).

Reads the *source text* (Python `ast`; nothing is executed) of the TwoPort NETWORK level:

  XMatrix.equation()            the two vectors of every defining equation, as signed port variables
  TwoPort{A,B,G,H,Y,Z}Model     class attributes model / output / input / offset (what TwoPort.equation() prints),
                                the order of `self._sources = Vector((…))`
  TwoPort.Pparams / overrides   `self._params.Pparams`  (dispatch on the class of the native matrix)
  source-vector conversions     V2b I2b V1a I1a I1g V2g V1h I2h I1y I2y V1z V2z for every model class, resolved
                                through the MRO (TwoPort{X}Model, then TwoPort), incl. the mixin accessors `_B11` …
  Chain.__init__                seed, matrix accumulation and source accumulation (operand order from the source)
  TwoPort.chain/append/prepend/cascade/__mul__
  Par2 / Ser2 / Hybrid2 / InverseHybrid2 .__init__   which matrices and which sources are added, handed to which model
  TwoPort.Amodel … Zmodel       which matrix and sources are handed to which model class

Anything whose shape is not recognised is listed under `unparsed` and not emitted, so that the Lean
obligation that mentions it fails to build.
"""
import ast
import os

REPS = ['A', 'B', 'G', 'H', 'S', 'T', 'Y', 'Z']
MREPS = ['A', 'B', 'G', 'H', 'Y', 'Z']
SRC = ['V1a', 'I1a', 'V2b', 'I2b', 'I1g', 'V2g', 'V1h', 'I2h', 'I1y', 'I2y', 'V1z', 'V2z']
OFFSET = {'A': ('V1a', 'I1a'), 'B': ('V2b', 'I2b'), 'G': ('I1g', 'V2g'), 'H': ('V1h', 'I2h'),
          'Y': ('I1y', 'I2y'), 'Z': ('V1z', 'V2z')}
WRAPPERS = {'LaplaceDomainImpedance', 'LaplaceDomainAdmittance', 'LaplaceDomainTransferFunction',
            'LaplaceDomainExpression', 'ConstantDomainExpression', 'expr',
            'LaplaceDomainVoltage', 'LaplaceDomainCurrent'}
IDX = {'11': 'a11', '12': 'a12', '21': 'a21', '22': 'a22'}
PVARS = {'V1', 'I1', 'V2', 'I2', 'a1', 'b1', 'a2', 'b2'}


class Unparsed(Exception):
    pass


def signed(s):
    """'-I2' -> (True, 'I2')"""
    if not isinstance(s, str):
        raise Unparsed('vector entry %r' % (s,))
    s = s.strip()
    neg = False
    while s.startswith('-') or s.startswith('+'):
        if s[0] == '-':
            neg = not neg
        s = s[1:].strip()
    if s not in PVARS:
        raise Unparsed('unknown port variable %r' % s)
    return (neg, s)


def lean_svec(v):
    return '[' + ', '.join('(%s, "%s")' % ('true' if n else 'false', s) for (n, s) in v) + ']'


class Tx:
    def __init__(self, src):
        self.tree = ast.parse(src)
        self.cls = {}
        self.cnode = {}
        for node in self.tree.body:
            if isinstance(node, ast.ClassDef):
                self.cnode[node.name] = node
                self.cls[node.name] = {f.name: f for f in node.body if isinstance(f, ast.FunctionDef)}
        self.out = []
        self.defs = []
        self.unparsed = []
        self.notes = []
        self.srcdefs = {}     # (N, attr) -> lean text or None
        self.stack = []

    # ------------------------------------------------------------------ equation() vectors
    def equation_vectors(self):
        res = {}
        for rep in REPS:
            f = self.cls.get(rep + 'Matrix', {}).get('equation')
            try:
                if f is None:
                    raise Unparsed('no equation()')
                rets = [s for s in f.body if isinstance(s, ast.Return)]
                if len(rets) != 1:
                    raise Unparsed('equation() body')
                c = rets[0].value
                # Equation(Matrix((l1, l2)), MatMul(self, Matrix((r1, r2))))
                if not (isinstance(c, ast.Call) and getattr(c.func, 'id', None) == 'Equation' and len(c.args) == 2):
                    raise Unparsed('not Equation(lhs, rhs)')
                lhs, mm = c.args
                if not (isinstance(mm, ast.Call) and getattr(mm.func, 'id', None) == 'MatMul' and len(mm.args) == 2
                        and isinstance(mm.args[0], ast.Name) and mm.args[0].id == 'self'):
                    raise Unparsed('rhs is not MatMul(self, vector): %s' % ast.unparse(mm)[:60])

                def vec(e):
                    if not (isinstance(e, ast.Call) and getattr(e.func, 'id', None) == 'Matrix' and len(e.args) == 1
                            and isinstance(e.args[0], ast.Tuple) and len(e.args[0].elts) == 2
                            and all(isinstance(x, ast.Constant) for x in e.args[0].elts)):
                        raise Unparsed('vector %s' % ast.unparse(e)[:60])
                    return [signed(x.value) for x in e.args[0].elts]
                res[rep] = (vec(lhs), vec(mm.args[1]))
            except Unparsed as e:
                self.unparsed.append({'item': '%sMatrix.equation' % rep, 'why': str(e)})
        return res

    # ------------------------------------------------------------------ model class attributes
    def model_vectors(self):
        res = {}
        order = {}
        for rep in MREPS:
            cname = 'TwoPort%sModel' % rep
            node = self.cnode.get(cname)
            try:
                if node is None:
                    raise Unparsed('class missing')
                attrs = {}
                for st in node.body:
                    if isinstance(st, ast.Assign) and len(st.targets) == 1 and isinstance(st.targets[0], ast.Name):
                        attrs[st.targets[0].id] = st.value
                if not (isinstance(attrs.get('model'), ast.Constant) and attrs['model'].value == rep):
                    raise Unparsed('model attribute')

                def tup(e):
                    if not (isinstance(e, ast.Tuple) and len(e.elts) == 2 and all(isinstance(x, ast.Constant) for x in e.elts)):
                        raise Unparsed('tuple attribute')
                    return [x.value for x in e.elts]
                res[rep] = ([signed(x) for x in tup(attrs['output'])], [signed(x) for x in tup(attrs['input'])],
                            tup(attrs['offset']))
                init = self.cls[cname]['__init__']
                names = None
                for st in ast.walk(init):
                    if isinstance(st, ast.Assign) and ast.unparse(st.targets[0]) == 'self._sources':
                        v = st.value
                        if (isinstance(v, ast.Call) and getattr(v.func, 'id', None) == 'Vector' and len(v.args) == 1
                                and isinstance(v.args[0], ast.Tuple) and all(isinstance(x, ast.Name) for x in v.args[0].elts)):
                            names = [x.id for x in v.args[0].elts]
                pnames = [a.arg for a in init.args.args]
                if names is None or len(names) != 2 or pnames[5:7] != names:
                    raise Unparsed('_sources order %s vs parameters %s' % (names, pnames[5:7]))
                # the first positional parameter must become _params
                pa = [ast.unparse(st.value) for st in ast.walk(init)
                      if isinstance(st, ast.Assign) and ast.unparse(st.targets[0]) == 'self._params']
                if pa != [rep]:
                    raise Unparsed('_params assignment %s' % pa)
                order[rep] = names
            except (Unparsed, KeyError) as e:
                res.pop(rep, None)
                self.unparsed.append({'item': cname + ' attributes', 'why': str(e)})
        return res, order

    # ------------------------------------------------------------------ model constructors
    def ctor_rules(self):
        """TwoPort<N>Model.__init__(X11, X12, X21, X22, s1, s2): how each scalar argument is defaulted.
        Returns {N: {'matrix_route': bool, 'entries': [rule x4], 'sources': [rule x2]}} with rule in
        'ifNone' (`'X11' if X11 is None else X11`, `if s is None: s = 0`) or 'ifFalsy' (`X11 or 'X11'`)."""
        res = {}
        for rep in MREPS:
            cname = 'TwoPort%sModel' % rep
            try:
                init = self.cls[cname]['__init__']
                pn = [a.arg for a in init.args.args]
                ents = pn[1:5]
                if ents != ['%s%s' % (rep, ij) for ij in ('11', '12', '21', '22')] or pn[5:7] != list(OFFSET[rep]):
                    raise Unparsed('parameter names %s' % pn)
                top = [st for st in init.body if isinstance(st, ast.If)]
                want_test = '%s is not None and %s is None and %s is None and %s is None' % tuple(ents)
                first = top[0]
                if ast.unparse(first.test).replace('(', '').replace(')', '') != want_test or [ast.unparse(x) for x in first.body] != ['%s = %s' % (rep, ents[0])]:
                    raise Unparsed('matrix-argument route: %s' % ast.unparse(first.test)[:80])
                rules = {}
                for st in first.orelse:
                    if not (isinstance(st, ast.Assign) and isinstance(st.targets[0], ast.Name)):
                        raise Unparsed('else branch statement %s' % ast.unparse(st)[:60])
                    tgt = st.targets[0].id
                    v = st.value
                    if tgt in ents:
                        if (isinstance(v, ast.IfExp) and ast.unparse(v.test) == '%s is None' % tgt
                                and isinstance(v.body, ast.Constant) and v.body.value == tgt and ast.unparse(v.orelse) == tgt):
                            rules[tgt] = 'ifNone'
                        elif (isinstance(v, ast.BoolOp) and isinstance(v.op, ast.Or) and len(v.values) == 2
                              and ast.unparse(v.values[0]) == tgt and isinstance(v.values[1], ast.Constant)
                              and v.values[1].value == tgt):
                            rules[tgt] = 'ifFalsy'
                        else:
                            raise Unparsed('defaulting of %s: %s' % (tgt, ast.unparse(v)[:60]))
                    elif tgt == rep:
                        want = '%sMatrix(((%s, %s), (%s, %s)))' % ((rep,) + tuple(ents))
                        if ast.unparse(v) != want:
                            raise Unparsed('matrix assembly %s' % ast.unparse(v)[:80])
                    else:
                        raise Unparsed('else branch assigns %s' % tgt)
                if sorted(rules) != sorted(ents):
                    raise Unparsed('entries defaulted: %s' % sorted(rules))
                srules = []
                for sname in OFFSET[rep]:
                    hit = None
                    for st in top[1:]:
                        t = ast.unparse(st.test)
                        if len(st.body) == 1 and isinstance(st.body[0], ast.Assign) and ast.unparse(st.body[0].targets[0]) == sname \
                                and not st.orelse:
                            val = ast.unparse(st.body[0].value)
                            if not (val.startswith('LaplaceDomain') and val.endswith('(0)')):
                                continue
                            if t == '%s is None' % sname:
                                hit = 'ifNone'
                            elif t == 'not %s' % sname:
                                hit = 'ifFalsy'
                    if hit is None:
                        raise Unparsed('default of source %s' % sname)
                    srules.append(hit)
                res[rep] = {'entries': [rules[e] for e in ents], 'sources': srules, 'line': init.lineno}
            except (Unparsed, KeyError, IndexError) as e:
                self.unparsed.append({'item': cname + '.__init__ defaulting', 'why': str(e)})
        return res

    # ------------------------------------------------------------------ MRO lookup on the network classes
    def lookup(self, n, attr):
        for cname in ('TwoPort%sModel' % n, 'TwoPort', 'TwoPortMixin'):
            f = self.cls.get(cname, {}).get(attr)
            if f is not None:
                return cname, f
        raise Unparsed('TwoPort%sModel.%s not found' % (n, attr))

    def params_expr(self, n, p):
        """Lean expression (over m, Z0) of `self.<P>params` for an object of class TwoPort<n>Model"""
        cname, f = self.lookup(n, p + 'params')
        body = [st for st in f.body if not (isinstance(st, ast.Expr) and isinstance(st.value, ast.Constant))]
        val = None
        if len(body) == 1 and isinstance(body[0], ast.Return):
            val = body[0].value
        elif (len(body) == 2 and isinstance(body[0], ast.If) and isinstance(body[1], ast.Return)
              and ast.unparse(body[0].test) == "not hasattr(self, '_%sparams')" % p
              and len(body[0].body) == 1 and isinstance(body[0].body[0], ast.Assign)
              and ast.unparse(body[0].body[0].targets[0]) == 'self._%sparams' % p
              and ast.unparse(body[1].value) == 'self._%sparams' % p):
            val = body[0].body[0].value
        if val is None:
            raise Unparsed('%s.%sparams body' % (cname, p))
        s = ast.unparse(val)
        if s == 'self._params':
            return 'm', cname, f.lineno
        if s.startswith('self._params.') and s.endswith('params') and len(s) == len('self._params.Xparams') and s[13] in REPS:
            return '(%s_to_%s m Z0)' % (n, s[13]), cname, f.lineno
        raise Unparsed('%s.%sparams returns %s' % (cname, p, s[:60]))

    # ------------------------------------------------------------------ source-vector conversions
    def need_src(self, n, attr):
        key = (n, attr)
        if key in self.srcdefs:
            if self.srcdefs[key] is None:
                raise Unparsed('depends on untranslatable/cyclic TPN_%s_%s' % (n, attr))
            return
        if key in self.stack:
            raise Unparsed('cycle through TPN_%s_%s' % (n, attr))
        self.stack.append(key)
        try:
            cname, f = self.lookup(n, attr)
            body = self.src_body(n, f)
            text = '/-- %s.%s (twoport.py:%d), self of class TwoPort%sModel -/\ndef TPN_%s_%s (m : M2 K) (s1 s2 Z0 : K) : K :=\n  %s\n' % (
                cname, attr, f.lineno, n, n, attr, body)
            self.srcdefs[key] = text
            self.out.append(text + '\n')
            self.defs.append('TPN_%s_%s' % (n, attr))
        except Unparsed as e:
            self.srcdefs[key] = None
            self.unparsed.append({'item': 'TPN_%s_%s' % (n, attr), 'why': str(e)})
            raise
        finally:
            self.stack.pop()

    def src_body(self, n, f):
        env = {}
        ret = None
        for st in f.body:
            if isinstance(st, ast.Expr) and isinstance(st.value, ast.Constant):
                continue
            if isinstance(st, ast.Assign) and len(st.targets) == 1 and isinstance(st.targets[0], ast.Name):
                env[st.targets[0].id] = st.value
                continue
            if isinstance(st, ast.If) and not st.orelse and len(st.body) == 1 and isinstance(st.body[0], ast.Return):
                # `if self.V1a == 0 and self.I1a == 0: return self.I1a` -- zero-source shortcut (avoids a matrix
                # inverse); the value returned is the zero source itself, which the general formula also gives
                t = ast.unparse(st.test)
                r = ast.unparse(st.body[0].value)
                parts = [x.strip() for x in t.split(' and ')]
                if all(x.endswith(' == 0') and x.startswith('self.') for x in parts) and \
                        r in [x[:-len(' == 0')] for x in parts]:
                    self.notes.append('%s: zero-source shortcut `if %s: return %s` (same value as the formula)' % (f.name, t, r))
                    continue
                raise Unparsed('if statement %s' % t[:60])
            if isinstance(st, ast.Return):
                ret = st.value
                continue
            raise Unparsed('statement %s' % type(st).__name__)
        if ret is None:
            raise Unparsed('no return')
        return self.sc(n, ret, env)

    def mixin_entry_ok(self, a):
        """`_B12` must be `self.Bparams[0, 1]`, `B12` must be `expr(self._B12)`"""
        priv = a.startswith('_')
        base = a.lstrip('_')
        f = self.cls.get('TwoPortMixin', {}).get(a)
        if f is None:
            raise Unparsed('TwoPortMixin.%s not found' % a)
        rets = [st for st in f.body if isinstance(st, ast.Return)]
        if len(rets) != 1:
            raise Unparsed('TwoPortMixin.%s body' % a)
        s = ast.unparse(rets[0].value)
        i, j = int(base[1]) - 1, int(base[2]) - 1
        want = 'self.%sparams[%d, %d]' % (base[0], i, j) if priv else 'expr(self._%s)' % base
        if s != want:
            raise Unparsed('TwoPortMixin.%s returns %s (expected %s)' % (a, s, want))
        if not priv:
            self.mixin_entry_ok('_' + base)

    def matx(self, n, e, env):
        """matrix-valued sub-expression `self.Xparams` -> (rep, lean)"""
        if (isinstance(e, ast.Attribute) and isinstance(e.value, ast.Name) and e.value.id == 'self'
                and e.attr.endswith('params') and len(e.attr) == 7 and e.attr[0] in REPS):
            lean, _, _ = self.params_expr(n, e.attr[0])
            return e.attr[0], lean
        raise Unparsed('matrix receiver %s' % ast.unparse(e)[:60])

    def sc(self, n, e, env):
        if isinstance(e, ast.Constant) and isinstance(e.value, int) and not isinstance(e.value, bool):
            return '%d' % e.value if e.value >= 0 else '(-%d)' % -e.value
        if isinstance(e, ast.Name):
            if e.id in env:
                return self.sc(n, env[e.id], env)
            raise Unparsed('name %s' % e.id)
        if isinstance(e, ast.UnaryOp) and isinstance(e.op, ast.USub):
            return '(-%s)' % self.sc(n, e.operand, env)
        if isinstance(e, ast.BinOp):
            ops = {ast.Add: '+', ast.Sub: '-', ast.Mult: '*', ast.Div: '/'}
            for k, v in ops.items():
                if isinstance(e.op, k):
                    return '(%s %s %s)' % (self.sc(n, e.left, env), v, self.sc(n, e.right, env))
            raise Unparsed('operator %s' % type(e.op).__name__)
        if isinstance(e, ast.Call):
            fn = e.func
            if isinstance(fn, ast.Name) and fn.id in WRAPPERS and len(e.args) == 1:
                return self.sc(n, e.args[0], env)
            if isinstance(fn, ast.Attribute) and fn.attr == 'det' and not e.args:
                _, lean = self.matx(n, fn.value, env)
                return '(M2.det %s)' % lean
        if isinstance(e, ast.Subscript):
            # self.sources[0]
            if ast.unparse(e.value) == 'self.sources' and isinstance(e.slice, ast.Constant) and e.slice.value in (0, 1):
                return 's1' if e.slice.value == 0 else 's2'
        if isinstance(e, ast.Attribute):
            if e.attr == 'expr':
                return self.sc(n, e.value, env)
            recv_self = isinstance(e.value, ast.Name) and e.value.id == 'self'
            a = e.attr
            base = a.lstrip('_')
            if len(base) == 3 and base[0] in REPS and base[1:] in IDX and len(a) - len(base) <= 1:
                if recv_self:
                    self.mixin_entry_ok(a)
                    lean, _, _ = self.params_expr(n, base[0])
                    return '%s.%s' % (lean, IDX[base[1:]])
                rep, lean = self.matx(n, e.value, env)
                if rep != base[0]:
                    raise Unparsed('entry %s of a %s matrix' % (a, rep))
                return '%s.%s' % (lean, IDX[base[1:]])
            if recv_self and a in SRC:
                self.need_src(n, a)
                return '(TPN_%s_%s m s1 s2 Z0)' % (n, a)
            if recv_self and a.startswith('_') and a[1:] in SRC:
                # private accessor `_V2b` -> inline its body (`self.sources[0]`)
                cname, f = self.lookup(n, a)
                return self.src_body(n, f)
        raise Unparsed('scalar expression %s' % ast.unparse(e)[:60])

    # ------------------------------------------------------------------ Chain and friends
    def obj_attr(self, e, env):
        """`arg.Bparams` / `arg.params` / `arg.V2b` for arg in env -> Lean"""
        if isinstance(e, ast.Attribute) and isinstance(e.value, ast.Name) and e.value.id in env:
            o = env[e.value.id]
            a = e.attr
            if a == 'params':
                return '%s.m' % o     # the NATIVE matrix, whatever its class
            if a.endswith('params') and len(a) == 7 and a[0] in REPS:
                return '(TPN_%sparams %s Z0)' % (a[0], o)
            if a in SRC:
                return '(TPN_%s %s Z0)' % (a, o)
        raise Unparsed('object attribute %s' % ast.unparse(e)[:60])

    def mat_prod(self, e, env, menv):
        if isinstance(e, ast.BinOp) and isinstance(e.op, ast.Mult):
            return '(M2.mul %s %s)' % (self.mat_prod(e.left, env, menv), self.mat_prod(e.right, env, menv))
        if isinstance(e, ast.Name) and e.id in menv:
            return menv[e.id]
        return self.obj_attr(e, env)

    def vec2(self, e, env):
        """Vector((x.V2b, x.I2b)) -> (lean1, lean2)"""
        if (isinstance(e, ast.Call) and getattr(e.func, 'id', None) == 'Vector' and len(e.args) == 1
                and isinstance(e.args[0], ast.Tuple) and len(e.args[0].elts) == 2):
            return tuple(self.obj_attr(x, env) for x in e.args[0].elts)
        raise Unparsed('vector %s' % ast.unparse(e)[:60])

    def tx_chain_init(self):
        init = self.cls['Chain']['__init__']
        body = [st for st in init.body if not (isinstance(st, ast.Expr) and isinstance(st.value, ast.Constant))]
        if not (len(body) >= 6 and ast.unparse(body[0]) == 'self._check_twoport_args(args)'
                and ast.unparse(body[1]) == 'arg1 = args[-1]'):
            raise Unparsed('Chain.__init__ prefix')
        # exactly two arguments (`_check_twoport_args`): a = args[0], b = args[-1]
        chk = self.cls['TwoPort']['_check_twoport_args']
        if 'len(args) != 2' not in ast.unparse(chk):
            raise Unparsed('_check_twoport_args no longer pins two arguments')
        env = {'arg1': 'b', 'arg': 'a'}
        st = body[2]
        if not (isinstance(st, ast.Assign) and ast.unparse(st.targets[0]) == 'B'):
            raise Unparsed('Chain.__init__ seed: %s' % ast.unparse(st)[:60])
        seed = self.obj_attr(st.value, env)
        st = body[3]
        if not (isinstance(st, ast.Assign) and ast.unparse(st.targets[0]) == 'foo'):
            raise Unparsed('Chain.__init__ source seed')
        f1, f2 = self.vec2(st.value, env)
        loop = body[4]
        if not (isinstance(loop, ast.For) and ast.unparse(loop.iter) == 'reversed(args[0:-1])'
                and ast.unparse(loop.target) == 'arg' and len(loop.body) == 2):
            raise Unparsed('Chain.__init__ loop header')
        st1, st2 = loop.body
        if not (isinstance(st1, ast.AugAssign) and isinstance(st1.op, ast.Add) and ast.unparse(st1.target) == 'foo'
                and isinstance(st1.value, ast.BinOp) and isinstance(st1.value.op, ast.Mult)):
            raise Unparsed('Chain.__init__ source accumulation: %s' % ast.unparse(st1)[:60])
        menv = {'B': 'B0'}
        mv = self.mat_prod(st1.value.left, env, menv)
        v1, v2 = self.vec2(st1.value.right, env)
        if not (isinstance(st2, ast.Assign) and ast.unparse(st2.targets[0]) == 'B'):
            raise Unparsed('Chain.__init__ matrix accumulation: %s' % ast.unparse(st2)[:60])
        mnew = self.mat_prod(st2.value, env, menv)
        sup = body[5]
        if not (isinstance(sup, ast.Expr) and isinstance(sup.value, ast.Call) and ast.unparse(sup.value.func).endswith('.__init__')
                and len(sup.value.args) == 1 and ast.unparse(sup.value.args[0]) == 'B'):
            raise Unparsed('Chain.__init__ super call')
        kws = {k.arg: ast.unparse(k.value) for k in sup.value.keywords}
        if kws != {'V2b': 'LaplaceDomainVoltage(foo[0, 0])', 'I2b': 'LaplaceDomainCurrent(foo[1, 0])'}:
            raise Unparsed('Chain.__init__ super keywords %s' % kws)
        base = self.cnode['Chain'].bases[0].id
        if base != 'TwoPortThing' or self.cnode['TwoPortThing'].bases[0].id != 'TwoPortBModel':
            raise Unparsed('Chain base class')
        return ('/-- Chain.__init__ (twoport.py:%d), two arguments: a = args[0], b = args[-1];\n'
                '    seed `%s`, loop `%s; %s`, handed to TwoPortBModel -/\n'
                'def TPN_Chain (a b : Stage K) (Z0 : K) : Stage K :=\n'
                '  let B0 := %s\n'
                '  let v := mulVec2 %s %s %s\n'
                '  ⟨.B, %s, %s + v.1, %s + v.2⟩\n'
                % (init.lineno, ast.unparse(body[2]), ast.unparse(st1), ast.unparse(st2), seed, mv, v1, v2, mnew, f1, f2))

    def tx_binary_method(self, name):
        """TwoPort.chain / append / prepend / cascade / __mul__ / parallel / series / hybrid / inverse_hybrid"""
        f = self.cls['TwoPort'][name]
        other = f.args.args[1].arg
        rets = [st for st in f.body if isinstance(st, ast.Return)]
        if len(rets) != 1:
            raise Unparsed('TwoPort.%s: %d returns' % (name, len(rets)))
        r = rets[0].value
        ctor = {'Chain': 'TPN_Chain', 'Par2': 'TPN_Par2', 'Ser2': 'TPN_Ser2', 'Hybrid2': 'TPN_Hybrid2',
                'InverseHybrid2': 'TPN_InverseHybrid2'}
        meth = {'chain': 'TPN_chain', 'parallel': 'TPN_parallel', 'series': 'TPN_series', 'hybrid': 'TPN_hybrid',
                'inverse_hybrid': 'TPN_inverse_hybrid'}
        nm = {'self': 'a', other: 'b'}
        if isinstance(r, ast.Call) and isinstance(r.func, ast.Name) and r.func.id in ctor and len(r.args) == 2 \
                and all(isinstance(x, ast.Name) and x.id in nm for x in r.args):
            body = '%s %s %s Z0' % (ctor[r.func.id], nm[r.args[0].id], nm[r.args[1].id])
        elif isinstance(r, ast.Call) and isinstance(r.func, ast.Attribute) and r.func.attr in meth and len(r.args) == 1 \
                and isinstance(r.func.value, ast.Name) and r.func.value.id in nm and isinstance(r.args[0], ast.Name) \
                and r.args[0].id in nm:
            body = '%s %s %s Z0' % (meth[r.func.attr], nm[r.func.value.id], nm[r.args[0].id])
        else:
            raise Unparsed('TwoPort.%s returns %s' % (name, ast.unparse(r)[:60]))
        lname = 'TPN_' + {'__mul__': 'mul', '__or__': 'or', '__add__': 'add'}.get(name, name)
        return lname, ('/-- TwoPort.%s (twoport.py:%d): `%s` -/\ndef %s (a b : Stage K) (Z0 : K) : Stage K :=\n  %s\n'
                       % (name, f.lineno, ast.unparse(r), lname, body))

    def tx_sum_ctor(self, cname):
        """Par2 / Ser2 / Hybrid2 / InverseHybrid2"""
        node = self.cnode[cname]
        init = self.cls[cname]['__init__']
        base = node.bases[0].id if isinstance(node.bases[0], ast.Name) else None
        if not (base and base.startswith('TwoPort') and base.endswith('Model') and base[7] in MREPS):
            raise Unparsed('%s base %s' % (cname, base))
        rep = base[7]
        firsts = {}
        adds = {}
        for st in init.body:
            if isinstance(st, ast.Assign) and isinstance(st.targets[0], ast.Name) and isinstance(st.value, ast.Attribute) \
                    and isinstance(st.value.value, ast.Name) and st.value.value.id == 'arg':
                firsts[st.targets[0].id] = st.value.attr
            if isinstance(st, ast.For):
                if ast.unparse(st.iter) != 'args[1:]' or ast.unparse(st.target) != 'arg':
                    raise Unparsed('%s loop header' % cname)
                for s2 in st.body:
                    if not (isinstance(s2, ast.AugAssign) and isinstance(s2.op, ast.Add) and isinstance(s2.target, ast.Name)
                            and isinstance(s2.value, ast.Attribute) and isinstance(s2.value.value, ast.Name)
                            and s2.value.value.id == 'arg'):
                        raise Unparsed('%s loop body %s' % (cname, ast.unparse(s2)[:50]))
                    adds[s2.target.id] = s2.value.attr
        if 'arg = args[0]' not in [ast.unparse(st) for st in init.body]:
            raise Unparsed('%s first argument' % cname)
        if firsts != adds or len(firsts) != 3:
            raise Unparsed('%s accumulation %s / %s' % (cname, firsts, adds))
        sup = [st for st in init.body if isinstance(st, ast.Expr) and isinstance(st.value, ast.Call)
               and ast.unparse(st.value.func).endswith('.__init__')]
        if len(sup) != 1 or len(sup[0].value.args) != 1 or not isinstance(sup[0].value.args[0], ast.Name):
            raise Unparsed('%s super call' % cname)
        mvar = sup[0].value.args[0].id
        kws = {k.arg: (k.value.id if isinstance(k.value, ast.Name) else None) for k in sup[0].value.keywords}
        o1, o2 = OFFSET[rep]
        if set(kws) != {o1, o2} or kws[o1] not in firsts or kws[o2] not in firsts or mvar not in firsts:
            raise Unparsed('%s super keywords %s' % (cname, kws))

        def term(var):
            a = firsts[var]
            if a.endswith('params') and len(a) == 7 and a[0] in REPS:
                return 'M2.add (TPN_%sparams a Z0) (TPN_%sparams b Z0)' % (a[0], a[0])
            if a in SRC:
                return 'TPN_%s a Z0 + TPN_%s b Z0' % (a, a)
            raise Unparsed('%s adds %s' % (cname, a))
        return ('/-- %s.__init__ (twoport.py:%d): %s, handed to %s -/\n'
                'def TPN_%s (a b : Stage K) (Z0 : K) : Stage K :=\n  ⟨.%s, %s,\n   %s,\n   %s⟩\n'
                % (cname, init.lineno, ', '.join('`%s += arg.%s`' % kv for kv in sorted(adds.items())), base, cname,
                   rep, term(mvar), term(kws[o1]), term(kws[o2])))

    def tx_model_prop(self, rep):
        f = self.cls['TwoPort'][rep + 'model']
        rets = [st for st in f.body if isinstance(st, ast.Return)]
        if len(rets) != 1:
            raise Unparsed('TwoPort.%smodel body' % rep)
        r = rets[0].value
        o1, o2 = OFFSET[rep]
        if not (isinstance(r, ast.Call) and getattr(r.func, 'id', None) == 'TwoPort%sModel' % rep and len(r.args) == 1):
            raise Unparsed('TwoPort.%smodel returns %s' % (rep, ast.unparse(r)[:60]))
        kws = {k.arg: ast.unparse(k.value) for k in r.keywords}
        a0 = ast.unparse(r.args[0])
        if not (a0.startswith('self.') and a0.endswith('params') and len(a0) == 12 and a0[5] in REPS):
            raise Unparsed('TwoPort.%smodel matrix %s' % (rep, a0))
        if set(kws) != {o1, o2} or not all(v.startswith('self.') and v[5:] in SRC for v in kws.values()):
            raise Unparsed('TwoPort.%smodel keywords %s' % (rep, kws))
        return ('/-- TwoPort.%smodel (twoport.py:%d): `%s` -/\ndef TPN_%smodel (t : Stage K) (Z0 : K) : Stage K :=\n'
                '  ⟨.%s, TPN_%sparams t Z0, TPN_%s t Z0, TPN_%s t Z0⟩\n'
                % (rep, f.lineno, ast.unparse(r), rep, rep, a0[5], kws[o1][5:], kws[o2][5:]))

    # ------------------------------------------------------------------ driver
    def emit(self, name, fn):
        try:
            r = fn()
            if isinstance(r, tuple):
                name, r = r
            self.out.append(r)
            self.defs.append(name)
            return True
        except (Unparsed, KeyError, IndexError, AttributeError) as e:
            self.unparsed.append({'item': name, 'why': '%s: %s' % (type(e).__name__, e)})
            return False


HEADER = '''/-
  GENERATED by harness/translate/tx_tpnet.py from /repo/lcapy/twoport.py -- do not edit.
  The TwoPort NETWORK level: equation() vectors, model class attributes, parameter dispatch on
  the native matrix class, source-vector conversions, Chain / Par2 / Ser2 / Hybrid2 /
  InverseHybrid2 constructors, the X-model conversions.
  `Stage` (Spec/TwoPortNet.lean) is only the data carrier: class of the native matrix, the
  matrix `_params`, the source vector `_sources`.
-/
import Lcapy.Generated.TwoPort
import Lcapy.Spec.TwoPortNet
namespace Lcapy.Gen
open Lcapy Lcapy.Spec
set_option linter.unusedVariables false
variable {K : Type} [Add K] [Mul K] [Neg K] [Sub K] [Div K] [OfNat K 0] [OfNat K 1] [OfNat K 2]

/-- `Matrix * Vector` -/
def mulVec2 (m : M2 K) (x y : K) : K × K := (m.a11 * x + m.a12 * y, m.a21 * x + m.a22 * y)

'''


def generate(repo='/repo'):
    src = open(os.path.join(repo, 'lcapy', 'twoport.py')).read()
    tx = Tx(src)
    parts = [HEADER]
    # 1. equation vectors
    eqs = tx.equation_vectors()
    parts.append('/-- the `equation()` method of each matrix class: (class, lhs vector, rhs vector), entries (negated?, name) -/\n')
    parts.append('def equationVectors : List (String × List (Bool × String) × List (Bool × String)) :=\n  [')
    parts.append(',\n   '.join('("%s", %s, %s)' % (r, lean_svec(eqs[r][0]), lean_svec(eqs[r][1])) for r in REPS if r in eqs))
    parts.append(']\n\n')
    # 2. model attributes
    mv, order = tx.model_vectors()
    parts.append('/-- class attributes of TwoPortAModel … TwoPortZModel: (model, output, input, offset) -/\n')
    parts.append('def modelVectors : List (String × List (Bool × String) × List (Bool × String) × List String) :=\n  [')
    parts.append(',\n   '.join('("%s", %s, %s, [%s])' % (r, lean_svec(mv[r][0]), lean_svec(mv[r][1]),
                                                      ', '.join('"%s"' % x for x in mv[r][2])) for r in MREPS if r in mv))
    parts.append(']\n\n')
    parts.append('/-- `self._sources = Vector((…))` in each model constructor (= its 6th, 7th parameters) -/\n')
    parts.append('def modelSources : List (String × List String) :=\n  [')
    parts.append(', '.join('("%s", [%s])' % (r, ', '.join('"%s"' % x for x in order[r])) for r in MREPS if r in order))
    parts.append(']\n\n')
    cr = tx.ctor_rules()
    parts.append('/-- TwoPort?Model.__init__ given four scalar entries and two sources: how each argument is defaulted.\n'
                 '    `ifNone`: replaced by its default (free symbol / zero source) only when it is None;\n'
                 '    `ifFalsy`: replaced whenever it is falsy (so a numeric ZERO would be lost) -/\n')
    parts.append('def ctorRules : List (String × List ArgRule × List ArgRule) :=\n  [')
    parts.append(',\n   '.join('("%s", [%s], [%s])' % (r, ', '.join('.' + x for x in cr[r]['entries']),
                                                      ', '.join('.' + x for x in cr[r]['sources'])) for r in MREPS if r in cr))
    parts.append(']\n\n')
    # 3. parameter dispatch
    for p in REPS:
        def mk(p=p):
            arms = []
            notes = []
            for n in MREPS:
                lean, cname, line = tx.params_expr(n, p)
                arms.append('  | .%s => %s' % (n, lean.replace('m Z0', 't.m Z0') if lean != 'm' else 't.m'))
                notes.append('%s:%d' % (cname, line))
            return ('/-- `self.%sparams` of a two-port whose native matrix has class `t.rep` (%s) -/\n'
                    'def TPN_%sparams (t : Stage K) (Z0 : K) : M2 K :=\n  match t.rep with\n%s\n'
                    % (p, ', '.join(sorted(set(notes))), p, '\n'.join(arms)))
        if tx.emit('TPN_%sparams' % p, mk):
            tx.out.append('\n')
    # 4. source conversions per class, then dispatch
    for a in SRC:
        ok = True
        for n in MREPS:
            try:
                tx.need_src(n, a)
            except Unparsed:
                ok = False
        if ok:
            tx.out.append('/-- `self.%s` by class of the native matrix -/\ndef TPN_%s (t : Stage K) (Z0 : K) : K :=\n  match t.rep with\n%s\n\n'
                          % (a, a, '\n'.join('  | .%s => TPN_%s_%s t.m t.s1 t.s2 Z0' % (n, n, a) for n in MREPS)))
            tx.defs.append('TPN_%s' % a)
    # 5. constructors and methods
    tx.emit('TPN_Chain', tx.tx_chain_init)
    tx.out.append('\n')
    for c in ('Par2', 'Ser2', 'Hybrid2', 'InverseHybrid2'):
        tx.emit('TPN_' + c, lambda c=c: tx.tx_sum_ctor(c))
        tx.out.append('\n')
    for mname in ('chain', 'append', 'prepend', 'cascade', '__mul__', 'parallel', 'series', 'hybrid', 'inverse_hybrid'):
        tx.emit('TPN_' + mname.strip('_'), lambda mname=mname: tx.tx_binary_method(mname))
        tx.out.append('\n')
    for r in MREPS:
        tx.emit('TPN_%smodel' % r, lambda r=r: tx.tx_model_prop(r))
        tx.out.append('\n')
    parts.extend(tx.out)
    # 6. dispatch tables for the driver
    srcs = [a for a in SRC if ('TPN_%s' % a) in tx.defs]
    parts.append('/-- dispatch tables for the line-protocol driver -/\n')
    parts.append('def tpnParamsTable : List (String × (Stage K → K → M2 K)) :=\n  [' +
                 ', '.join('("%s", TPN_%sparams)' % (p, p) for p in REPS if ('TPN_%sparams' % p) in tx.defs) + ']\n\n')
    parts.append('def tpnSourceTable : List (String × (Stage K → K → K)) :=\n  [' +
                 ', '.join('("%s", TPN_%s)' % (a, a) for a in srcs) + ']\n\n')
    bins = [d for d in ('TPN_Chain', 'TPN_Par2', 'TPN_Ser2', 'TPN_Hybrid2', 'TPN_InverseHybrid2', 'TPN_chain', 'TPN_append',
                        'TPN_prepend', 'TPN_cascade', 'TPN_mul', 'TPN_parallel', 'TPN_series', 'TPN_hybrid', 'TPN_inverse_hybrid')
            if d in tx.defs]
    parts.append('def tpnBinaryTable : List (String × (Stage K → Stage K → K → Stage K)) :=\n  [' +
                 ', '.join('("%s", %s)' % (d[4:], d) for d in bins) + ']\n\n')
    parts.append('def tpnModelTable : List (String × (Stage K → K → Stage K)) :=\n  [' +
                 ', '.join('("%smodel", TPN_%smodel)' % (r, r) for r in MREPS if ('TPN_%smodel' % r) in tx.defs) + ']\n\n')
    parts.append('end Lcapy.Gen\n')
    text = ''.join(parts)
    info = {'defs': tx.defs, 'unparsed': tx.unparsed, 'notes': sorted(set(tx.notes)), 'equations': eqs, 'models': mv}
    return text, info


def main():
    import json
    import sys
    here = os.path.dirname(os.path.abspath(__file__))
    out = os.path.join(here, '..', '..', 'lean', 'Lcapy', 'Generated', 'TwoPortNet.lean')
    text, info = generate(os.environ.get('VERIF_REPO', '/repo'))
    if '--write' in sys.argv:
        old = open(out).read() if os.path.exists(out) else None
        if old != text:
            with open(out, 'w') as f:
                f.write(text)
    json.dump(info, sys.stdout, indent=1, default=str)


if __name__ == '__main__':
    main()
