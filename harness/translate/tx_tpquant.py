"""tx_tpquant: regenerate lean/Lcapy/Generated/QuantitiesTP.lean (property C18, typed results of the
two-port classes and of the transfer-type netlist methods).

EXPECTATION side -- generated from the C08 spec, nothing hand-written per attribute:
  lean/Lcapy/Spec/TwoPort.lean   `Derived.holds`, clause by clause:
                                 `| .d => p.Z = 0 → p.OUT = q * p.IN`   -> derivedPorts (d, OUT, IN, Z)
                                 `equationNames`                         -> entryPorts (rep, ij, lhs_i, rhs_j)
  lean/Lcapy/Props/C08.lean      `theorem X_attr_sound : DerivedSound .X .d (X_attr ...)` -- the proved
                                 statement that the code's attribute `attr` of representation X realises
                                 the port definition d                   -> attrDerived (attr, d)
  rule of dimensional analysis   V/V, I/I -> transfer; V/I -> impedance; I/V -> admittance
                                 (computed here AND re-proved in Lean from Spec/DimTP.lean) -> tpExpect

CODE side -- read from /repo's source text with `ast` (nothing executed):
  lcapy/twoport.py          for each class (TwoPortMixin, TwoPortMatrix, the eight XMatrix, TwoPort) and each
                            attribute: the class its `return` statement wraps the value in, followed through
                            delegations (`self.Vgain12`, `self.Aparams.Z1oc`, `self.params.Z1oc`)
                                                                           -> tpWrap (class, attr, quantity?)
                            docstrings `Return A / B for ...`              -> docPorts (class, attr, A, B)
  lcapy/netlistopsmixin.py  transfer, voltage_gain, current_gain, transimpedance, transadmittance,
                            impedance, admittance: every `return` (the ladder shortcut `ladder.<attr>` and the
                            test-source route `H = admittance(...); return H`) -> netWrap (method, route, quantity?)
                            docstrings `A(s) / B(s)`                       -> netPorts (method, A, B)
Wrapper names are resolved to (domain, quantity) by import-time introspection of lcapy.exprclasses and of the
factory functions' names (`impedance`, `admittance`, `transfer`, `voltage`, `current`); `expr(...)` and anything
not understood yields `none` (no quantity claimed).
"""
import ast
import os
import re
import sys

HERE = os.path.dirname(os.path.abspath(__file__))
VERIF = os.path.dirname(os.path.dirname(HERE))
REPS = ['A', 'B', 'G', 'H', 'S', 'T', 'Y', 'Z']
PV = ['V1', 'I1', 'V2', 'I2', 'a1', 'a2', 'b1', 'b2']
FACTORY = {'impedance': 'impedance', 'admittance': 'admittance', 'transfer': 'transfer',
           'voltage': 'voltage', 'current': 'current'}
NET_METHODS = ['transfer', 'voltage_gain', 'current_gain', 'transimpedance', 'transadmittance',
               'impedance', 'admittance']


def dim_pv(v):
    return (0, 1) if v[0] == 'I' else (1, 0)


def ratio_q(num, den):
    d = (dim_pv(num)[0] - dim_pv(den)[0], dim_pv(num)[1] - dim_pv(den)[1])
    return {(0, 0): 'transfer', (1, -1): 'impedance', (-1, 1): 'admittance'}.get(d)


def spec_tables(unparsed):
    """derivedPorts and entryPorts from the text of Lcapy/Spec/TwoPort.lean"""
    txt = open(os.path.join(VERIF, 'lean', 'Lcapy', 'Spec', 'TwoPort.lean')).read()
    derived = []
    m = re.search(r'inductive Derived where(.*?)deriving', txt, re.S)
    ctors = re.findall(r'\|\s*(\w+)', m.group(1)) if m else []
    body = txt.split('def Derived.holds', 1)[1] if 'def Derived.holds' in txt else ''
    for c in ctors:
        mm = re.search(r'\|\s*\.%s\s*=>\s*p\.(\w+)\s*=\s*0\s*→\s*p\.(\w+)\s*=\s*q\s*\*\s*p\.(\w+)' % c, body)
        if not mm:
            unparsed.append({'item': 'Derived.' + c, 'why': 'clause of Derived.holds not of the form p.Z = 0 → p.OUT = q * p.IN'})
            continue
        z, out, inn = mm.group(1), mm.group(2), mm.group(3)
        if not all(v in PV for v in (z, out, inn)):
            unparsed.append({'item': 'Derived.' + c, 'why': 'unknown port variable'})
            continue
        derived.append((c, out, inn, z))
    entries = []
    for rep, lhs, rhs in re.findall(r'\("(\w)",\s*\[([^\]]*)\],\s*\[([^\]]*)\]\)', txt.split('def equationNames', 1)[-1].split('\n\n')[0]):
        l = [x.strip().strip('"').lstrip('-') for x in lhs.split(',')]
        r = [x.strip().strip('"').lstrip('-') for x in rhs.split(',')]
        if len(l) != 2 or len(r) != 2 or not all(v in PV for v in l + r):
            unparsed.append({'item': 'equationNames.' + rep, 'why': 'shape'})
            continue
        for i in (0, 1):
            for j in (0, 1):
                entries.append((rep, '%d%d' % (i + 1, j + 1), l[i], r[j]))
    return derived, entries


def c08_attr_derived(unparsed):
    """attribute -> Derived from the theorem statements of Props/C08.lean (must agree for all representations)"""
    txt = open(os.path.join(VERIF, 'lean', 'Lcapy', 'Props', 'C08.lean')).read()
    seen = {}
    reps = {}
    for x, attr, x2, d in re.findall(r'theorem (\w)_(\w+)_sound\s*:\s*DerivedSound\s+\.(\w)\s+\.(\w+)', txt):
        if x != x2:
            continue
        reps.setdefault(attr, set()).add(x)
        if attr in seen and seen[attr] != d:
            unparsed.append({'item': 'C08 ' + attr, 'why': 'port definition differs between representations'})
        seen[attr] = d
    return sorted(seen.items()), {a: sorted(r) for a, r in reps.items()}


class Classes:
    def __init__(self, path):
        self.tree = ast.parse(open(path).read())
        self.cls = {}
        self.bases = {}
        for node in self.tree.body:
            if isinstance(node, ast.ClassDef):
                self.cls[node.name] = {f.name: f for f in node.body if isinstance(f, ast.FunctionDef)}
                self.bases[node.name] = [b.id for b in node.bases if isinstance(b, ast.Name)]

    def lookup(self, cname, attr):
        seen = []
        stack = [cname]
        while stack:
            c = stack.pop(0)
            if c in seen:
                continue
            seen.append(c)
            if attr in self.cls.get(c, {}):
                return c, self.cls[c][attr]
            stack.extend(self.bases.get(c, []))
        return None, None


def wrapper_quantity(name, exprcls):
    """(domain, quantity) claimed by calling `name(...)`; None when no quantity is claimed"""
    if name in FACTORY:
        return FACTORY[name]
    cls = exprcls.get(name)
    if cls is not None:
        q = getattr(cls, 'quantity', 'undefined')
        return None if q == 'undefined' else q
    return None


def is_property(f):
    return any(isinstance(d, ast.Name) and d.id == 'property' for d in f.decorator_list)


def returns_of(f):
    env = {}
    rets = []
    for sub in ast.walk(f):
        if isinstance(sub, ast.Assign) and len(sub.targets) == 1 and isinstance(sub.targets[0], ast.Name):
            env.setdefault(sub.targets[0].id, []).append(sub.value)
    for sub in ast.walk(f):
        if isinstance(sub, ast.Return) and sub.value is not None:
            rets.append(sub.value)
    return env, rets


def resolve_tp(C, cname, attr, exprcls, depth=0):
    """quantity the code's return statement of <cname>.<attr> claims (None: none / not understood),
    and a description of the route"""
    if depth > 8:
        return None, 'too-deep'
    owner, f = C.lookup(cname, attr)
    if f is None:
        return None, 'missing'
    if not is_property(f):
        return None, 'bound-method(%s.%s is not a property)' % (owner, attr)
    env, rets = returns_of(f)
    outs = []
    for r in rets:
        outs.append(resolve_expr(C, cname, r, env, exprcls, depth))
    qs = set(o[0] for o in outs)
    if len(qs) == 1:
        return outs[0]
    return None, 'returns-disagree:' + ','.join(sorted(str(q) for q in qs))


def resolve_expr(C, cname, e, env, exprcls, depth):
    if isinstance(e, ast.Name) and e.id in env and len(env[e.id]) == 1:
        return resolve_expr(C, cname, env[e.id][0], {}, exprcls, depth)
    if isinstance(e, ast.Call):
        fn = e.func
        if isinstance(fn, ast.Name):
            q = wrapper_quantity(fn.id, exprcls)
            return q, 'wrap:' + fn.id
        return None, 'call:' + ast.unparse(fn)[:30]
    if isinstance(e, ast.Attribute):
        recv = e.value
        # self.attr
        if isinstance(recv, ast.Name) and recv.id == 'self':
            q, how = resolve_tp(C, cname, e.attr, exprcls, depth + 1)
            return q, 'self.%s>%s' % (e.attr, how)
        # self.Xparams.attr / self.params.attr
        if isinstance(recv, ast.Attribute) and isinstance(recv.value, ast.Name) and recv.value.id == 'self':
            if recv.attr.endswith('params') and len(recv.attr) == 7 and recv.attr[0] in REPS:
                q, how = resolve_tp(C, recv.attr[0] + 'Matrix', e.attr, exprcls, depth + 1)
                return q, '%s.%s>%s' % (recv.attr, e.attr, how)
            if recv.attr == 'params':
                res = set(resolve_tp(C, x + 'Matrix', e.attr, exprcls, depth + 1)[0] for x in REPS)
                if len(res) == 1:
                    return res.pop(), 'params.%s' % e.attr
                return None, 'params.%s:differs-between-representations' % e.attr
        # ladder.attr (netlistopsmixin): a two-port network object
        if isinstance(recv, ast.Name) and recv.id == 'ladder':
            q, how = resolve_tp(C, 'TwoPort', e.attr, exprcls, depth + 1)
            return q, 'ladder.%s>%s' % (e.attr, how)
    return None, 'expr:' + ast.unparse(e)[:30]


def doc_ratio(f, pat):
    doc = ast.get_docstring(f) or ''
    m = re.search(pat, doc)
    if m and m.group(1) in PV and m.group(2) in PV:
        return m.group(1), m.group(2)
    return None


def generate(repo='/repo'):
    unparsed = []
    info = {'unparsed': unparsed}
    if repo != '/repo' and repo not in sys.path:
        sys.path.insert(0, repo)
    import warnings
    warnings.filterwarnings('ignore')
    import importlib
    em = importlib.import_module('lcapy.exprclasses')
    exprcls = {n: getattr(em, n) for n in dir(em) if isinstance(getattr(em, n), type) and hasattr(getattr(em, n), 'quantity')}

    derived, entries = spec_tables(unparsed)
    attr_derived, attr_reps = c08_attr_derived(unparsed)
    dports = {d: (o, i, z) for d, o, i, z in derived}
    expect = []
    for attr, d in attr_derived:
        if d not in dports:
            unparsed.append({'item': 'attr ' + attr, 'why': 'Derived.%s has no clause' % d})
            continue
        o, i, _ = dports[d]
        q = ratio_q(o, i)
        if q is None:
            unparsed.append({'item': 'attr ' + attr, 'why': 'ratio %s/%s is no quantity' % (o, i)})
            continue
        expect.append((attr, o, i, q))

    C = Classes(os.path.join(repo, 'lcapy', 'twoport.py'))
    tp_classes = ['TwoPortMixin', 'TwoPortMatrix'] + [x + 'Matrix' for x in REPS] + ['TwoPort']
    # docstrings "Return A / B for ..." anywhere in those classes
    docports = []
    for cname in tp_classes:
        for attr, f in sorted(C.cls.get(cname, {}).items()):
            r = doc_ratio(f, r'Return\s+([VI][12])\s*/\s*([VI][12])\b')
            if r:
                docports.append((cname, attr, r[0], r[1]))
    # attributes to resolve: those of the C08 table + every attribute documented as a ratio
    attrs = [a for a, _, _, _ in expect]
    for _, a, _, _ in docports:
        if a not in attrs:
            attrs.append(a)
    wraps = []
    for cname in tp_classes[1:]:
        for a in attrs:
            owner, f = C.lookup(cname, a)
            if f is None:
                continue
            if not is_property(f):
                continue        # a method (Ztrans12), not an attribute
            q, how = resolve_tp(C, cname, a, exprcls)
            wraps.append((cname, a, q, how))

    # netlist methods
    N = Classes(os.path.join(repo, 'lcapy', 'netlistopsmixin.py'))
    netports, netwraps = [], []
    for mname in NET_METHODS:
        owner, f = N.lookup('NetlistOpsMixin', mname)
        if f is None:
            unparsed.append({'item': 'NetlistOpsMixin.' + mname, 'why': 'missing'})
            continue
        r = doc_ratio(f, r'([VI][12])\(s\)\s*/\s*([VI][12])\(s\)')
        if r:
            netports.append((mname, r[0], r[1]))
        env, rets = returns_of(f)
        for k, e in enumerate(rets):
            q, how = resolve_expr(C, 'TwoPort', e, env, exprcls, 0)
            route = 'ladder' if how.startswith('ladder.') else 'test-source'
            netwraps.append((mname, route, q, how))

    info.update({'derived': derived, 'entries': entries, 'attr_derived': attr_derived, 'attr_reps': attr_reps,
                 'expect': expect, 'docports': docports, 'wraps': wraps, 'netports': netports, 'netwraps': netwraps,
                 'attrs': attrs, 'tp_classes': tp_classes})

    def lq(q):
        return 'none' if q is None else 'some .%s' % q

    out = []
    w = out.append
    w('/- GENERATED by harness/translate/tx_tpquant.py from lean/Lcapy/Spec/TwoPort.lean, lean/Lcapy/Props/C08.lean (expectation)')
    w('   and /repo/lcapy/twoport.py, netlistopsmixin.py (code) -- do not edit.  Rewritten on every run of ./vcheck C18. -/')
    w('import Lcapy.Spec.DimTP')
    w('namespace Lcapy.Gen.QTP')
    w('open Lcapy.Dim Lcapy.DimTP Lcapy.Spec')
    w('')
    w('/-- Spec/TwoPort.lean `Derived.holds`, clause by clause: (d, OUT, IN, Z) for `p.Z = 0 → p.OUT = q * p.IN` -/')
    w('def derivedPorts : List (Derived × PortVar × PortVar × PortVar) := [')
    w(',\n'.join('  (.%s, .%s, .%s, .%s)' % r for r in derived))
    w(']')
    w('')
    w('/-- Spec/TwoPort.lean `equationNames`: element ij of representation X relates lhs_i to rhs_j -/')
    w('def entryPorts : List (String × String × PortVar × PortVar) := [')
    w(',\n'.join('  ("%s", "%s", .%s, .%s)' % r for r in entries))
    w(']')
    w('')
    w('/-- Props/C08.lean `X_attr_sound : DerivedSound .X .d ...` (same d for every representation X) -/')
    w('def attrDerived : List (String × Derived) := [')
    w(',\n'.join('  ("%s", .%s)' % r for r in attr_derived))
    w(']')
    w('')
    w('/-- THE EXPECTATION TABLE: attribute, numerator, denominator, expected quantity -/')
    w('def tpExpect : List (String × PortVar × PortVar × Quantity) := [')
    w(',\n'.join('  ("%s", .%s, .%s, .%s)' % r for r in expect))
    w(']')
    w('')
    w('/-- twoport.py docstrings `Return A / B for ...`: (class, attribute, A, B) -/')
    w('def docPorts : List (String × String × PortVar × PortVar) := [')
    w(',\n'.join('  ("%s", "%s", .%s, .%s)' % r for r in docports))
    w(']')
    w('')
    w('/-- twoport.py: quantity of the class the return statement of <class>.<attribute> wraps its value in,')
    w('    followed through delegations; `none` = no quantity claimed (`expr(...)`, a bare matrix element, ...) -/')
    w('def tpWrap : List (String × String × Option Quantity) := [')
    w('\n'.join('  ("%s", "%s", %s)%s  -- %s' % (c, a, lq(q), ',' if k + 1 < len(wraps) else '', how)
                for k, (c, a, q, how) in enumerate(wraps)))
    w(']')
    w('')
    w('/-- netlistopsmixin.py docstrings `A(s) / B(s)`: (method, A, B) -/')
    w('def netPorts : List (String × PortVar × PortVar) := [')
    w(',\n'.join('  ("%s", .%s, .%s)' % r for r in netports))
    w(']')
    w('')
    w('/-- netlistopsmixin.py: every return of the transfer-type methods: (method, route, quantity claimed) -/')
    w('def netWrap : List (String × String × Option Quantity) := [')
    w('\n'.join('  ("%s", "%s", %s)%s  -- %s' % (m, r, lq(q), ',' if k + 1 < len(netwraps) else '', how)
                for k, (m, r, q, how) in enumerate(netwraps)))
    w(']')
    w('')
    w('end Lcapy.Gen.QTP')
    return '\n'.join(out) + '\n', info


if __name__ == '__main__':
    text, info = generate(sys.argv[1] if len(sys.argv) > 1 else '/repo')
    sys.stdout.write(text)
    sys.stderr.write('unparsed: %s\n' % info['unparsed'])
