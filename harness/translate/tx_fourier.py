"""tx_fourier: regenerate lean/Lcapy/Generated/FourierTable.lean from /repo/lcapy's source text.

Reads (Python `ast`, nothing of the modelled logic is executed):

* lcapy/fourier.py `FourierTransformer.term`: the if/elif chain of table entries under
  `if other != 1 and exps == 1:`.  For every branch whose test is a known literal pattern the
  `return` expression is normalised (SymPy is used only as an algebra normaliser of that one
  expression, with `f` and `sf` as two independent symbols) into a sum of
  `coefficient * atom(scale * f-or-sf)`; the per-entry choice of `sf` versus raw `f` is kept.
  Entries are emitted in source order (dispatch is first-match).
* the two parametrised entries (`exp(c1 t + c0) u(t)` and `1/(c1 t + c0)`): which of `sf`/`f`
  the return expression uses, after checking that it has the expected closed form.
* the similarity and shift-phase statements of `term`, read structurally (exponents of `scale`/`shift`, `sf` vs `f`);
* fingerprints of the remaining theorem-application statements (modulation, sign choice, constant).
* lcapy/fexpr.py, omegaexpr.py, normfexpr.py, normomegaexpr.py: the substitution each conversion
  method performs (`self.subs(<monomial in 2, pi, dt> * <variable>)`), as exponent vectors.

Anything not understood is listed in `unparsed` and not emitted (the Lean obligations that need it
then fail or the model answers `unmodelled`, and the check falls back on the correspondence).
"""
import ast
import os
from fractions import Fraction

PATTERNS = {
    'other == t': 'pw 1',
    'other == t ** 2': 'pw 2',
    'other == abs(t)': 'absx',
    'other == sign(t)': 'sgn',
    'other == sign(t) * t': 'absx',
    'other == Heaviside(t)': 'step',
    'other == 1 / t': 'inv1',
    'other == 1 / t ** 2': 'inv2',
    'other.is_Function and other.func == Heaviside and (other.args[0] == t)': 'step',
    'other == Heaviside(t) * t': 'ramp',
    'other.is_Function and other.func == sincn and (other.args[0] == t)': 'sinc',
    'other.is_Function and other.func == sincu and (other.args[0] == t)': 'sincu',
    'other.is_Pow and other.args[1] == 2 and other.args[0].is_Function and (other.args[0].func == sincn) and (other.args[0].args[0] == t)': 'sinc2',
    'other.is_Function and other.func == rect and (other.args[0] == t)': 'rect',
    'other.is_Function and other.func == tri and (other.args[0] == t)': 'tri',
}
# branches that are recognised but deliberately outside the modelled class
TOVERLIN_TEST = 'other.is_Mul and len(other.args) == 2 and (other.args[0] == t) and other.args[1].is_Pow and (other.args[1].args[1] == -1)'
TRAP_TEST = 'other.is_Function and other.func == trap and (other.args[0] == t)'
OUTSIDE = ['False and other == exp(t)', 'func == tanh', 'other.args[0] == t and other.args[1].is_Pow',
           'len(other.args) == 2 and (other.args[0] == t) and other.args[1].is_Function']
EXPU_TEST_MARK = 'other.args[1].func == exp'
CPOLE_TEST = 'other.is_Pow and other.args[1] == -1 and other.args[0].has(t)'

FINGERPRINTS = {
    'sign_choice_sf': 'sf = -f if self.is_inverse else f',
    'sign_choice_st': 'st = -t if self.is_inverse else t',
    'constant': 'return expr * DiracDelta(f) * const',
    'mod_foo': 'foo = args / st',
    'mod_delta': 'return const1 * DiracDelta(f - foo / (I * 2 * pi))',
    'mod_subs': 'return const1 * Q.subs(f, f - foo / (I * 2 * pi))',
}

DOMS = {'fexpr.py': ('f', 'FourierDomainExpression'), 'omegaexpr.py': ('omega', 'AngularFourierDomainExpression'),
        'normfexpr.py': ('F', 'NormFourierDomainExpression'), 'normomegaexpr.py': ('Omega', 'NormAngularFourierDomainExpression')}
METHODS = {'fourier': 'f', 'angular_fourier': 'omega', 'norm_fourier': 'F', 'norm_angular_fourier': 'Omega', 'inverse_fourier': 'time'}
VARNAMES = {'f': 'f', 'fsym': 'f', 'omega': 'omega', 'omegasym': 'omega', 'F': 'F', 'Fsym': 'F', 'Omega': 'Omega', 'Omegasym': 'Omega'}


class Unparsed(Exception):
    pass


def _sympy_env():
    import sympy as S
    f = S.Symbol('f', real=True)
    sf = S.Symbol('sf', real=True)
    env = {'I': S.I, 'pi': S.pi, 'f': f, 'sf': sf, 'const1': S.Integer(1), 'const': S.Integer(1),
           'DiracDelta': S.Function('DD'), 'sign': S.Function('SGN'), 'Heaviside': S.Function('HS'),
           'rect': S.Function('RECT'), 'tri': S.Function('TRI'), 'sincn': S.Function('SINC'), 'exp': S.exp}
    return S, f, sf, env


def _split_pi(c, S):
    """c = (re + j im) * pi**m with rational re, im"""
    for m in range(-6, 7):
        q = S.nsimplify(S.simplify(c / S.pi ** m))
        if not q.has(S.pi):
            re, im = q.as_real_imag()
            if re.is_Rational and im.is_Rational:
                return Fraction(int(re.p), int(re.q)), Fraction(int(im.p), int(im.q)), m
    raise Unparsed('coefficient %s' % c)


def _var_scale(arg, f, sf, S):
    """arg = scale * (f | sf), scale = q * pi**m"""
    for (v, use_sf) in ((sf, True), (f, False)):
        if arg.has(v):
            other = f if use_sf else sf
            if arg.has(other):
                raise Unparsed('argument mixes f and sf: %s' % arg)
            sc = S.simplify(arg / v)
            if sc.has(v):
                raise Unparsed('argument not linear homogeneous: %s' % arg)
            re, im, m = _split_pi(sc, S)
            if im != 0:
                raise Unparsed('complex argument scale %s' % arg)
            return use_sf, re, m
    raise Unparsed('argument without variable: %s' % arg)


def normalise_return(text):
    """-> list of gterms dict(re, im, pipow, kind, use_sf, scale, scale_pipow)"""
    S, f, sf, env = _sympy_env()
    e = S.expand(eval(compile(ast.parse(text, mode='eval'), '<ret>', 'eval'), {'__builtins__': {}}, env))
    out = []
    for term in S.Add.make_args(e):
        coeff = S.Integer(1)
        pf = 0      # power of f
        psf = 0     # power of sf
        atoms = []
        for fac in S.Mul.make_args(term):
            base, ex = fac.as_base_exp()
            if not fac.has(f) and not fac.has(sf):
                coeff *= fac
            elif base == f and ex.is_Integer:
                pf += int(ex)
            elif base == sf and ex.is_Integer:
                psf += int(ex)
            elif base.is_Function and ex.is_Integer and int(ex) > 0:
                atoms.append((base, int(ex)))
            else:
                raise Unparsed('factor %s' % fac)
        if pf and psf:
            raise Unparsed('term mixes f and sf powers: %s' % term)
        p = pf + psf
        use_sf_pow = psf != 0
        if not atoms:
            if p == -1:
                kind = 'inv1'
            elif p == -2:
                kind = 'inv2'
            elif p == 0:
                kind = 'one'
            else:
                raise Unparsed('power %d' % p)
            re, im, m = _split_pi(coeff, S)
            out.append(dict(re=re, im=im, pipow=m, kind=kind, use_sf=use_sf_pow if p else True, scale=Fraction(1), scale_pipow=0))
            continue
        if len(atoms) != 1:
            raise Unparsed('product of atoms: %s' % term)
        (fn, ex) = atoms[0]
        name = fn.func.__name__
        use_sf, sc, scm = _var_scale(fn.args[0], f, sf, S)
        if name == 'DD':
            n = int(fn.args[1]) if len(fn.args) > 1 else 0
            if p != 0 or ex != 1:
                raise Unparsed('delta with power factor')
            kind = 'delta %d' % n
        elif name == 'SGN':
            if ex != 1:
                raise Unparsed('sign power')
            if p == 0:
                kind = 'sgn'
            elif p == 1 and use_sf_pow == use_sf and sc == 1 and scm == 0:
                kind = 'absx'          # v * sign(v) = |v|
            else:
                raise Unparsed('sign with power %d' % p)
        elif name == 'HS' and p == 0 and ex == 1:
            kind = 'step'
        elif name == 'RECT' and p == 0 and ex == 1:
            kind = 'rect'
        elif name == 'TRI' and p == 0 and ex == 1:
            kind = 'tri'
        elif name == 'SINC' and p == 0 and ex in (1, 2):
            kind = 'sinc' if ex == 1 else 'sinc2'
        else:
            raise Unparsed('atom %s' % term)
        re, im, m = _split_pi(coeff, S)
        out.append(dict(re=re, im=im, pipow=m, kind=kind, use_sf=use_sf, scale=sc, scale_pipow=scm))
    return out


def _chain(term_fn):
    for st in term_fn.body:
        if isinstance(st, ast.If) and ast.unparse(st.test) == 'other != 1 and exps == 1':
            node = st.body[0]
            while isinstance(node, ast.If):
                yield node
                if len(node.orelse) == 1 and isinstance(node.orelse[0], ast.If):
                    node = node.orelse[0]
                else:
                    break
            return
    raise Unparsed('table block `if other != 1 and exps == 1` not found')


def _param_entry(ret_text, expected_builder):
    """which variable (sf / f) a parametrised entry uses; None when the closed form is not the expected one"""
    import sympy as S
    f = S.Symbol('f', real=True)
    sf = S.Symbol('sf', real=True)
    c0, c1 = S.symbols('c0 c1')
    env = {'I': S.I, 'pi': S.pi, 'f': f, 'sf': sf, 'const1': S.Integer(1), 'const': S.Integer(1), 'exp': S.exp,
           'Heaviside': S.Function('HS'), 'sign': S.Function('SGN'), 'c0': c0, 'c1': c1, 's': 2 * S.pi * S.I / c1}
    got = eval(compile(ast.parse(ret_text, mode='eval'), '<ret>', 'eval'), {'__builtins__': {}}, env)
    for (v, use_sf) in ((sf, True), (f, False)):
        if S.simplify(got - expected_builder(S, v, c0, c1, env)) == 0:
            return use_sf
    return None


def _trap_entry(br):
    """the `trap(t, alpha)` branch:   alpha = other.args[1];  [if alpha == 0: return const1 * sincn(f)];
    return <alpha**p * const1 * sincn(v) * sincn(alpha * v)>   ->  (p, has the alpha == 0 special case)"""
    import sympy as S
    f = S.Symbol('f', real=True)
    sf = S.Symbol('sf', real=True)
    alpha = S.Symbol('alpha', positive=True)
    SINC = S.Function('SINC')
    env = {'I': S.I, 'pi': S.pi, 'f': f, 'sf': sf, 'const1': S.Integer(1), 'const': S.Integer(1), 'sincn': SINC, 'alpha': alpha}
    asg = [ast.unparse(x) for x in br.body if isinstance(x, ast.Assign)]
    if 'alpha = other.args[1]' not in asg:
        raise Unparsed('`alpha = other.args[1]` not found')
    zero_rect = False
    for x in br.body:
        if isinstance(x, ast.If) and ast.unparse(x.test) == 'alpha == 0':
            r0 = [ast.unparse(y.value) for y in x.body if isinstance(y, ast.Return)]
            if len(r0) == 1:
                e0 = eval(compile(ast.parse(r0[0], mode='eval'), '<ret>', 'eval'), {'__builtins__': {}}, env)
                zero_rect = any(S.simplify(e0 - SINC(v)) == 0 for v in (f, sf))
    rets = [x for x in br.body if isinstance(x, ast.Return)]
    if len(rets) != 1:
        raise Unparsed('%d top-level returns' % len(rets))
    e = eval(compile(ast.parse(ast.unparse(rets[0].value), mode='eval'), '<ret>', 'eval'), {'__builtins__': {}}, env)
    for v in (f, sf):
        q = S.simplify(e / (SINC(v) * SINC(alpha * v)))
        if not q.has(SINC) and not q.has(v):
            for p in range(-3, 4):
                if S.simplify(q - alpha ** p) == 0:
                    return p, zero_rect
    raise Unparsed('unexpected closed form `%s`' % ast.unparse(rets[0].value))


def parse_table(repo):
    src = open(os.path.join(repo, 'lcapy', 'fourier.py')).read()
    tree = ast.parse(src)
    term_fn = None
    for node in ast.walk(tree):
        if isinstance(node, ast.ClassDef) and node.name == 'FourierTransformer':
            for fn in node.body:
                if isinstance(fn, ast.FunctionDef) and fn.name == 'term':
                    term_fn = fn
    info = {'entries': [], 'unparsed': [], 'outside': [], 't_over_linear_delegates': False, 'trap_alpha_pow': None, 'trap_zero_is_rect': False, 'expu_uses_sf': None, 'cpole_uses_sf': None, 'cpole_three_way': False, 'fingerprints': {}}
    if term_fn is None:
        info['unparsed'].append('FourierTransformer.term not found')
        return info
    try:
        branches = list(_chain(term_fn))
    except Unparsed as e:
        info['unparsed'].append(str(e))
        branches = []
    for br in branches:
        test = ast.unparse(br.test)
        rets = [s for s in br.body if isinstance(s, ast.Return)]
        if test in PATTERNS:
            if len(rets) != 1:
                info['unparsed'].append('entry `%s`: %d returns' % (test[:60], len(rets)))
                continue
            ret = ast.unparse(rets[0].value)
            try:
                terms = normalise_return(ret)
            except Unparsed as e:
                info['unparsed'].append('entry `%s`: %s' % (test[:60], e))
                continue
            except Exception as e:   # noqa
                info['unparsed'].append('entry `%s`: %s: %s' % (test[:60], type(e).__name__, e))
                continue
            info['entries'].append({'kind': PATTERNS[test], 'test': test, 'ret': ret, 'line': br.lineno, 'terms': terms})
        elif EXPU_TEST_MARK in test and rets:
            try:
                info['expu_uses_sf'] = _param_entry(ast.unparse(rets[0].value),
                                                    lambda S, v, c0, c1, env: S.exp(c0) / (S.I * 2 * S.pi * v - c1))
            except Exception as e:   # noqa
                info['unparsed'].append('expu entry: %s' % e)
            if info['expu_uses_sf'] is None:
                info['unparsed'].append('expu entry: unexpected closed form `%s`' % ast.unparse(rets[0].value))
        elif test == CPOLE_TEST:
            inner = [s for s in br.body if isinstance(s, ast.If)]
            ret = None
            if inner:
                for s in inner[0].body:
                    if isinstance(s, ast.Return):
                        ret = ast.unparse(s.value)
                asg = [ast.unparse(s) for s in inner[0].body if isinstance(s, ast.Assign)]
                if 's = 2 * pi * I / c1' not in asg:
                    ret = None
            # optional three-way form (after the half-plane fix):
            #   pole_imag = im(symsimplify(-c0 / c1)); if pole_imag.is_negative: return -s*exp(c0*v*s)*Heaviside(v)
            #   if pole_imag.is_zero: return -s/2*exp(c0*v*s)*sign(v);  return s*exp(c0*v*s)*Heaviside(-v)
            info['cpole_three_way'] = False
            if inner:
                sub = [x for x in inner[0].body if isinstance(x, ast.If)]
                if sub:
                    tests = [ast.unparse(x.test) for x in sub]
                    rets2 = [ast.unparse(x.body[0].value) if len(x.body) == 1 and isinstance(x.body[0], ast.Return) else None for x in sub]
                    ok3 = (tests == ['pole_imag.is_negative', 'pole_imag.is_zero'] and None not in rets2
                           and 'pole_imag = im(symsimplify(-c0 / c1))' in asg and all(not x.orelse for x in sub))
                    if ok3:
                        try:
                            u1 = _param_entry(rets2[0], lambda S, v, c0, c1, env: -env['s'] * S.exp(c0 * v * env['s']) * env['Heaviside'](v))
                            u2 = _param_entry(rets2[1], lambda S, v, c0, c1, env: -env['s'] / 2 * S.exp(c0 * v * env['s']) * env['sign'](v))
                            u0 = _param_entry(ret, lambda S, v, c0, c1, env: env['s'] * S.exp(c0 * v * env['s']) * env['Heaviside'](-v)) if ret else None
                            ok3 = u0 is not None and u1 == u0 and u2 == u0
                        except Exception:   # noqa
                            ok3 = False
                    if ok3:
                        info['cpole_three_way'] = True
                    else:
                        ret = None
                        info['unparsed'].append('cpole entry: nested branches not recognised')
            if ret is None:
                if not any('cpole entry' in u for u in info['unparsed']):
                    info['unparsed'].append('cpole entry: shape not recognised')
            else:
                try:
                    info['cpole_uses_sf'] = _param_entry(
                        ret, lambda S, v, c0, c1, env: env['s'] * S.exp(c0 * v * env['s']) * env['Heaviside'](-v))
                except Exception as e:   # noqa
                    info['unparsed'].append('cpole entry: %s' % e)
                if info['cpole_uses_sf'] is None:
                    info['unparsed'].append('cpole entry: unexpected closed form `%s`' % ret)
        elif test == TRAP_TEST:
            try:
                info['trap_alpha_pow'], info['trap_zero_is_rect'] = _trap_entry(br)
            except Unparsed as e:
                info['unparsed'].append('trap entry: %s' % e)
            except Exception as e:   # noqa
                info['unparsed'].append('trap entry: %s: %s' % (type(e).__name__, e))
        elif test.startswith(TOVERLIN_TEST):
            # t / (c1 t + c0): delegated to the constant and the 1/(c1 t + c0) branches (after fix C12-F12j)
            rets = [ast.unparse(x.value) for x in br.body if isinstance(x, ast.Return)]
            asg = [ast.unparse(x) for x in br.body if isinstance(x, ast.Assign)]
            info['t_over_linear_delegates'] = (rets == ['const1 * (self.term(1 / c1, t, f) - c0 / c1 * self.term(1 / foo, t, f))']
                                               and 'c0 = foo.coeff(t, 0)' in asg and 'c1 = foo.coeff(t, 1)' in asg
                                               and 'foo = other.args[1].args[0]' in asg)
            if not info['t_over_linear_delegates']:
                info['unparsed'].append('t/(c1 t + c0) entry: body not recognised')
        elif any(m in test for m in OUTSIDE):
            info['outside'].append(test[:70])
        else:
            info['unparsed'].append('unknown table branch `%s`' % test[:90])
    # the similarity / shift statements are read structurally:
    #   result = self.term(expr2, t, f * scale**se) / abs(scale)**re        (theorem: se = -1, re = 1)
    #   result *= exp(I * 2 * pi * v * scale**pe * shift**qe)               (theorem: v = sf, pe = -1, qe = 1)
    info['similarity'] = None
    info['shift_phase'] = None
    try:
        import sympy as S
        fS, sfS = S.Symbol('f', real=True), S.Symbol('sf', real=True)
        sc, sh_ = S.Symbol('scale', positive=True), S.Symbol('shift', positive=True)
        env = {'I': S.I, 'pi': S.pi, 'f': fS, 'sf': sfS, 'scale': sc, 'shift': sh_, 'exp': S.exp, 'abs': S.Abs}

        def ev(node):
            return eval(compile(ast.Expression(node), '<sim>', 'eval'), {'__builtins__': {}}, env)

        def expo(e, sym):
            return int(S.degree(S.numer(S.together(e)), sym)) - int(S.degree(S.denom(S.together(e)), sym))
        for node in ast.walk(term_fn):
            if isinstance(node, ast.Assign) and len(node.targets) == 1 and ast.unparse(node.targets[0]) == 'result' \
                    and isinstance(node.value, ast.BinOp) and isinstance(node.value.op, ast.Div) \
                    and isinstance(node.value.left, ast.Call) and ast.unparse(node.value.left.func) == 'self.term' \
                    and len(node.value.left.args) == 3 and ast.unparse(node.value.left.args[0]) == 'expr2':
                arg = ev(node.value.left.args[2])
                div = ev(node.value.right)
                q = S.simplify(arg / fS)
                if q.has(fS) or q.has(sfS) or q.has(sh_) or S.simplify(q / sc ** expo(q, sc)) != 1:
                    raise Unparsed('similarity argument `%s`' % ast.unparse(node.value.left.args[2]))
                if S.simplify(div / sc ** expo(div, sc)) != 1:
                    raise Unparsed('similarity divisor `%s`' % ast.unparse(node.value.right))
                info['similarity'] = (expo(q, sc), expo(div, sc))
            if isinstance(node, ast.AugAssign) and isinstance(node.op, ast.Mult) and ast.unparse(node.target) == 'result' \
                    and isinstance(node.value, ast.Call) and ast.unparse(node.value.func) == 'exp' and len(node.value.args) == 1:
                a = ev(node.value.args[0])
                for (v, use_sf) in ((sfS, True), (fS, False)):
                    if a.has(v):
                        q = S.simplify(a / (S.I * 2 * S.pi * v))
                        if q.has(fS) or q.has(sfS):
                            raise Unparsed('shift phase `%s`' % ast.unparse(node.value.args[0]))
                        pe, qe = expo(q, sc), expo(q, sh_)
                        if S.simplify(q / (sc ** pe * sh_ ** qe)) != 1:
                            raise Unparsed('shift phase `%s`' % ast.unparse(node.value.args[0]))
                        info['shift_phase'] = (use_sf, pe, qe)
                        break
        if info['similarity'] is None:
            info['unparsed'].append('similarity statement `result = self.term(expr2, t, ...) / ...` not found')
        if info['shift_phase'] is None:
            info['unparsed'].append('shift phase statement `result *= exp(...)` not found')
    except Unparsed as e:
        info['unparsed'].append(str(e))
    except Exception as e:   # noqa
        info['unparsed'].append('similarity/shift statements: %s: %s' % (type(e).__name__, e))
    # fingerprints of the remaining theorem-application code
    stmts = set()
    for node in ast.walk(term_fn):
        if isinstance(node, ast.stmt) and not isinstance(node, (ast.If, ast.For, ast.FunctionDef)):
            stmts.add(ast.unparse(node))
    for k, text in FINGERPRINTS.items():
        info['fingerprints'][k] = text in stmts
        if text not in stmts:
            info['unparsed'].append('fingerprint %s: statement `%s` not found' % (k, text))
    return info


def _monomial(node, target):
    """exponent vector (e2, epi, edt) and the variable of a product/quotient AST"""
    if isinstance(node, ast.BinOp) and isinstance(node.op, (ast.Mult, ast.Div)):
        a, va = _monomial(node.left, target)
        b, vb = _monomial(node.right, target)
        if isinstance(node.op, ast.Mult):
            if va and vb:
                raise Unparsed('two variables')
            return tuple(x + y for x, y in zip(a, b)), va or vb
        if vb:
            raise Unparsed('variable in denominator')
        return tuple(x - y for x, y in zip(a, b)), va
    if isinstance(node, ast.Constant) and node.value == 2:
        return (1, 0, 0), None
    if isinstance(node, ast.Constant) and node.value == 1:
        return (0, 0, 0), None
    if isinstance(node, ast.Name):
        if node.id == 'pi':
            return (0, 1, 0), None
        if node.id == 'dt':
            return (0, 0, 1), None
        if node.id in VARNAMES:
            return (0, 0, 0), VARNAMES[node.id]
    raise Unparsed('not a monomial: %s' % ast.unparse(node))


def parse_conversions(repo):
    conv = []
    unparsed = []
    for fname, (dom, cname) in DOMS.items():
        src = open(os.path.join(repo, 'lcapy', fname)).read()
        tree = ast.parse(src)
        cls = [n for n in tree.body if isinstance(n, ast.ClassDef) and n.name == cname]
        if not cls:
            unparsed.append('%s: class %s not found' % (fname, cname))
            continue
        fns = {f.name: f for f in cls[0].body if isinstance(f, ast.FunctionDef)}
        for meth, target in METHODS.items():
            fn = fns.get(meth)
            if fn is None:
                if target == dom:
                    conv.append((dom, target, (0, 0, 0), True))     # inherited identity
                else:
                    unparsed.append('%s.%s missing' % (cname, meth))
                continue
            want_var = 'f' if target == 'time' else target
            found = None
            for node in ast.walk(fn):
                if isinstance(node, ast.Call) and isinstance(node.func, ast.Attribute) and node.func.attr == 'subs' \
                        and isinstance(node.func.value, ast.Name) and node.func.value.id == 'self' and len(node.args) == 1:
                    found = node.args[0]
                    break
            if found is None:
                rets = [ast.unparse(s.value) for s in ast.walk(fn) if isinstance(s, ast.Return) and s.value is not None]
                if target == 'time' and dom == 'f' and any('inverse_fourier_transform' in ast.unparse(s) for s in ast.walk(fn) if isinstance(s, ast.Assign)):
                    conv.append((dom, target, (0, 0, 0), False))
                elif rets == ['self']:
                    conv.append((dom, target, (0, 0, 0), True))
                else:
                    unparsed.append('%s.%s: no self.subs(...)' % (cname, meth))
                continue
            try:
                e, v = _monomial(found, want_var)
                if v != want_var:
                    raise Unparsed('substitutes variable %s, expected %s' % (v, want_var))
                conv.append((dom, target, e, False))
            except Unparsed as ex:
                unparsed.append('%s.%s: %s' % (cname, meth, ex))
    return conv, unparsed


def _rat(fr):
    fr = Fraction(fr)
    return '(%d : Rat)' % fr.numerator if fr.denominator == 1 else '((%d : Rat) / %d)' % (fr.numerator, fr.denominator)


def _kind(k):
    return '.' + k if ' ' not in k else '(.%s)' % k


def generate(repo):
    info = parse_table(repo)
    conv, cunp = parse_conversions(repo)
    info['conversions'] = conv
    info['unparsed'] += cunp
    L = []
    L.append('/- GENERATED by harness/translate/tx_fourier.py from lcapy/fourier.py, fexpr.py, omegaexpr.py, normfexpr.py,')
    L.append('   normomegaexpr.py -- do not edit.  One `GEntry` per recognised table branch of `FourierTransformer.term`,')
    L.append('   in source (= dispatch) order; `useSf` records whether the code wrote `sf` (sign-flipped for the inverse')
    L.append('   transform) or the raw conjugate variable `f` in that sub-expression. -/')
    L.append('import Lcapy.Spec.Fourier')
    L.append('namespace Lcapy.Fourier.Gen')
    L.append('open Lcapy.Fourier')
    L.append('')
    L.append('def table : List GEntry := [')
    rows = []
    for e in info['entries']:
        ts = []
        for g in e['terms']:
            den = (Fraction(g['re']).denominator * Fraction(g['im']).denominator)
            import math
            den = Fraction(g['re']).denominator * Fraction(g['im']).denominator // math.gcd(Fraction(g['re']).denominator, Fraction(g['im']).denominator)
            ren = int(g['re'] * den)
            imn = int(g['im'] * den)
            sc = Fraction(g['scale'])
            ts.append('⟨%d, %d, %d, %d, %s, %s, %d, %d, %d⟩' % (ren, imn, den, g['pipow'], _kind(g['kind']),
                                                               'true' if g['use_sf'] else 'false', sc.numerator, sc.denominator, g['scale_pipow']))
        rows.append('  -- line %d: %s\n  --   return %s\n  ⟨%s, %s, [%s]⟩' % (e['line'], e['test'][:100], e['ret'][:120],
                                                                              _kind(e['kind']), '"%s"' % e['test'][:60].replace('"', "'"), ', '.join(ts)))
    L.append(',\n'.join(rows))
    L.append(']')
    L.append('')

    def optb(x):
        return 'none' if x is None else ('some true' if x else 'some false')
    L.append('/-- `exp(c1 t + c0) u(t)` entry returns exp(c0)/(j2π·v − c1) with v = sf (some true) / f (some false); none: not recognised -/')
    L.append('def expuUsesSf : Option Bool := %s' % optb(info['expu_uses_sf']))
    L.append('/-- `1/(c1 t + c0)` entry returns s·exp(c0·v·s)·u(−v), s = 2πj/c1, with v = sf / f -/')
    L.append('def cpoleUsesSf : Option Bool := %s' % optb(info['cpole_uses_sf']))
    L.append('/-- the `1/(c1 t + c0)` entry distinguishes the half plane of the pole (and takes the principal value for a real pole) -/')
    L.append('def cpoleThreeWay : Bool := %s' % ('true' if info.get('cpole_three_way') else 'false'))
    L.append('/-- the `trap(t, alpha)` entry returns alpha^p·sincn(v)·sincn(alpha v): the exponent p (the pair of the unit-area trapezoid is p = 0); none: not recognised -/')
    L.append('def trapAlphaPow : Option Int := %s' % ('none' if info.get('trap_alpha_pow') is None else 'some (%d)' % info['trap_alpha_pow']))
    L.append('/-- … and has the special case `alpha == 0` ↦ sincn (rect) -/')
    L.append('def trapZeroIsRect : Bool := %s' % ('true' if info.get('trap_zero_is_rect') else 'false'))
    L.append('/-- the `t/(c1 t + c0)` branch returns `term(1/c1) - c0/c1·term(1/(c1 t + c0))` (delegates to the constant and pole branches) -/')
    L.append('def tOverLinearDelegates : Bool := %s' % ('true' if info.get('t_over_linear_delegates') else 'false'))
    sim = info.get('similarity')
    shp = info.get('shift_phase')
    L.append('/-- `result = self.term(expr2, t, f * scale^se) / abs(scale)^re`: (se, re); the similarity theorem is (-1, 1) -/')
    L.append('def similarity : Option (Int × Int) := %s' % ('none' if sim is None else 'some (%d, %d)' % sim))
    L.append('/-- `result *= exp(I*2*pi * v * scale^pe * shift^qe)`: (v is sf, pe, qe); the shift theorem is (true, -1, 1) -/')
    L.append('def shiftPhase : Option (Bool × Int × Int) := %s' % ('none' if shp is None else 'some (%s, %d, %d)' % ('true' if shp[0] else 'false', shp[1], shp[2])))
    L.append('/-- the remaining theorem-application statements of `term` (sign choice, constant, modulation) have the modelled text -/')
    L.append('def theoremCodeAsModelled : Bool := %s' % ('true' if all(info['fingerprints'].values()) and info['fingerprints'] else 'false'))
    L.append('')
    L.append('/-- (from, to, exponents of 2, π, Δt in `self.subs(2^a π^b Δt^c · v_to)`, returnsSelf) -/')
    L.append('def conversions : List GConv := [')
    L.append(',\n'.join('  ⟨.%s, %s, %d, %d, %d, %s⟩' % (d, 'none' if t == 'time' else 'some .%s' % t, e[0], e[1], e[2], 'true' if same else 'false')
                        for (d, t, e, same) in conv))
    L.append(']')
    L.append('')
    L.append('end Lcapy.Fourier.Gen')
    return '\n'.join(L) + '\n', info


if __name__ == '__main__':
    import sys
    text, info = generate(sys.argv[1] if len(sys.argv) > 1 else '/repo')
    print(text)
    print('-- unparsed:', info['unparsed'])
    print('-- outside:', info['outside'])
