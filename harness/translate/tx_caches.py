"""tx_caches: regenerate lean/Lcapy/Generated/Caches.lean from the *source text* of
lcapy/netlist.py, netlistmixin.py, netfile.py, netlistopsmixin.py, netlistsimplifymixin.py,
(mna.py), and the transformer modules.

What is read (Python `ast`, nothing is executed):

  memoised      members decorated `@lru_cache(n)` / `@cached_property`, and `hasattr(self, '_x')`
                memo patterns (the attribute `_x` is the slot; the enclosing property its accessor)
  cleared       the slots `_invalidate` drops: strings of a tuple iterated with
                `getattr(self, c).cache_clear()`, `self.m.cache_clear()`, `del self.x`,
                `delattr(self, 'x')`, `self.__dict__.pop('x', ...)`
  mutators      members that change `_elements` (directly or through `_add`/`_cpt_add`) and
                whether they call `self._invalidate()`
  initInvalidates      `Netlist.__init__` calls `self._invalidate()` (cache_clear is class wide, so
                creating any netlist empties every class-level lru slot named in `cleared`)
  overrideDetaches     `_cpt_add`, in the branch `if cpt.name in self._elements`, detaches the old
                component from its nodes (a call `<x>.remove(...)` in that branch)
  reads         for every memoised member and every public query the harness asks: the memo slots
                reached through `self.<member>` chains (stopping at memoised members), deps first
  spawns        members that create a new Netlist (`self._new()` reached through `self.` chains)
  transformers  per transformer class: the `(kwarg, default)` pairs its `key()` looks at and the
                pairs read anywhere else in the class
  setIterationSites    `list(<set-valued name>)` conversions in the simplify mixin (F7)

Anything not understood is listed in `unparsed` (and in the generated file as a comment); the
obligations then rest on the correspondence for that item.
"""
import ast
import os
import re
import warnings

FILES = ['netlist.py', 'netlistmixin.py', 'netfile.py', 'netlistopsmixin.py', 'netlistsimplifymixin.py', 'mna.py']
# class resolution order of `Circuit` restricted to the scanned files
CLASS_ORDER = ['Netlist', 'NetlistOpsMixin', 'NetlistMixin', 'NetlistSimplifyMixin', 'NetfileMixin']
TRANSFORMER_FILES = ['laplace.py', 'inverse_laplace.py', 'fourier.py', 'inverse_fourier.py', 'ztransform.py',
                     'inverse_ztransform.py', 'dtft.py', 'inverse_dtft.py', 'dft.py', 'inverse_dft.py',
                     'hilbert.py', 'inverse_hilbert.py']
# public members the harness queries / operations it performs (their memo closure is generated)
QUERIES = ['capacitors', 'inductors', 'voltage_sources', 'current_sources', 'components',
           'has_dc', 'has_ac', 'is_dc', 'is_ac', 'is_causal', 'is_IVP', 'reactances', 'independent_sources',
           'is_connected', 'node_list', 'branch_list', 'node_map', 'cpts', 'sub', 'kinds', 'sim',
           'get_Vd', 'get_I', 'Vdict', 'Idict', 'analyse', 'circuit_graph', 'modified_nodal_analysis',
           'nodal_analysis', 'mesh_analysis', 'unconnected_nodes', 'netlist',
           'copy', 'subs', 'kill', 'select', 'simplify', 'remove_dangling', 'expand', 'state_space', 'transfer',
           # graph-based and node-level queries (round 3)
           'in_series', 'in_parallel', 'across_nodes', 'unreachable_nodes', 'ladder', 'loop_analysis', 'cg',
           'equipotential_nodes', 'describe', 'thevenin', 'norton', 'impedance', 'admittance', 'twoports',
           'dependent_sources', 'transformers', 'mutual_couplings', 'control_sources', 'ics', 'is_passive',
           'is_switching', 'has_transient', 'sources', 'elements', 'Voc', 'Isc', 'voltage_gain']


# the fixed battery of read-only observations the harness makes on the same instance after every query op (none of
# them constructs a netlist); its memo closure is generated as the pseudo-query `battery`
BATTERY = ['node_list', 'equipotential_nodes', 'unconnected_nodes', 'is_connected', 'branch_list', 'in_series',
           'in_parallel', 'across_nodes', 'unreachable_nodes', 'ladder', 'cg', 'dependent_sources', 'twoports']


def lstr(s):
    return '"' + s.replace('\\', '\\\\').replace('"', '\\"') + '"'


def llist(xs):
    return '[' + ', '.join(xs) + ']'


class Scan:
    def __init__(self, repo):
        self.repo = repo
        self.unparsed = []
        self.members = {}        # name -> (file, class, FunctionDef)   first in CLASS_ORDER wins
        self.memo = {}           # slot -> (kind, file, class, accessor, maxsize)
        self.memo_order = []
        byclass = {}
        for fn in FILES:
            path = os.path.join(repo, 'lcapy', fn)
            if not os.path.exists(path):
                self.unparsed.append('missing-file:' + fn)
                continue
            try:
                with warnings.catch_warnings():
                    warnings.simplefilter('ignore')
                    tree = ast.parse(open(path).read())
            except SyntaxError as e:
                self.unparsed.append('syntax:%s:%s' % (fn, e))
                continue
            for cls in [n for n in tree.body if isinstance(n, ast.ClassDef)]:
                byclass.setdefault(cls.name, []).append((fn, cls))
        self.byclass = byclass
        for cname in CLASS_ORDER:
            for (fn, cls) in byclass.get(cname, []):
                for f in [n for n in cls.body if isinstance(n, ast.FunctionDef)]:
                    # property setters share the name; keep the first (getter)
                    if f.name not in self.members:
                        self.members[f.name] = (fn, cname, f)
        for cname in CLASS_ORDER:
            for (fn, cls) in byclass.get(cname, []):
                for f in [n for n in cls.body if isinstance(n, ast.FunctionDef)]:
                    self.scan_memo(fn, cname, f)

    # ---- memoised members
    def scan_memo(self, fn, cname, f):
        for d in f.decorator_list:
            txt = ast.unparse(d)
            if 'lru_cache' in txt:
                size = ''
                if isinstance(d, ast.Call) and d.args:
                    size = ast.unparse(d.args[0])
                self.add_memo(f.name, 'lru', fn, cname, f.name, size or 'None')
            elif 'cached_property' in txt:
                self.add_memo(f.name, 'cprop', fn, cname, f.name, '')
        for n in ast.walk(f):
            if (isinstance(n, ast.Call) and getattr(n.func, 'id', None) == 'hasattr' and len(n.args) == 2
                    and isinstance(n.args[0], ast.Name) and n.args[0].id == 'self'
                    and isinstance(n.args[1], ast.Constant) and isinstance(n.args[1].value, str)):
                attr = n.args[1].value
                assigned = any(isinstance(a, ast.Assign) and any(
                    isinstance(t, ast.Attribute) and t.attr == attr and isinstance(t.value, ast.Name) and t.value.id == 'self'
                    for t in a.targets) for a in ast.walk(f))
                if assigned:
                    self.add_memo(attr, 'hasattr', fn, cname, f.name, '')

    def add_memo(self, slot, kind, fn, cname, accessor, size):
        if slot not in self.memo:
            self.memo[slot] = (kind, fn, cname, accessor, size)
            self.memo_order.append(slot)

    # ---- what _invalidate clears
    def cleared(self):
        ent = self.members.get('_invalidate')
        if ent is None:
            self.unparsed.append('no-_invalidate')
            return []
        f = ent[2]
        out = []

        def add(x):
            if x not in out:
                out.append(x)
        loops = {}
        for n in ast.walk(f):
            if isinstance(n, ast.Assign) and isinstance(n.value, (ast.Tuple, ast.List)) and len(n.targets) == 1 \
                    and isinstance(n.targets[0], ast.Name):
                vals = [e.value for e in n.value.elts if isinstance(e, ast.Constant) and isinstance(e.value, str)]
                loops[n.targets[0].id] = vals
        for n in ast.walk(f):
            if isinstance(n, ast.For) and isinstance(n.target, ast.Name):
                it = n.iter
                vals = None
                if isinstance(it, ast.Name) and it.id in loops:
                    vals = loops[it.id]
                elif isinstance(it, (ast.Tuple, ast.List)):
                    vals = [e.value for e in it.elts if isinstance(e, ast.Constant) and isinstance(e.value, str)]
                if vals is None:
                    continue
                body = ' '.join(ast.unparse(b) for b in n.body)
                v = n.target.id
                if ('getattr(self, %s).cache_clear()' % v) in body or ('delattr(self, %s)' % v) in body \
                        or ('self.__dict__.pop(%s' % v) in body:
                    for x in vals:
                        add(x)
                else:
                    self.unparsed.append('_invalidate-loop:' + body[:60])
            elif isinstance(n, ast.Delete):
                for t in n.targets:
                    if isinstance(t, ast.Attribute) and isinstance(t.value, ast.Name) and t.value.id == 'self':
                        add(t.attr)
            elif isinstance(n, ast.Call):
                fu = n.func
                if isinstance(fu, ast.Attribute) and fu.attr == 'cache_clear' and isinstance(fu.value, ast.Attribute) \
                        and isinstance(fu.value.value, ast.Name) and fu.value.value.id == 'self':
                    add(fu.value.attr)
                elif isinstance(fu, ast.Name) and fu.id == 'delattr' and len(n.args) == 2 \
                        and isinstance(n.args[1], ast.Constant):
                    add(n.args[1].value)
                elif isinstance(fu, ast.Attribute) and fu.attr == 'pop' and ast.unparse(fu.value) == 'self.__dict__' \
                        and n.args and isinstance(n.args[0], ast.Constant):
                    add(n.args[0].value)
        return out

    # ---- classes of other lcapy modules that are handed `self` (CircuitGraph.from_circuit(self), Analysis(self, ...))
    def ext_class(self, cname):
        if not hasattr(self, '_ext'):
            self._ext = {}
            d = os.path.join(self.repo, 'lcapy')
            for fn in sorted(os.listdir(d)):
                if not fn.endswith('.py'):
                    continue
                try:
                    src = open(os.path.join(d, fn)).read()
                    if 'class ' not in src:
                        continue
                    with warnings.catch_warnings():
                        warnings.simplefilter('ignore')
                        tree = ast.parse(src)
                except Exception:
                    continue
                for cls in [n for n in tree.body if isinstance(n, ast.ClassDef)]:
                    self._ext.setdefault(cls.name, {f.name: f for f in cls.body if isinstance(f, ast.FunctionDef)})
        return self._ext.get(cname)

    def ext_refs(self, call):
        """attributes of the netlist read by an external constructor / classmethod that receives `self`"""
        pos = [k for k, a in enumerate(call.args) if isinstance(a, ast.Name) and a.id == 'self']
        if not pos:
            return []
        fu = call.func
        if isinstance(fu, ast.Name):
            cname, meth, shift = fu.id, '__init__', 1
        elif isinstance(fu, ast.Attribute) and isinstance(fu.value, ast.Name) and fu.value.id[:1].isupper():
            cname, meth, shift = fu.value.id, fu.attr, 1       # classmethod: first parameter is cls
        else:
            return []
        cls = self.ext_class(cname)
        if cls is None or cname in CLASS_ORDER or meth not in cls:
            return []
        f = cls[meth]
        params = [a.arg for a in f.args.args]
        out = []
        depth = getattr(self, '_ext_depth', 0)
        for k in pos:
            if k + shift >= len(params):
                continue
            pn = params[k + shift]
            for n in ast.walk(f):
                if isinstance(n, ast.Attribute) and isinstance(n.value, ast.Name) and n.value.id == pn and n.attr not in out:
                    out.append(n.attr)
            # the netlist is passed on to another class (`CircuitGraph.from_circuit(cct)` inside `LadderNetworkMaker.__init__`)
            if depth < 3:
                self._ext_depth = depth + 1
                try:
                    for n in ast.walk(f):
                        if isinstance(n, ast.Call) and any(isinstance(a, ast.Name) and a.id == pn for a in n.args):
                            c2 = ast.Call(func=n.func, args=[ast.Name(id='self', ctx=ast.Load()) if (isinstance(a, ast.Name) and a.id == pn) else a
                                                             for a in n.args], keywords=[])
                            for r in self.ext_refs(c2):
                                if r not in out:
                                    out.append(r)
                finally:
                    self._ext_depth = depth
            # a constructor that keeps the netlist (`self.cct = cct`): what the other methods of the class read through it
            if meth == '__init__':
                kept = [t.attr for n in ast.walk(f) if isinstance(n, ast.Assign) and isinstance(n.value, ast.Name) and n.value.id == pn
                        for t in n.targets if isinstance(t, ast.Attribute) and isinstance(t.value, ast.Name) and t.value.id == 'self']
                for g in cls.values():
                    for n in ast.walk(g):
                        if isinstance(n, ast.Attribute) and isinstance(n.value, ast.Attribute) and isinstance(n.value.value, ast.Name) \
                                and n.value.value.id == 'self' and n.value.attr in kept and n.attr not in out:
                            out.append(n.attr)
        return out

    # ---- self.<attr> references
    def selfrefs(self, f):
        refs = []
        if f.name == '_invalidate':        # drops slots, does not read them
            return refs
        for n in ast.walk(f):
            if isinstance(n, ast.Attribute) and isinstance(n.value, ast.Name) and n.value.id == 'self' \
                    and not isinstance(n.ctx, ast.Del):
                if n.attr not in refs:
                    refs.append(n.attr)
            if isinstance(n, ast.Call):
                for r in self.ext_refs(n):
                    if r not in refs:
                        refs.append(r)
        return refs

    def calls_self(self, f, name):
        for n in ast.walk(f):
            if isinstance(n, ast.Call) and isinstance(n.func, ast.Attribute) and n.func.attr == name \
                    and isinstance(n.func.value, ast.Name) and n.func.value.id == 'self':
                return True
        return False

    def closure(self, start, include_start_slot=True):
        """memo slots reached from member/slot `start`, dependencies first"""
        out = []
        seen = set()

        def body_of(name):
            # the function whose body computes `name` (for a hasattr slot: its accessor)
            if name in self.memo:
                acc = self.memo[name][3]
                return self.members.get(acc, (None, None, None))[2]
            return self.members.get(name, (None, None, None))[2]

        def visit(name, top):
            if name in seen:
                return
            seen.add(name)
            f = body_of(name)
            if f is not None:
                for r in self.selfrefs(f):
                    if r == name:
                        continue
                    if r in self.memo or r in self.members:
                        # a hasattr accessor refers to its own slot: handled by the slot itself
                        if name in self.memo and self.memo[name][3] == r:
                            continue
                        visit(r, False)
            if name in self.memo and (include_start_slot or not top):
                out.append(name)

        visit(start, True)
        return out

    def direct_deps(self, slot):
        """memo slots read directly (through non-memoised members) while computing `slot`"""
        out = []
        seen = set()
        acc = self.memo[slot][3]
        f0 = self.members.get(acc, (None, None, None))[2]

        def visit(f):
            for r in self.selfrefs(f):
                if r == slot or r == acc:
                    continue
                if r in seen:
                    continue
                seen.add(r)
                if r in self.memo:
                    out.append(r)
                elif r in self.members:
                    visit(self.members[r][2])
        if f0 is not None:
            visit(f0)
        return out

    def reaches(self, start, target):
        seen = set()

        def visit(name):
            if name in seen:
                return False
            seen.add(name)
            ent = self.members.get(name)
            if name in self.memo:
                ent = self.members.get(self.memo[name][3])
            if ent is None:
                return False
            for r in self.selfrefs(ent[2]):
                if r == target:
                    return True
                if r in self.members and r not in self.memo and visit(r):
                    return True
            return False
        return visit(start)

    # ---- mutators
    def mutators(self):
        out = []
        for name, (fn, cname, f) in self.members.items():
            direct = False
            for n in ast.walk(f):
                if isinstance(n, ast.Subscript) and ast.unparse(n.value) == 'self._elements' and isinstance(n.ctx, (ast.Store, ast.Del)):
                    direct = True
                if isinstance(n, ast.Call) and isinstance(n.func, ast.Attribute) and n.func.attr in ('pop', 'popitem', 'clear') \
                        and ast.unparse(n.func.value) == 'self._elements':
                    direct = True
            via = self.calls_self(f, '_add') or self.calls_self(f, '_cpt_add')
            if direct or via:
                out.append((name, self.calls_self(f, '_invalidate'), 'direct' if direct else 'via-_add'))
        return out

    def add_invalidate_mode(self):
        """(single, multi): is `self._invalidate()` in `add` reached after adding one line / after adding a
        multi-line string (for which `_add` returns None)?  Top-level statement: both.  Inside
        `if <var> is not None` / `if <var>` where <var> holds the result of `self._add(...)`: single line only.
        Under any other condition: neither is assumed (recorded as unparsed)."""
        ent = self.members.get('add')
        if ent is None:
            self.unparsed.append('no-add')
            return (False, False)
        f = ent[2]
        addvars = set()
        for n in ast.walk(f):
            if isinstance(n, ast.Assign) and isinstance(n.value, ast.Call) and isinstance(n.value.func, ast.Attribute) \
                    and n.value.func.attr == '_add' and len(n.targets) == 1 and isinstance(n.targets[0], ast.Name):
                addvars.add(n.targets[0].id)

        def is_inv(st):
            return isinstance(st, ast.Expr) and isinstance(st.value, ast.Call) and isinstance(st.value.func, ast.Attribute) \
                and st.value.func.attr == '_invalidate' and isinstance(st.value.func.value, ast.Name) and st.value.func.value.id == 'self'
        # statement lists that are executed when `_add` does not raise: the function body, and the body and the `finally`
        # block of a top-level `try` (`try: cpt = self._add(...) finally: self._invalidate()`)
        blocks = [f.body]
        for st in f.body:
            if isinstance(st, ast.Try):
                blocks += [st.body, st.finalbody, st.orelse]
        for b in blocks:
            for st in b:
                if is_inv(st):
                    return (True, True)
        for st in [x for b in blocks for x in b]:
            if isinstance(st, ast.If) and any(is_inv(x) for x in st.body):
                t = ast.unparse(st.test).replace(' ', '')
                if any(t in (v + 'isnotNone', v, v + '!=None') for v in addvars):
                    return (True, False)
                self.unparsed.append('add:_invalidate under condition ' + t)
                return (False, False)
        if any(is_inv(x) for x in ast.walk(f) if isinstance(x, ast.Expr)):
            self.unparsed.append('add:_invalidate nested')
        return (False, False)

    def override_detaches(self):
        ent = self.members.get('_cpt_add')
        if ent is None:
            self.unparsed.append('no-_cpt_add')
            return False
        for n in ast.walk(ent[2]):
            if isinstance(n, ast.If) and 'in self._elements' in ast.unparse(n.test) and 'not in' not in ast.unparse(n.test):
                for b in n.body:
                    for c in ast.walk(b):
                        if isinstance(c, ast.Call) and isinstance(c.func, ast.Attribute) and c.func.attr in ('remove', '_detach', 'detach'):
                            return True
                return False
        self.unparsed.append('_cpt_add-no-override-branch')
        return False

    def keep_connected_node(self):
        """node.py `Node.remove`: is the `_delete` of a node whose count reached zero guarded by a test of
        its remaining connections?  (otherwise `Nodes._delete` raises half way through `Netlist.remove`)"""
        path = os.path.join(self.repo, 'lcapy', 'node.py')
        try:
            with warnings.catch_warnings():
                warnings.simplefilter('ignore')
                tree = ast.parse(open(path).read())
        except Exception:
            self.unparsed.append('node.py')
            return False
        for cls in [n for n in tree.body if isinstance(n, ast.ClassDef) and n.name == 'Node']:
            for f in [n for n in cls.body if isinstance(n, ast.FunctionDef) and n.name == 'remove']:
                for n in ast.walk(f):
                    if isinstance(n, ast.If) and any(isinstance(c, ast.Call) and isinstance(c.func, ast.Attribute) and c.func.attr == '_delete'
                                                     for b in n.body for c in ast.walk(b)):
                        return 'connected' in ast.unparse(n.test)
                self.unparsed.append('Node.remove:no-_delete-branch')
                return False
        self.unparsed.append('node.py:no-Node.remove')
        return False

    def set_iteration_sites(self):
        """places where the simplify machinery takes elements of a Python set in iteration (= hash) order:
        `list(<set>)`, `sorted(<set>)` (harmless, listed for the record) and `<set>.pop()` that picks the
        next group to process (simplify mixin and NetlistMixin._find_combine_subsets)"""
        sites = []
        funcs = []
        for (fn, cls) in self.byclass.get('NetlistSimplifyMixin', []):
            funcs += [n for n in cls.body if isinstance(n, ast.FunctionDef)]
        for nm in ('_find_combine_subsets',):
            if nm in self.members:
                funcs.append(self.members[nm][2])
        for f in funcs:
            for n in ast.walk(f):
                if isinstance(n, ast.Call) and isinstance(n.func, ast.Name) and n.func.id in ('list', 'sorted') and len(n.args) >= 1 \
                        and isinstance(n.args[0], ast.Name) and ('set' in n.args[0].id):
                    sites.append('%s:%s(%s)' % (f.name, n.func.id, n.args[0].id))
            if f.name == '_find_combine_subsets':
                # the popped name decides which type group enters the result dict first
                for n in ast.walk(f):
                    if isinstance(n, ast.Assign) and isinstance(n.value, ast.Call) and isinstance(n.value.func, ast.Attribute) \
                            and n.value.func.attr == 'pop' and not n.value.args and isinstance(n.value.func.value, ast.Name) \
                            and 'set' in n.value.func.value.id:
                        sites.append('%s:%s.pop()' % (f.name, n.value.func.value.id))
        # a variable that `.discard()` is called on is a set: `list(<it>)` / `tuple(<it>)` hands its hash order to the caller
        for name, (fn, cname, f) in self.members.items():
            setvars = {n.func.value.id for n in ast.walk(f)
                       if isinstance(n, ast.Call) and isinstance(n.func, ast.Attribute) and n.func.attr == 'discard'
                       and isinstance(n.func.value, ast.Name)}
            for n in ast.walk(f):
                if isinstance(n, ast.Call) and isinstance(n.func, ast.Name) and n.func.id in ('list', 'tuple') and len(n.args) == 1 \
                        and isinstance(n.args[0], ast.Name) and n.args[0].id in setvars:
                    site = '%s:%s(%s)' % (f.name, n.func.id, n.args[0].id)
                    if site not in sites:
                        sites.append(site)
        return sites


    # ---- round 3: which nodes `remove` / an overriding `_cpt_add` detach the component from
    def detach_selection(self, member, in_override_branch=False):
        """the iteration expression of the loop `for <v> in <iter>: <v>.remove(<cpt>)`:
        'all' for `<x>.nodes`; (a, b) for a constant slice `<x>.nodes[a:b]` (b = None: to the end);
        None (and an `unparsed` note) for anything else"""
        ent = self.members.get(member)
        if ent is None:
            self.unparsed.append('no-' + member)
            return None
        f = ent[2]
        scope = [f]
        if in_override_branch:
            scope = []
            for n in ast.walk(f):
                if isinstance(n, ast.If) and 'in self._elements' in ast.unparse(n.test) and 'not in' not in ast.unparse(n.test):
                    scope = n.body
                    break
        for top in scope:
            for n in ast.walk(top):
                if isinstance(n, ast.For) and isinstance(n.target, ast.Name):
                    v = n.target.id
                    calls = [c for b in n.body for c in ast.walk(b)
                             if isinstance(c, ast.Call) and isinstance(c.func, ast.Attribute) and c.func.attr == 'remove'
                             and isinstance(c.func.value, ast.Name) and c.func.value.id == v]
                    if not calls:
                        continue
                    # anything but the bare call statement in the loop body (a condition, a `continue`) is not understood
                    if len(n.body) != 1 or not isinstance(n.body[0], ast.Expr) or n.body[0].value is not calls[0]:
                        self.unparsed.append('%s:detach-loop-body:%s' % (member, ast.unparse(n.body[0])[:50]))
                        return None
                    it = n.iter
                    if isinstance(it, ast.Attribute) and it.attr == 'nodes':
                        return 'all'
                    if isinstance(it, ast.Subscript) and isinstance(it.value, ast.Attribute) and it.value.attr == 'nodes' \
                            and isinstance(it.slice, ast.Slice) and it.slice.step is None:
                        def cst(x, dflt):
                            if x is None:
                                return dflt
                            if isinstance(x, ast.Constant) and isinstance(x.value, int) and x.value >= 0:
                                return x.value
                            return 'bad'
                        a, b = cst(it.slice.lower, 0), cst(it.slice.upper, None)
                        if a != 'bad' and b != 'bad':
                            return (a, b)
                    self.unparsed.append('%s:detach-loop-iter:%s' % (member, ast.unparse(it)[:50]))
                    return None
        self.unparsed.append('%s:no-detach-loop' % member)
        return None

    # ---- round 3: netlist grammar (which fields of a line are nodes)
    def grammar_rules(self):
        """per rule of grammar.py, in order: (type, [param codes]) with codes 'n' (node / pin), 'k:<keyword>',
        'x' (name / value), and a trailing '?' for an optional parameter"""
        path = os.path.join(self.repo, 'lcapy', 'grammar.py')
        try:
            tree = ast.parse(open(path).read())
        except Exception:
            self.unparsed.append('grammar.py')
            return []
        consts = {}
        for node in tree.body:
            if isinstance(node, ast.Assign) and len(node.targets) == 1 and isinstance(node.targets[0], ast.Name) \
                    and isinstance(node.value, ast.Constant) and isinstance(node.value.value, str):
                consts[node.targets[0].id] = node.value.value
        kinds = {}
        for line in consts.get('params', '').split('\n'):
            if ':' in line:
                nm, rest = line.split(':', 1)
                kinds[nm] = rest.split(';', 1)[0].strip()
        out = []
        for line in consts.get('rules', '').split('\n'):
            if ':' not in line:
                continue
            body = line.split(':', 1)[1].split(';', 1)[0].strip()
            fields = body.split(' ')
            if not fields[0].endswith('name'):
                self.unparsed.append('grammar-rule:' + line[:40])
                continue
            ctype = fields[0][:-4]
            codes = []
            ok = True
            for ps in fields[1:]:
                opt = ps.startswith('[')
                pn = ps[1:-1] if opt else ps
                pn = pn.split('=')[0]
                k = kinds.get(pn)
                if k in ('node', 'pin'):
                    c = 'n'
                elif k == 'keyword':
                    c = 'k:' + pn
                elif k in ('name', 'value'):
                    c = 'x'
                elif k == 'nodelist':
                    c = 'x'
                else:
                    ok = False
                    break
                codes.append(c + ('?' if opt else ''))
            if not ok:
                self.unparsed.append('grammar-rule-param:' + line[:40])
                continue
            out.append((ctype, codes))
        return out

    # ---- round 3: error handling of `add`
    def add_error_handling(self):
        """(restores, invalidates): in `add`, are `state.restore_context()` / `self._invalidate()` reached when
        `_add` raises, i.e. do they stand in the `finally` block (or an `except` that re-raises) of a `try`
        whose body calls `self._add`?"""
        ent = self.members.get('add')
        if ent is None:
            return (False, False)
        f = ent[2]
        res = inv = False
        for n in ast.walk(f):
            if isinstance(n, ast.Try) and any(isinstance(c, ast.Call) and isinstance(c.func, ast.Attribute) and c.func.attr == '_add'
                                               for b in n.body for c in ast.walk(b)):
                blocks = list(n.finalbody)
                for h in n.handlers:
                    if any(isinstance(x, ast.Raise) for x in h.body):
                        blocks += h.body
                txt = ' '.join(ast.unparse(b) for b in blocks)
                res = res or 'restore_context' in txt
                inv = inv or 'self._invalidate()' in txt
        return (res, inv)

    def failed_add_detaches(self):
        """is a component whose construction or registration raises detached from the nodes its constructor
        attached it to?  True iff (a) `Cpt.__init__` (mnacpts.py) attaches to the nodes only after everything that can
        raise, or undoes the attachment in an `except` that re-raises, and (b) `_add` undoes it when `_cpt_add` raises.
        Returns (ctor_safe, register_safe)."""
        ctor_safe = False
        path = os.path.join(self.repo, 'lcapy', 'mnacpts.py')
        try:
            with warnings.catch_warnings():
                warnings.simplefilter('ignore')
                tree = ast.parse(open(path).read())
            init = None
            for cls in [n for n in tree.body if isinstance(n, ast.ClassDef) and n.name == 'Cpt']:
                for f in cls.body:
                    if isinstance(f, ast.FunctionDef) and f.name == '__init__':
                        init = f
            if init is None:
                self.unparsed.append('mnacpts.Cpt.__init__')
            else:
                attach_line = None
                for n in ast.walk(init):
                    if isinstance(n, ast.Call) and isinstance(n.func, ast.Attribute) and n.func.attr == 'add' \
                            and ast.unparse(n.func.value).endswith('.nodes'):
                        attach_line = n.lineno if attach_line is None else min(attach_line, n.lineno)
                risky = [n.lineno for n in ast.walk(init) if isinstance(n, ast.Call) and (
                    (isinstance(n.func, ast.Attribute) and n.func.attr in ('_process_args', 'check'))
                    or (isinstance(n.func, ast.Name) and n.func.id in ('newclass', 'Opts')))]
                guarded = False
                for n in ast.walk(init):
                    if isinstance(n, ast.Try):
                        for h in n.handlers:
                            t = ' '.join(ast.unparse(b) for b in h.body)
                            if '.remove(self)' in t and any(isinstance(x, ast.Raise) for x in h.body):
                                guarded = True
                if attach_line is None:
                    self.unparsed.append('mnacpts.Cpt.__init__:no-node-attachment')
                else:
                    ctor_safe = guarded or all(r < attach_line for r in risky)
        except Exception:
            self.unparsed.append('mnacpts.py')
        reg_safe = False
        ent = self.members.get('_add')
        if ent is not None:
            for n in ast.walk(ent[2]):
                if isinstance(n, ast.Try) and any(isinstance(c, ast.Call) and isinstance(c.func, ast.Attribute) and c.func.attr == '_cpt_add'
                                                   for b in n.body for c in ast.walk(b)):
                    for h in n.handlers:
                        t = ' '.join(ast.unparse(b) for b in h.body)
                        if '.remove(' in t and any(isinstance(x, ast.Raise) for x in h.body):
                            reg_safe = True
        return (ctor_safe, reg_safe)

    def reserved_names(self):
        """names that `hasattr(self, name)` finds on a netlist: members of the scanned classes"""
        # plain methods only: `hasattr` EVALUATES a property (for `Vdict` the whole analysis), and says False when that
        # evaluation raises AttributeError -- whether such a name is refused depends on the state of the circuit
        out = []
        for name, (fn, cname, f) in self.members.items():
            decos = [ast.unparse(d) for d in f.decorator_list]
            if any('property' in d for d in decos):
                continue
            out.append(name)
        return sorted(out)

    # ---- round 3: cached objects handed out by reference, and who mutates them
    MUTATING = ('append', 'extend', 'insert', 'pop', 'remove', 'clear', 'update', 'add', 'discard', 'setdefault',
                'popitem', 'sort', 'reverse', 'remove_edge', 'remove_edges_from', 'remove_node', 'remove_nodes_from',
                'add_edge', 'add_edges_from', 'add_node', 'add_nodes_from', '__setitem__', '__delitem__')

    def all_classes(self):
        """{class name: (file, ClassDef)} over every module of the package"""
        if hasattr(self, '_allcls'):
            return self._allcls
        out = {}
        d = os.path.join(self.repo, 'lcapy')
        for fn in sorted(os.listdir(d)):
            if not fn.endswith('.py'):
                continue
            try:
                src = open(os.path.join(d, fn)).read()
                if 'class ' not in src:
                    continue
                with warnings.catch_warnings():
                    warnings.simplefilter('ignore')
                    tree = ast.parse(src)
            except Exception:
                continue
            for cls in [n for n in tree.body if isinstance(n, ast.ClassDef)]:
                out.setdefault(cls.name, (fn, cls))
        self._allcls = out
        return out

    def cached_accessors(self):
        """{accessor name: slot}: memoised members, the accessors of hasattr slots, and plain properties / methods
        whose body is `return self.<accessor>` or `return self.<accessor>(...)`"""
        acc = {}
        for slot in self.memo_order:
            acc[slot] = slot
            acc[self.memo[slot][3]] = slot
        changed = True
        while changed:
            changed = False
            for name, (fn, cname, f) in self.members.items():
                if name in acc:
                    continue
                body = [b for b in f.body if not (isinstance(b, ast.Expr) and isinstance(b.value, ast.Constant))]
                if len(body) == 1 and isinstance(body[0], ast.Return) and body[0].value is not None:
                    v = body[0].value
                    if isinstance(v, ast.Call):
                        v = v.func
                    if isinstance(v, ast.Attribute) and isinstance(v.value, ast.Name) and v.value.id == 'self' and v.attr in acc:
                        acc[name] = acc[v.attr]
                        changed = True
        return acc

    def slot_class(self, slot):
        """class of the object a memoised member returns, when its body returns `<Class>(...)` / `<Class>.<ctor>(...)`"""
        acc = self.memo[slot][3]
        ent = self.members.get(acc)
        if ent is None:
            return None
        classes = self.all_classes()
        for n in ast.walk(ent[2]):
            v = None
            if isinstance(n, ast.Return) and n.value is not None:
                v = n.value
            elif isinstance(n, ast.Assign) and any(isinstance(t, ast.Attribute) and t.attr == slot for t in n.targets):
                v = n.value
            if isinstance(v, ast.Call):
                fu = v.func
                if isinstance(fu, ast.Name) and fu.id in classes:
                    return fu.id
                if isinstance(fu, ast.Attribute) and isinstance(fu.value, ast.Name) and fu.value.id in classes:
                    return fu.value.id
        return None

    def mutating_methods(self, cname):
        """methods of class `cname` that change the receiver: assignment / deletion of `self.a`, `self.a[...]` outside
        `__init__`, a call of a container-mutating method on `self.a` or on a local alias of it, or a call of another
        such method of the class"""
        classes = self.all_classes()
        if cname not in classes:
            return None
        cls = classes[cname][1]
        meths = {f.name: f for f in cls.body if isinstance(f, ast.FunctionDef)}
        mut = set()

        def selfattr(x, aliases):
            # x denotes self.a (or an alias, or a subscript / attribute of one)
            while isinstance(x, (ast.Subscript, ast.Attribute)) and not (
                    isinstance(x, ast.Attribute) and isinstance(x.value, ast.Name) and x.value.id == 'self'):
                x = x.value
            if isinstance(x, ast.Attribute) and isinstance(x.value, ast.Name) and x.value.id == 'self':
                return True
            return isinstance(x, ast.Name) and x.id in aliases

        def direct(f):
            if f.name in ('__init__', '__new__'):
                return False
            aliases = set()
            for n in ast.walk(f):
                if isinstance(n, ast.Assign) and len(n.targets) == 1 and isinstance(n.targets[0], ast.Name) \
                        and isinstance(n.value, ast.Attribute) and isinstance(n.value.value, ast.Name) and n.value.value.id == 'self':
                    aliases.add(n.targets[0].id)
            # `if hasattr(self, '_x'): return self._x ... self._x = <computed>` fills a memo; it does not change what the object denotes
            memo_attrs = {c.args[1].value for c in ast.walk(f)
                          if isinstance(c, ast.Call) and getattr(c.func, 'id', None) == 'hasattr' and len(c.args) == 2
                          and isinstance(c.args[1], ast.Constant)}
            for n in ast.walk(f):
                if isinstance(n, (ast.Assign, ast.AugAssign, ast.Delete)):
                    tg = n.targets if isinstance(n, (ast.Assign, ast.Delete)) else [n.target]
                    for t in tg:
                        if isinstance(t, ast.Attribute) and isinstance(t.value, ast.Name) and t.value.id == 'self' \
                                and t.attr in memo_attrs and isinstance(n, ast.Assign):
                            continue
                        if isinstance(t, (ast.Attribute, ast.Subscript)) and selfattr(t, aliases) and not isinstance(t, ast.Name):
                            return True
                if isinstance(n, ast.Call) and isinstance(n.func, ast.Attribute) and n.func.attr in self.MUTATING \
                        and selfattr(n.func.value, aliases) and not (isinstance(n.func.value, ast.Name) and n.func.value.id == 'self'):
                    return True
            return False
        for nm, f in meths.items():
            if direct(f):
                mut.add(nm)
        changed = True
        while changed:
            changed = False
            for nm, f in meths.items():
                if nm in mut or nm in ('__init__', '__new__'):
                    continue
                for n in ast.walk(f):
                    if isinstance(n, ast.Call) and isinstance(n.func, ast.Attribute) and isinstance(n.func.value, ast.Name) \
                            and n.func.value.id == 'self' and n.func.attr in mut:
                        mut.add(nm)
                        changed = True
                        break
        return mut

    def shared_cached_objects(self):
        """(handouts, mutations, damages)
        handouts : (class, attribute-or-local, accessor, slot)  a helper class keeps a reference to a cached object of
                   a netlist it was given (`self.cg = cct.cg`, `node_map = cct.node_map`)
        mutations: (class, method, attribute, slot, call)        ... and calls a mutating method on it / assigns into it;
                   also netlist members doing so on their own cached object (`self.cg.remove_edges(...)`)
        damages  : (query, slot)  public netlist members that construct such a mutating helper with `self`"""
        acc = self.cached_accessors()
        classes = self.all_classes()
        slotcls = {s: self.slot_class(s) for s in self.memo_order}
        mutm = {}

        def mutating(slot, meth):
            c = slotcls.get(slot)
            if c is not None:
                if c not in mutm:
                    mutm[c] = self.mutating_methods(c) or set()
                if meth in mutm[c]:
                    return True
                if meth in {f.name for f in classes[c][1].body if isinstance(f, ast.FunctionDef)}:
                    return False
            return meth in self.MUTATING or meth.startswith(('remove_', 'add_', 'set_', 'del_', 'clear', 'update'))
        handouts, mutations = [], []
        netlist_classes = set(CLASS_ORDER)
        for cname, (fn, cls) in sorted(classes.items()):
            held = {}        # attribute of self -> slot
            for f in [n for n in cls.body if isinstance(n, ast.FunctionDef)]:
                for n in ast.walk(f):
                    if isinstance(n, ast.Assign) and len(n.targets) == 1:
                        v = n.value.func if isinstance(n.value, ast.Call) else n.value
                        if isinstance(v, ast.Attribute) and v.attr in acc and not isinstance(v.value, ast.Call):
                            owner = ast.unparse(v.value)
                            if cname in netlist_classes and owner == 'self':
                                continue
                            # the owner must look like a netlist handle: a parameter / attribute named cct, netlist, circuit, ...
                            if not any(k in owner.lower() for k in ('cct', 'netlist', 'circuit', 'net')):
                                continue
                            t = n.targets[0]
                            if isinstance(t, ast.Attribute) and isinstance(t.value, ast.Name) and t.value.id == 'self':
                                held[t.attr] = acc[v.attr]
                                handouts.append((cname, 'self.' + t.attr, v.attr, acc[v.attr]))
                            elif isinstance(t, ast.Name):
                                handouts.append((cname, f.name + ':' + t.id, v.attr, acc[v.attr]))
            for f in [n for n in cls.body if isinstance(n, ast.FunctionDef)]:
                local = {}       # local alias -> (attr, slot)
                for n in ast.walk(f):
                    if isinstance(n, ast.Assign) and len(n.targets) == 1 and isinstance(n.targets[0], ast.Name):
                        v = n.value.func if isinstance(n.value, ast.Call) else n.value
                        if isinstance(v, ast.Attribute) and isinstance(v.value, ast.Name) and v.value.id == 'self' and v.attr in held:
                            local[n.targets[0].id] = ('self.' + v.attr, held[v.attr])
                        elif isinstance(v, ast.Attribute) and v.attr in acc and not isinstance(v.value, ast.Call) \
                                and (cname not in netlist_classes or ast.unparse(v.value) != 'self') \
                                and any(k in ast.unparse(v.value).lower() for k in ('cct', 'netlist', 'circuit', 'net')):
                            local[n.targets[0].id] = (ast.unparse(v), acc[v.attr])

                def target_of(x):
                    """(description, slot) if x denotes a held cached object (or something inside it)"""
                    base = x
                    while isinstance(base, (ast.Subscript, ast.Attribute)):
                        if isinstance(base, ast.Attribute) and isinstance(base.value, ast.Name) and base.value.id == 'self' and base.attr in held:
                            return ('self.' + base.attr, held[base.attr])
                        if isinstance(base, ast.Attribute) and base.attr in acc and cname in netlist_classes \
                                and isinstance(base.value, ast.Name) and base.value.id == 'self':
                            return ('self.' + base.attr, acc[base.attr])
                        if isinstance(base, ast.Attribute) and base.attr in acc and cname not in netlist_classes \
                                and any(k in ast.unparse(base.value).lower() for k in ('cct', 'netlist', 'circuit')):
                            return (ast.unparse(base), acc[base.attr])
                        base = base.value
                    if isinstance(base, ast.Name) and base.id in local:
                        return local[base.id]
                    return None
                if cname in netlist_classes and f.name in ('_invalidate',):
                    continue
                for n in ast.walk(f):
                    if isinstance(n, ast.Call) and isinstance(n.func, ast.Attribute):
                        tg = target_of(n.func.value)
                        if tg is not None and mutating(tg[1], n.func.attr):
                            mutations.append((cname, f.name, tg[0], tg[1], n.func.attr))
                    if isinstance(n, (ast.Assign, ast.AugAssign, ast.Delete)):
                        tgs = n.targets if isinstance(n, (ast.Assign, ast.Delete)) else [n.target]
                        for t in tgs:
                            if isinstance(t, (ast.Subscript, ast.Attribute)):
                                # assigning INTO the cached object (not rebinding self.attr itself)
                                inner = t.value
                                tg = target_of(inner) if isinstance(inner, (ast.Subscript, ast.Attribute, ast.Name)) else None
                                if tg is not None and not (cname in netlist_classes and isinstance(t, ast.Attribute)
                                                           and isinstance(t.value, ast.Name) and t.value.id == 'self'):
                                    mutations.append((cname, f.name, tg[0], tg[1], 'item/attribute assignment'))
        # de-duplicate, keep order
        def uniq(xs):
            out = []
            for x in xs:
                if x not in out:
                    out.append(x)
            return out
        handouts, mutations = uniq(handouts), uniq(mutations)
        # which public members construct a mutating helper class with `self`
        bad_helpers = {}
        for (cname, meth, attr, slot, call) in mutations:
            bad_helpers.setdefault(cname, set()).add(slot)
        damages = []
        for q in QUERIES:
            if q not in self.members:
                continue
            seen = set()

            def visit(name):
                if name in seen:
                    return
                seen.add(name)
                ent = self.members.get(name)
                if ent is None:
                    return
                for n in ast.walk(ent[2]):
                    if isinstance(n, ast.Call):
                        fu = n.func
                        cn = fu.id if isinstance(fu, ast.Name) else (fu.value.id if isinstance(fu, ast.Attribute) and isinstance(fu.value, ast.Name) else None)
                        if cn in bad_helpers and any(isinstance(a, ast.Name) and a.id == 'self' for a in n.args):
                            for s in sorted(bad_helpers[cn]):
                                if (q, s) not in damages:
                                    damages.append((q, s))
                    if isinstance(n, ast.Attribute) and isinstance(n.value, ast.Name) and n.value.id == 'self' \
                            and n.attr in self.members and n.attr not in self.memo:
                        visit(n.attr)
            visit(q)
            for (cname, meth, attr, slot, call) in mutations:
                if cname in netlist_classes and meth in seen and (q, slot) not in damages:
                    damages.append((q, slot))
        return handouts, mutations, damages

    # ---- round 3: what every public member of the netlist classes writes
    def public_members(self):
        return [m for m in self.members if not m.startswith('_')]

    def member_writes(self, start):
        """(non-memo instance state written, members reached) by public member `start`, following `self.<member>` chains:
        `self.x = ...`, `del self.x`, `self.x[...] = ...`, `self.x.<mutating method>(...)` where `x` is not a memo slot
        (filling / dropping a memo slot is what the memo layer is for)"""
        seen, writes = [], []
        memo_ok = set(self.memo.keys()) | {'__dict__'}

        def add(w):
            if w not in writes:
                writes.append(w)

        def visit(name):
            if name in seen:
                return
            seen.append(name)
            ent = self.members.get(name)
            if name in self.memo:
                ent = self.members.get(self.memo[name][3])
            if ent is None:
                return
            f = ent[2]
            for n in ast.walk(f):
                if isinstance(n, ast.Attribute) and isinstance(n.value, ast.Name) and n.value.id == 'self':
                    a = n.attr
                    if isinstance(n.ctx, (ast.Store, ast.Del)):
                        if a not in memo_ok:
                            add(a)
                    elif a in self.members or a in self.memo:
                        visit(a)
                if isinstance(n, ast.Call) and isinstance(n.func, ast.Attribute) and n.func.attr in self.MUTATING:
                    v = n.func.value
                    while isinstance(v, ast.Subscript):
                        v = v.value
                    if isinstance(v, ast.Attribute) and isinstance(v.value, ast.Name) and v.value.id == 'self' and v.attr not in memo_ok:
                        add(v.attr + '.' + n.func.attr)
                if isinstance(n, (ast.Assign, ast.AugAssign, ast.Delete)):
                    for t in (n.targets if isinstance(n, (ast.Assign, ast.Delete)) else [n.target]):
                        if isinstance(t, ast.Subscript):
                            v = t.value
                            if isinstance(v, ast.Attribute) and isinstance(v.value, ast.Name) and v.value.id == 'self' and v.attr not in memo_ok:
                                add(v.attr + '[]')
        visit(start)
        return writes, seen

    # ---- round 3: hidden process-wide state and aliasing in the whole package
    def hidden_state_scan(self):
        """(mutableDefaults, argAliasMutations) over every module of the package
        mutableDefaults    `def f(..., p={})` / `[]` / `set()` / `dict()` / `list()`: ONE object shared by all calls of the
                           process -- a call that fills it leaks the circuit it worked on into later calls
        argAliasMutations  `x = <param>.<attr>` (no copy) followed by `x.<mutating method>(...)` or `x[...] = ...`: an object owned
                           by an ARGUMENT is changed by a function that is supposed to derive something new from it"""
        d = os.path.join(self.repo, 'lcapy')
        md, am = [], []
        for fn in sorted(os.listdir(d)):
            if not fn.endswith('.py'):
                continue
            try:
                with warnings.catch_warnings():
                    warnings.simplefilter('ignore')
                    tree = ast.parse(open(os.path.join(d, fn)).read())
            except Exception:
                self.unparsed.append('syntax:' + fn)
                continue
            for f in [n for n in ast.walk(tree) if isinstance(n, ast.FunctionDef)]:
                a = f.args
                allargs = a.posonlyargs + a.args
                defaults = list(zip(allargs[len(allargs) - len(a.defaults):], a.defaults)) + \
                    [(x, y) for x, y in zip(a.kwonlyargs, a.kw_defaults) if y is not None]
                for arg, dv in defaults:
                    if isinstance(dv, (ast.Dict, ast.List, ast.Set)) or (
                            isinstance(dv, ast.Call) and isinstance(dv.func, ast.Name) and dv.func.id in ('dict', 'list', 'set') and not dv.args):
                        md.append('%s:%s(%s=%s)' % (fn, f.name, arg.arg, ast.unparse(dv)))
                params = {x.arg for x in allargs + a.kwonlyargs if x.arg not in ('self', 'cls')}
                alias = {}
                for n in ast.walk(f):
                    if isinstance(n, ast.Assign) and len(n.targets) == 1 and isinstance(n.targets[0], ast.Name):
                        v = n.value
                        if isinstance(v, ast.Attribute) and isinstance(v.value, ast.Name) and v.value.id in params:
                            alias[n.targets[0].id] = ast.unparse(v)
                for n in ast.walk(f):
                    if isinstance(n, ast.Call) and isinstance(n.func, ast.Attribute) and n.func.attr in self.MUTATING + ('set',) \
                            and isinstance(n.func.value, ast.Name) and n.func.value.id in alias:
                        am.append('%s:%s: %s = %s; %s' % (fn, f.name, n.func.value.id, alias[n.func.value.id], ast.unparse(n)[:40]))
                    if isinstance(n, (ast.Assign, ast.AugAssign)):
                        for t in (n.targets if isinstance(n, ast.Assign) else [n.target]):
                            if isinstance(t, ast.Subscript) and isinstance(t.value, ast.Name) and t.value.id in alias:
                                am.append('%s:%s: %s = %s; %s' % (fn, f.name, t.value.id, alias[t.value.id], ast.unparse(n)[:40]))
        return md, am

    # ---- round 3: symbol registry
    def symbol_registry(self):
        """(deleteCleansKinds, contextsShareSymbols)
        deleteCleansKinds: after `symbol_delete(n)` the name is unknown again to `register(kind='expr')`: either the
          early return of `register` tests the registry itself (`name in self`), or both `SymbolRegistry.delete` and
          sym.py `symbol_delete` drop the name from `symbol_kinds`
        contextsShareSymbols: `State.new_context` gives every context the one process-wide registry"""
        d = os.path.join(self.repo, 'lcapy')
        cleans = False
        try:
            tree = ast.parse(open(os.path.join(d, 'symbolregistry.py')).read())
            reg_ok = del_ok = False
            for cls in [n for n in tree.body if isinstance(n, ast.ClassDef) and n.name == 'SymbolRegistry']:
                for f in [n for n in cls.body if isinstance(n, ast.FunctionDef)]:
                    if f.name == 'register':
                        tests = [ast.unparse(n.test) for n in ast.walk(f) if isinstance(n, ast.If) and "kind == 'expr'" in ast.unparse(n.test)]
                        if not tests:
                            reg_ok = True           # no early return at all: an expr symbol is always stored
                        else:
                            reg_ok = all('in symbol_kinds' not in t for t in tests)
                    if f.name == 'delete':
                        t = ast.unparse(f)
                        del_ok = 'symbol_kinds.pop' in t or 'del symbol_kinds' in t
            sd_ok = False
            tree2 = ast.parse(open(os.path.join(d, 'sym.py')).read())
            for f in [n for n in tree2.body if isinstance(n, ast.FunctionDef) and n.name == 'symbol_delete']:
                t = ast.unparse(f)
                sd_ok = '.delete(' in t or 'symbol_kinds.pop' in t
            cleans = reg_ok or (del_ok and sd_ok)
        except Exception:
            self.unparsed.append('symbolregistry.py')
        share = False
        try:
            tree = ast.parse(open(os.path.join(d, 'state.py')).read())
            for cls in [n for n in tree.body if isinstance(n, ast.ClassDef) and n.name == 'State']:
                for f in [n for n in cls.body if isinstance(n, ast.FunctionDef) and n.name == 'new_context']:
                    share = 'context.symbols = self.symbols' in ast.unparse(f)
        except Exception:
            self.unparsed.append('state.py:new_context')
        return cleans, share

    # ---- round 3: process-wide settings
    def settings(self):
        """(name, default, where) of the process-wide settings: constant attributes set in `State.__init__` (state.py)
        and module-level constants of config.py that some other module imports by name; plus, per setting, the modules
        that read it"""
        out = []
        d = os.path.join(self.repo, 'lcapy')
        try:
            tree = ast.parse(open(os.path.join(d, 'state.py')).read())
            for cls in [n for n in tree.body if isinstance(n, ast.ClassDef) and n.name == 'State']:
                for f in [n for n in cls.body if isinstance(n, ast.FunctionDef) and n.name == '__init__']:
                    for n in f.body:
                        if isinstance(n, ast.Assign) and len(n.targets) == 1 and isinstance(n.targets[0], ast.Attribute) \
                                and isinstance(n.targets[0].value, ast.Name) and n.targets[0].value.id == 'self':
                            v = n.value
                            if isinstance(v, ast.Constant) or isinstance(v, ast.Name):
                                out.append(('state.' + n.targets[0].attr, ast.unparse(v)))
        except Exception:
            self.unparsed.append('state.py')
        cfg_names = []
        try:
            tree = ast.parse(open(os.path.join(d, 'config.py')).read())
            for n in tree.body:
                if isinstance(n, ast.Assign) and len(n.targets) == 1 and isinstance(n.targets[0], ast.Name) \
                        and isinstance(n.value, ast.Constant) and not isinstance(n.value.value, (bytes,)):
                    cfg_names.append((n.targets[0].id, ast.unparse(n.value)))
        except Exception:
            self.unparsed.append('config.py')
        readers = {}
        for fn in sorted(os.listdir(d)):
            if not fn.endswith('.py') or fn in ('state.py', 'config.py'):
                continue
            try:
                src = open(os.path.join(d, fn)).read()
            except Exception:
                continue
            for (nm, _) in out:
                a = nm.split('.', 1)[1]
                if ('state.' + a) in src:
                    readers.setdefault(nm, []).append(fn)
            if 'config' in src:
                for (nm, _) in cfg_names:
                    if re.search(r'from \.config import[^\n]*\b%s\b' % re.escape(nm), src) or ('config.' + nm) in src:
                        readers.setdefault('config.' + nm, []).append(fn)
        res = [(nm, dv, readers.get(nm, [])) for (nm, dv) in out]
        res += [('config.' + nm, dv, readers.get('config.' + nm, [])) for (nm, dv) in cfg_names]
        return res

    # ---- transformers
    def transformers(self):
        out = []
        for fn in TRANSFORMER_FILES:
            path = os.path.join(self.repo, 'lcapy', fn)
            if not os.path.exists(path):
                continue
            try:
                with warnings.catch_warnings():
                    warnings.simplefilter('ignore')
                    tree = ast.parse(open(path).read())
            except SyntaxError:
                self.unparsed.append('syntax:' + fn)
                continue
            for cls in [n for n in tree.body if isinstance(n, ast.ClassDef)]:
                if not any('Transformer' in ast.unparse(b) for b in cls.bases):
                    continue
                keyf = None
                for f in cls.body:
                    if isinstance(f, ast.FunctionDef) and f.name == 'key':
                        keyf = f
                if keyf is None:
                    continue

                def pairs(node):
                    ps = []
                    for n in ast.walk(node):
                        if isinstance(n, ast.Call) and isinstance(n.func, ast.Attribute) and n.func.attr in ('get', 'pop') \
                                and isinstance(n.func.value, ast.Name) and n.func.value.id in ('kwargs', 'assumptions') \
                                and n.args and isinstance(n.args[0], ast.Constant):
                            d = ast.unparse(n.args[1]) if len(n.args) > 1 else 'None'
                            # defaults are compared by truth value (None / False / 0 behave alike in `if kwargs.get(...)`)
                            d = {'True': 'true', 'False': 'false', 'None': 'false', '0': 'false'}.get(d, d)
                            p = (n.args[0].value, d)
                            if p not in ps:
                                ps.append(p)
                        if isinstance(n, ast.Subscript) and isinstance(n.value, ast.Name) and n.value.id in ('kwargs', 'assumptions') \
                                and isinstance(n.slice, ast.Constant):
                            p = (n.slice.value, '<required>')
                            if p not in ps:
                                ps.append(p)
                    return ps
                # only the first `return` of key() is live
                rets = [n for n in ast.walk(keyf) if isinstance(n, ast.Return)]
                kp = pairs(rets[0]) if rets else []
                rp = []
                for f in cls.body:
                    if isinstance(f, ast.FunctionDef) and f.name not in ('key',):
                        for p in pairs(f):
                            if p[0] in ('pdb', 'debug'):
                                continue
                            if p not in rp:
                                rp.append(p)
                # keyword parameters of methods that are called with `**kwargs` inside the class
                # (e.g. derivative_undef(self, expr, t, s, zero_initial_conditions=True))
                fwd = set()
                for f in cls.body:
                    if isinstance(f, ast.FunctionDef):
                        for n in ast.walk(f):
                            if isinstance(n, ast.Call) and isinstance(n.func, ast.Attribute) and isinstance(n.func.value, ast.Name) \
                                    and n.func.value.id == 'self' and any(k.arg is None and isinstance(k.value, ast.Name)
                                                                         and k.value.id in ('kwargs', 'assumptions') for k in n.keywords):
                                fwd.add(n.func.attr)
                for f in cls.body:
                    if isinstance(f, ast.FunctionDef) and f.name in fwd and f.name != 'key':
                        a = f.args
                        pos = a.args[len(a.args) - len(a.defaults):] if a.defaults else []
                        for arg, d in list(zip(pos, a.defaults)) + [(x, y) for x, y in zip(a.kwonlyargs, a.kw_defaults) if y is not None]:
                            dv = ast.unparse(d)
                            dv = {'True': 'true', 'False': 'false', 'None': 'false', '0': 'false'}.get(dv, dv)
                            p = (arg.arg, dv)
                            if arg.arg not in ('pdb', 'debug') and p not in rp:
                                rp.append(p)
                out.append((cls.name, fn, kp, rp))
        return out


def harness_query_names():
    """the query / transformation names harness/c16.py asks, read from its source text (literal lists), mapped to model names"""
    path = os.path.join(os.path.dirname(os.path.dirname(os.path.abspath(__file__))), 'c16.py')
    try:
        tree = ast.parse(open(path).read())
    except Exception:
        return list(QUERIES)
    vals = {}
    for n in tree.body:
        if isinstance(n, ast.Assign) and len(n.targets) == 1 and isinstance(n.targets[0], ast.Name):
            nm = n.targets[0].id
            if nm in ('LIST_QUERIES', 'BOOL_QUERIES', 'GRAPH_QUERIES', 'SOLVE_QUERIES', 'HEAVY_QUERIES', 'DERIVES', 'EXTRA_DERIVES', 'MODEL_QUERY'):
                try:
                    vals[nm] = ast.literal_eval(n.value)
                except Exception:
                    pass
    names = []
    for k in ('LIST_QUERIES', 'BOOL_QUERIES', 'SOLVE_QUERIES', 'HEAVY_QUERIES', 'DERIVES', 'EXTRA_DERIVES'):
        names += list(vals.get(k, []))
    names += [g[0] for g in vals.get('GRAPH_QUERIES', [])]
    mq = vals.get('MODEL_QUERY', {})
    return sorted(set(mq.get(q, q) for q in names + ['battery']))


def generate(repo, harness_queries=None):
    sc = Scan(repo)
    cleared = sc.cleared()
    muts = sc.mutators()
    memo = [(s,) + sc.memo[s] for s in sc.memo_order]
    deps = [(s, sc.direct_deps(s)) for s in sc.memo_order]
    reads = []
    missing = []
    for q in QUERIES:
        if q not in sc.members and q not in sc.memo:
            missing.append(q)
            continue
        reads.append((q, sc.closure(q)))
    for q in missing:
        sc.unparsed.append('query-not-found:' + q)
    # every public member of the netlist classes gets a row too (`publicReads`, in the order of `publicMembers`): a member
    # without a row is not silently pure
    public = sc.public_members()
    public_reads = [(q, sc.closure(q)) for q in public]
    writes = []
    ground_adders = []
    for q in public:
        w, seen = sc.member_writes(q)
        writes.append((q, w))
        if '_add_ground' in seen:
            ground_adders.append(q)
    public_mutators = [m for m in public if m in ('add', 'remove', 'netfile_add')]
    hq = list(harness_queries) if harness_queries is not None else harness_query_names()
    bat = []
    rd = dict(reads)
    for q in BATTERY:
        for d in rd.get(q, []):
            if d not in bat:
                bat.append(d)
    reads.append(('battery', bat))
    rd = dict(reads)
    prd = dict(public_reads)
    harness_reads = [(q, rd.get(q, prd.get(q))) for q in hq if q in rd or q in prd]
    info_missing_rows = [q for q in hq if q not in rd and q not in prd]
    for q in info_missing_rows:
        sc.unparsed.append('harness-query-without-row:' + q)
    spawns = [s for s in sc.memo_order if sc.reaches(s, '_new')]
    spawn_members = [q for q in QUERIES if q in sc.members and q not in sc.memo and sc.reaches(q, '_new')]
    init_inv = False
    for (fn, cls) in sc.byclass.get('Netlist', []):
        for f in cls.body:
            if isinstance(f, ast.FunctionDef) and f.name == '__init__':
                init_inv = sc.calls_self(f, '_invalidate')
    detach = sc.override_detaches()
    keepn = sc.keep_connected_node()
    sites = sc.set_iteration_sites()
    trs = sc.transformers()
    mutd = {m[0]: m[1] for m in muts}
    rsel = sc.detach_selection('remove')
    osel = sc.detach_selection('_cpt_add', True) if detach else 'all'
    rules = sc.grammar_rules()
    restores_on_err, inv_on_err = sc.add_error_handling()
    ctor_safe, reg_safe = sc.failed_add_detaches()
    reserved = sc.reserved_names()
    handouts, mutations, damages = sc.shared_cached_objects()
    settings = sc.settings()
    del_cleans, ctx_share = sc.symbol_registry()
    mut_defaults, arg_alias = sc.hidden_state_scan()
    info = {'memoised': [m[0] for m in memo], 'cleared': cleared,
            'not_cleared': [m[0] for m in memo if m[0] not in cleared],
            'mutators': muts, 'initInvalidates': init_inv, 'overrideDetaches': detach, 'keepConnectedNode': keepn,
            'deps': deps, 'reads': reads, 'spawns': spawns, 'setIterationSites': sites,
            'transformers': [(t[0], t[2], t[3]) for t in trs], 'unparsed': sc.unparsed,
            'removeSel': rsel, 'overrideSel': osel, 'rules': len(rules),
            'addRestoresContextOnError': restores_on_err, 'addInvalidatesOnError': inv_on_err,
            'ctorDetachesOnError': ctor_safe, 'registerDetachesOnError': reg_safe,
            'sharedHandouts': handouts, 'sharedMutations': mutations, 'damages': damages,
            'settings': [(a, b) for (a, b, c) in settings if c], 'reserved': len(reserved),
            'deleteCleansKinds': del_cleans, 'contextsShareSymbols': ctx_share,
            'mutableDefaults': mut_defaults, 'argAliasMutations': arg_alias,
            'publicMembers': len(public), 'groundAdders': ground_adders,
            'membersWritingState': [(q, w) for (q, w) in writes if w and q not in public_mutators and q not in ground_adders]}

    kindmap = {'lru': '.lru', 'cprop': '.cprop', 'hasattr': '.hasattr'}
    L = []
    L.append('/-')
    L.append('  GENERATED by harness/translate/tx_caches.py from the source text of /repo/lcapy/{%s}' % ', '.join(FILES))
    L.append('  and the transformer modules -- do not edit.')
    for u in sc.unparsed:
        L.append('  translator-unparsed: ' + u)
    L.append('-/')
    L.append('import Lcapy.Model.Cache')
    L.append('namespace Lcapy.Gen.Caches')
    L.append('open Lcapy.Cache')
    L.append('')
    L.append('/-- memoised members: slot, kind  (where found is in the comment) -/')
    L.append('def memoised : List (String × MemoKind) := [')
    L.append(',\n'.join('  (%s, %s)  /- %s %s.%s %s -/' % (lstr(m[0]), kindmap[m[1]], m[2], m[3], m[4], ('maxsize ' + m[5]) if m[5] else '')
                        for m in memo))
    L.append(']')
    L.append('')
    L.append('/-- slots dropped by `_invalidate` -/')
    L.append('def cleared : List String := ' + llist([lstr(c) for c in cleared]))
    L.append('')
    L.append('/-- members that change `_elements`, and whether they call `self._invalidate()` -/')
    L.append('def mutators : List (String × Bool) := ' + llist(['(%s, %s)' % (lstr(m[0]), 'true' if m[1] else 'false') for m in muts]))
    L.append('')
    L.append('/-- direct memo dependencies of each memoised member -/')
    L.append('def deps : List (String × List String) := ' + llist(['(%s, %s)' % (lstr(s), llist([lstr(d) for d in ds])) for (s, ds) in deps]))
    L.append('')
    def rows(tab):
        return ',\n'.join('  (%s, %s)' % (lstr(q), llist([lstr(d) for d in ds])) for (q, ds) in tab)
    L.append('/-- memo slots touched (dependencies first) by the queries the harness asks, in the order of `harnessQueries` -/')
    L.append('def harnessReads : List (String × List String) := [')
    L.append(rows(harness_reads))
    L.append(']')
    L.append('')
    L.append('/-- ... by the other queries / operations known to the translator -/')
    L.append('def queryReads : List (String × List String) := [')
    L.append(rows(reads))
    L.append(']')
    L.append('')
    L.append('/-- ... and by EVERY public member of the netlist classes, in the order of `publicMembers` -/')
    L.append('def publicReads : List (String × List String) := [')
    L.append(rows(public_reads))
    L.append(']')
    L.append('')
    L.append('/-- memo slots touched (dependencies first) by each public query / operation -/')
    L.append('def reads : List (String × List String) := harnessReads ++ queryReads ++ publicReads')
    L.append('')
    L.append('/-- memoised members / operations that create a new Netlist while running -/')
    L.append('def spawns : List String := ' + llist([lstr(s) for s in spawns + spawn_members]))
    L.append('')
    L.append('/-- (public member, slot): the member hands the cached object of `slot` to code that mutates it -/')
    L.append('def damages : List (String × String) := ' + llist(['(%s, %s)' % (lstr(a), lstr(b)) for (a, b) in damages]))
    L.append('')
    L.append('def config : Config where')
    L.append('  memoised := memoised')
    L.append('  cleared := cleared')
    add1, addn = sc.add_invalidate_mode()
    info['addInvalidates'] = [add1, addn]
    L.append('  addInvalidates := %s' % ('true' if add1 else 'false'))
    L.append('  addMultiInvalidates := %s' % ('true' if addn else 'false'))
    L.append('  removeInvalidates := %s' % ('true' if mutd.get('remove') else 'false'))
    L.append('  initInvalidates := %s' % ('true' if init_inv else 'false'))
    L.append('  overrideDetaches := %s' % ('true' if detach else 'false'))
    L.append('  keepConnectedNode := %s' % ('true' if keepn else 'false'))
    L.append('  deps := deps')
    L.append('  reads := reads')
    L.append('  spawns := spawns')

    def sel(x):
        if x == 'all':
            return '.all'
        if x is None:
            return '.slice 0 (some 0)   /- not understood: see translator-unparsed -/'
        return '.slice %d %s' % (x[0], 'none' if x[1] is None else '(some %d)' % x[1])
    L.append('  removeSel := ' + sel(rsel))
    L.append('  overrideSel := ' + sel(osel))
    L.append('  damages := damages')
    L.append('  failedAddDetaches := %s' % ('true' if (ctor_safe and reg_safe) else 'false'))
    L.append('  addInvalidatesOnError := %s' % ('true' if inv_on_err else 'false'))
    L.append('')
    L.append('/-- `add` restores the symbol context (`state.restore_context()`) also when `_add` raises -/')
    L.append('def addRestoresContextOnError : Bool := %s' % ('true' if restores_on_err else 'false'))
    L.append('')
    L.append('/-- the public members (methods and properties) of the netlist classes -/')
    L.append('def publicMembers : List String := ' + llist([lstr(x) for x in public]))
    L.append('')
    L.append('/-- the queries the harness asks (model names) -/')
    L.append('def harnessQueries : List String := ' + llist([lstr(x) for x in hq]))
    L.append('')
    L.append('/-- per public member: the instance state OTHER than memo slots it writes (directly or through the members it calls) -/')
    L.append('def memberWrites : List (String × List String) := [')
    L.append(',\n'.join('  (%s, %s)' % (lstr(q), llist([lstr(x) for x in w])) for (q, w) in writes))
    L.append(']')
    L.append('')
    L.append('/-- public members that reach `_add_ground` (a circuit WITHOUT node 0 gets a wire `W <node> 0` added, with a warning) -/')
    L.append('def groundAdders : List String := ' + llist([lstr(x) for x in ground_adders]))
    L.append('')
    L.append('/-- public members whose purpose is to change the netlist -/')
    L.append('def publicMutators : List String := ' + llist([lstr(x) for x in public_mutators]))
    L.append('')
    L.append('/-- functions of the package with a mutable default argument (one object shared by every call of the process) -/')
    L.append('def mutableDefaults : List String := ' + llist([lstr(x) for x in mut_defaults]))
    L.append('')
    L.append('/-- functions that mutate an object owned by one of their ARGUMENTS through an un-copied alias -/')
    L.append('def argAliasMutations : List String := ' + llist([lstr(x) for x in arg_alias]))
    L.append('')
    L.append('/-- after `symbol_delete(n)` the name is unknown again to `SymbolRegistry.register(kind=\'expr\')` -/')
    L.append('def deleteCleansKinds : Bool := %s' % ('true' if del_cleans else 'false'))
    L.append('')
    L.append('/-- `State.new_context`: every context shares the one process-wide symbol registry -/')
    L.append('def contextsShareSymbols : Bool := %s' % ('true' if ctx_share else 'false'))
    L.append('')
    L.append('/-- `Cpt.__init__` leaves no node attachment behind when it raises / `_add` detaches when `_cpt_add` raises -/')
    L.append('def ctorDetachesOnError : Bool := %s' % ('true' if ctor_safe else 'false'))
    L.append('def registerDetachesOnError : Bool := %s' % ('true' if reg_safe else 'false'))
    L.append('')
    L.append('/-- grammar.py, rule by rule: component type and the kind of each field after the name')
    L.append('    (`n` node / pin, `k:<kw>` keyword, `x` name or value; a trailing `?` marks an optional field) -/')
    L.append('def rules : List (String × List String) := [')
    L.append(',\n'.join('  (%s, %s)' % (lstr(t), llist([lstr(c) for c in cs])) for (t, cs) in rules))
    L.append(']')
    L.append('')
    L.append('/-- names `hasattr(netlist, name)` finds (members of the netlist classes): not available as component names -/')
    L.append('def reserved : List String := ' + llist([lstr(r) for r in reserved]))
    L.append('')
    L.append('/-- helper classes that keep a reference to a cached object of the netlist they are given:')
    L.append('    (class, where it is kept, accessor used, memo slot) -/')
    L.append('def sharedHandouts : List (String × String × String × String) := ' +
             llist(['(%s, %s, %s, %s)' % tuple(lstr(x) for x in h) for h in handouts]))
    L.append('')
    L.append('/-- ... and call a mutating method on it / assign into it: (class, method, object, memo slot, call) -/')
    L.append('def sharedMutations : List (String × String × String × String × String) := ' +
             llist(['(%s, %s, %s, %s, %s)' % tuple(lstr(x) for x in m) for m in mutations]))
    L.append('')
    readers = []
    for (a, b, c) in settings:
        if a.startswith('state.'):
            for m in c:
                if m not in readers:
                    readers.append(m)
    info['stateSettingReaders'] = readers
    L.append('/-- the modules that read a `state.<setting>` -/')
    L.append('def stateSettingReaders : List String := ' + llist([lstr(r) for r in readers]))
    L.append('')
    L.append('/-- process-wide settings (state.py `State.__init__`, config.py) that some module reads: (name, default, readers) -/')
    L.append('def settings : List (String × String × List String) := [')
    L.append(',\n'.join('  (%s, %s, %s)' % (lstr(a), lstr(b), llist([lstr(x) for x in c])) for (a, b, c) in settings if c))
    L.append(']')
    L.append('')
    L.append('/-- per transformer class: (kwarg, default) pairs used by `key()` and pairs read elsewhere in the class -/')
    L.append('def transformers : List (String × List (String × String) × List (String × String)) := [')
    L.append(',\n'.join('  (%s, %s, %s)' % (lstr(t[0]), llist(['(%s, %s)' % (lstr(a), lstr(b)) for (a, b) in t[2]]),
                                             llist(['(%s, %s)' % (lstr(a), lstr(b)) for (a, b) in t[3]])) for t in trs))
    L.append(']')
    L.append('')
    L.append('/-- conversions of a set to a list in the simplify mixin (iteration order = hash order) -/')
    L.append('def setIterationSites : List String := ' + llist([lstr(s) for s in sites]))
    L.append('')
    L.append('/-- those of them that are not sorted: the resulting order is the hash order -/')
    L.append('def hashOrderSites : List String := ' + llist([lstr(s) for s in sites if ':list(' in s or '.pop()' in s]))
    L.append('')
    L.append('end Lcapy.Gen.Caches')
    return '\n'.join(L) + '\n', info


if __name__ == '__main__':
    import json
    import sys
    text, info = generate(sys.argv[1] if len(sys.argv) > 1 else '/repo')
    if len(sys.argv) > 2:
        open(sys.argv[2], 'w').write(text)
    print(json.dumps(info, indent=1))
