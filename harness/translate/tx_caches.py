"""tx_caches: regenerate lean/Lcapy/Generated/Caches.lean from the *source text* of
lcapy/netlist.py, netlistmixin.py, netfile.py, netlistopsmixin.py, netlistsimplifymixin.py,
(mna.py), and the transformer modules.

What is read (Python `ast`, nothing is executed):

  memoised      members decorated `@lru_cache(n)` / `@cached_property`, and `hasattr(self, '_x')`
                memo patterns (the attribute `_x` is the slot; the enclosing property its accessor)
  cleared       the slots `_invalidate` drops: strings of a tuple iterated with
                `getattr(self, c).cache_clear()`, `self.m.cache_clear()`, `del self.x`,
                `delattr(self, 'x')`, `self.__dict__.pop('x', ...)`
  mutators      members that change `_elements` (directly or through `_add`/`_cpt_add`) and
                whether they call `self._invalidate()`
  initInvalidates      `Netlist.__init__` calls `self._invalidate()` (cache_clear is class wide, so
                creating any netlist empties every class-level lru slot named in `cleared`)
  overrideDetaches     `_cpt_add`, in the branch `if cpt.name in self._elements`, detaches the old
                component from its nodes (a call `<x>.remove(...)` in that branch)
  reads         for every memoised member and every public query the harness asks: the memo slots
                reached through `self.<member>` chains (stopping at memoised members), deps first
  spawns        members that create a new Netlist (`self._new()` reached through `self.` chains)
  transformers  per transformer class: the `(kwarg, default)` pairs its `key()` looks at and the
                pairs read anywhere else in the class
  setIterationSites    `list(<set-valued name>)` conversions in the simplify mixin (F7)

Anything not understood is listed in `unparsed` (and in the generated file as a comment); the
obligations then rest on the correspondence for that item.
"""
import ast
import os
import warnings

FILES = ['netlist.py', 'netlistmixin.py', 'netfile.py', 'netlistopsmixin.py', 'netlistsimplifymixin.py', 'mna.py']
# class resolution order of `Circuit` restricted to the scanned files
CLASS_ORDER = ['Netlist', 'NetlistOpsMixin', 'NetlistMixin', 'NetlistSimplifyMixin', 'NetfileMixin']
TRANSFORMER_FILES = ['laplace.py', 'inverse_laplace.py', 'fourier.py', 'inverse_fourier.py', 'ztransform.py',
                     'inverse_ztransform.py', 'dtft.py', 'inverse_dtft.py', 'dft.py', 'inverse_dft.py',
                     'hilbert.py', 'inverse_hilbert.py']
# public members the harness queries / operations it performs (their memo closure is generated)
QUERIES = ['capacitors', 'inductors', 'voltage_sources', 'current_sources', 'components',
           'has_dc', 'has_ac', 'is_dc', 'is_ac', 'is_causal', 'is_IVP', 'reactances', 'independent_sources',
           'is_connected', 'node_list', 'branch_list', 'node_map', 'cpts', 'sub', 'kinds', 'sim',
           'get_Vd', 'get_I', 'Vdict', 'Idict', 'analyse', 'circuit_graph', 'modified_nodal_analysis',
           'nodal_analysis', 'mesh_analysis', 'unconnected_nodes', 'netlist',
           'copy', 'subs', 'kill', 'select', 'simplify', 'remove_dangling', 'expand', 'state_space', 'transfer']


def lstr(s):
    return '"' + s.replace('\\', '\\\\').replace('"', '\\"') + '"'


def llist(xs):
    return '[' + ', '.join(xs) + ']'


class Scan:
    def __init__(self, repo):
        self.repo = repo
        self.unparsed = []
        self.members = {}        # name -> (file, class, FunctionDef)   first in CLASS_ORDER wins
        self.memo = {}           # slot -> (kind, file, class, accessor, maxsize)
        self.memo_order = []
        byclass = {}
        for fn in FILES:
            path = os.path.join(repo, 'lcapy', fn)
            if not os.path.exists(path):
                self.unparsed.append('missing-file:' + fn)
                continue
            try:
                with warnings.catch_warnings():
                    warnings.simplefilter('ignore')
                    tree = ast.parse(open(path).read())
            except SyntaxError as e:
                self.unparsed.append('syntax:%s:%s' % (fn, e))
                continue
            for cls in [n for n in tree.body if isinstance(n, ast.ClassDef)]:
                byclass.setdefault(cls.name, []).append((fn, cls))
        self.byclass = byclass
        for cname in CLASS_ORDER:
            for (fn, cls) in byclass.get(cname, []):
                for f in [n for n in cls.body if isinstance(n, ast.FunctionDef)]:
                    # property setters share the name; keep the first (getter)
                    if f.name not in self.members:
                        self.members[f.name] = (fn, cname, f)
        for cname in CLASS_ORDER:
            for (fn, cls) in byclass.get(cname, []):
                for f in [n for n in cls.body if isinstance(n, ast.FunctionDef)]:
                    self.scan_memo(fn, cname, f)

    # ---- memoised members
    def scan_memo(self, fn, cname, f):
        for d in f.decorator_list:
            txt = ast.unparse(d)
            if 'lru_cache' in txt:
                size = ''
                if isinstance(d, ast.Call) and d.args:
                    size = ast.unparse(d.args[0])
                self.add_memo(f.name, 'lru', fn, cname, f.name, size or 'None')
            elif 'cached_property' in txt:
                self.add_memo(f.name, 'cprop', fn, cname, f.name, '')
        for n in ast.walk(f):
            if (isinstance(n, ast.Call) and getattr(n.func, 'id', None) == 'hasattr' and len(n.args) == 2
                    and isinstance(n.args[0], ast.Name) and n.args[0].id == 'self'
                    and isinstance(n.args[1], ast.Constant) and isinstance(n.args[1].value, str)):
                attr = n.args[1].value
                assigned = any(isinstance(a, ast.Assign) and any(
                    isinstance(t, ast.Attribute) and t.attr == attr and isinstance(t.value, ast.Name) and t.value.id == 'self'
                    for t in a.targets) for a in ast.walk(f))
                if assigned:
                    self.add_memo(attr, 'hasattr', fn, cname, f.name, '')

    def add_memo(self, slot, kind, fn, cname, accessor, size):
        if slot not in self.memo:
            self.memo[slot] = (kind, fn, cname, accessor, size)
            self.memo_order.append(slot)

    # ---- what _invalidate clears
    def cleared(self):
        ent = self.members.get('_invalidate')
        if ent is None:
            self.unparsed.append('no-_invalidate')
            return []
        f = ent[2]
        out = []

        def add(x):
            if x not in out:
                out.append(x)
        loops = {}
        for n in ast.walk(f):
            if isinstance(n, ast.Assign) and isinstance(n.value, (ast.Tuple, ast.List)) and len(n.targets) == 1 \
                    and isinstance(n.targets[0], ast.Name):
                vals = [e.value for e in n.value.elts if isinstance(e, ast.Constant) and isinstance(e.value, str)]
                loops[n.targets[0].id] = vals
        for n in ast.walk(f):
            if isinstance(n, ast.For) and isinstance(n.target, ast.Name):
                it = n.iter
                vals = None
                if isinstance(it, ast.Name) and it.id in loops:
                    vals = loops[it.id]
                elif isinstance(it, (ast.Tuple, ast.List)):
                    vals = [e.value for e in it.elts if isinstance(e, ast.Constant) and isinstance(e.value, str)]
                if vals is None:
                    continue
                body = ' '.join(ast.unparse(b) for b in n.body)
                v = n.target.id
                if ('getattr(self, %s).cache_clear()' % v) in body or ('delattr(self, %s)' % v) in body \
                        or ('self.__dict__.pop(%s' % v) in body:
                    for x in vals:
                        add(x)
                else:
                    self.unparsed.append('_invalidate-loop:' + body[:60])
            elif isinstance(n, ast.Delete):
                for t in n.targets:
                    if isinstance(t, ast.Attribute) and isinstance(t.value, ast.Name) and t.value.id == 'self':
                        add(t.attr)
            elif isinstance(n, ast.Call):
                fu = n.func
                if isinstance(fu, ast.Attribute) and fu.attr == 'cache_clear' and isinstance(fu.value, ast.Attribute) \
                        and isinstance(fu.value.value, ast.Name) and fu.value.value.id == 'self':
                    add(fu.value.attr)
                elif isinstance(fu, ast.Name) and fu.id == 'delattr' and len(n.args) == 2 \
                        and isinstance(n.args[1], ast.Constant):
                    add(n.args[1].value)
                elif isinstance(fu, ast.Attribute) and fu.attr == 'pop' and ast.unparse(fu.value) == 'self.__dict__' \
                        and n.args and isinstance(n.args[0], ast.Constant):
                    add(n.args[0].value)
        return out

    # ---- classes of other lcapy modules that are handed `self` (CircuitGraph.from_circuit(self), Analysis(self, ...))
    def ext_class(self, cname):
        if not hasattr(self, '_ext'):
            self._ext = {}
            d = os.path.join(self.repo, 'lcapy')
            for fn in sorted(os.listdir(d)):
                if not fn.endswith('.py'):
                    continue
                try:
                    src = open(os.path.join(d, fn)).read()
                    if 'class ' not in src:
                        continue
                    with warnings.catch_warnings():
                        warnings.simplefilter('ignore')
                        tree = ast.parse(src)
                except Exception:
                    continue
                for cls in [n for n in tree.body if isinstance(n, ast.ClassDef)]:
                    self._ext.setdefault(cls.name, {f.name: f for f in cls.body if isinstance(f, ast.FunctionDef)})
        return self._ext.get(cname)

    def ext_refs(self, call):
        """attributes of the netlist read by an external constructor / classmethod that receives `self`"""
        pos = [k for k, a in enumerate(call.args) if isinstance(a, ast.Name) and a.id == 'self']
        if not pos:
            return []
        fu = call.func
        if isinstance(fu, ast.Name):
            cname, meth, shift = fu.id, '__init__', 1
        elif isinstance(fu, ast.Attribute) and isinstance(fu.value, ast.Name) and fu.value.id[:1].isupper():
            cname, meth, shift = fu.value.id, fu.attr, 1       # classmethod: first parameter is cls
        else:
            return []
        cls = self.ext_class(cname)
        if cls is None or cname in CLASS_ORDER or meth not in cls:
            return []
        f = cls[meth]
        params = [a.arg for a in f.args.args]
        out = []
        for k in pos:
            if k + shift >= len(params):
                continue
            pn = params[k + shift]
            for n in ast.walk(f):
                if isinstance(n, ast.Attribute) and isinstance(n.value, ast.Name) and n.value.id == pn and n.attr not in out:
                    out.append(n.attr)
        return out

    # ---- self.<attr> references
    def selfrefs(self, f):
        refs = []
        if f.name == '_invalidate':        # drops slots, does not read them
            return refs
        for n in ast.walk(f):
            if isinstance(n, ast.Attribute) and isinstance(n.value, ast.Name) and n.value.id == 'self' \
                    and not isinstance(n.ctx, ast.Del):
                if n.attr not in refs:
                    refs.append(n.attr)
            if isinstance(n, ast.Call):
                for r in self.ext_refs(n):
                    if r not in refs:
                        refs.append(r)
        return refs

    def calls_self(self, f, name):
        for n in ast.walk(f):
            if isinstance(n, ast.Call) and isinstance(n.func, ast.Attribute) and n.func.attr == name \
                    and isinstance(n.func.value, ast.Name) and n.func.value.id == 'self':
                return True
        return False

    def closure(self, start, include_start_slot=True):
        """memo slots reached from member/slot `start`, dependencies first"""
        out = []
        seen = set()

        def body_of(name):
            # the function whose body computes `name` (for a hasattr slot: its accessor)
            if name in self.memo:
                acc = self.memo[name][3]
                return self.members.get(acc, (None, None, None))[2]
            return self.members.get(name, (None, None, None))[2]

        def visit(name, top):
            if name in seen:
                return
            seen.add(name)
            f = body_of(name)
            if f is not None:
                for r in self.selfrefs(f):
                    if r == name:
                        continue
                    if r in self.memo or r in self.members:
                        # a hasattr accessor refers to its own slot: handled by the slot itself
                        if name in self.memo and self.memo[name][3] == r:
                            continue
                        visit(r, False)
            if name in self.memo and (include_start_slot or not top):
                out.append(name)

        visit(start, True)
        return out

    def direct_deps(self, slot):
        """memo slots read directly (through non-memoised members) while computing `slot`"""
        out = []
        seen = set()
        acc = self.memo[slot][3]
        f0 = self.members.get(acc, (None, None, None))[2]

        def visit(f):
            for r in self.selfrefs(f):
                if r == slot or r == acc:
                    continue
                if r in seen:
                    continue
                seen.add(r)
                if r in self.memo:
                    out.append(r)
                elif r in self.members:
                    visit(self.members[r][2])
        if f0 is not None:
            visit(f0)
        return out

    def reaches(self, start, target):
        seen = set()

        def visit(name):
            if name in seen:
                return False
            seen.add(name)
            ent = self.members.get(name)
            if name in self.memo:
                ent = self.members.get(self.memo[name][3])
            if ent is None:
                return False
            for r in self.selfrefs(ent[2]):
                if r == target:
                    return True
                if r in self.members and r not in self.memo and visit(r):
                    return True
            return False
        return visit(start)

    # ---- mutators
    def mutators(self):
        out = []
        for name, (fn, cname, f) in self.members.items():
            direct = False
            for n in ast.walk(f):
                if isinstance(n, ast.Subscript) and ast.unparse(n.value) == 'self._elements' and isinstance(n.ctx, (ast.Store, ast.Del)):
                    direct = True
                if isinstance(n, ast.Call) and isinstance(n.func, ast.Attribute) and n.func.attr in ('pop', 'popitem', 'clear') \
                        and ast.unparse(n.func.value) == 'self._elements':
                    direct = True
            via = self.calls_self(f, '_add') or self.calls_self(f, '_cpt_add')
            if direct or via:
                out.append((name, self.calls_self(f, '_invalidate'), 'direct' if direct else 'via-_add'))
        return out

    def add_invalidate_mode(self):
        """(single, multi): is `self._invalidate()` in `add` reached after adding one line / after adding a
        multi-line string (for which `_add` returns None)?  Top-level statement: both.  Inside
        `if <var> is not None` / `if <var>` where <var> holds the result of `self._add(...)`: single line only.
        Under any other condition: neither is assumed (recorded as unparsed)."""
        ent = self.members.get('add')
        if ent is None:
            self.unparsed.append('no-add')
            return (False, False)
        f = ent[2]
        addvars = set()
        for n in ast.walk(f):
            if isinstance(n, ast.Assign) and isinstance(n.value, ast.Call) and isinstance(n.value.func, ast.Attribute) \
                    and n.value.func.attr == '_add' and len(n.targets) == 1 and isinstance(n.targets[0], ast.Name):
                addvars.add(n.targets[0].id)

        def is_inv(st):
            return isinstance(st, ast.Expr) and isinstance(st.value, ast.Call) and isinstance(st.value.func, ast.Attribute) \
                and st.value.func.attr == '_invalidate' and isinstance(st.value.func.value, ast.Name) and st.value.func.value.id == 'self'
        for st in f.body:
            if is_inv(st):
                return (True, True)
        for st in f.body:
            if isinstance(st, ast.If) and any(is_inv(x) for x in st.body):
                t = ast.unparse(st.test).replace(' ', '')
                if any(t in (v + 'isnotNone', v, v + '!=None') for v in addvars):
                    return (True, False)
                self.unparsed.append('add:_invalidate under condition ' + t)
                return (False, False)
        if any(is_inv(x) for x in ast.walk(f) if isinstance(x, ast.Expr)):
            self.unparsed.append('add:_invalidate nested')
        return (False, False)

    def override_detaches(self):
        ent = self.members.get('_cpt_add')
        if ent is None:
            self.unparsed.append('no-_cpt_add')
            return False
        for n in ast.walk(ent[2]):
            if isinstance(n, ast.If) and 'in self._elements' in ast.unparse(n.test) and 'not in' not in ast.unparse(n.test):
                for b in n.body:
                    for c in ast.walk(b):
                        if isinstance(c, ast.Call) and isinstance(c.func, ast.Attribute) and c.func.attr in ('remove', '_detach', 'detach'):
                            return True
                return False
        self.unparsed.append('_cpt_add-no-override-branch')
        return False

    def keep_connected_node(self):
        """node.py `Node.remove`: is the `_delete` of a node whose count reached zero guarded by a test of
        its remaining connections?  (otherwise `Nodes._delete` raises half way through `Netlist.remove`)"""
        path = os.path.join(self.repo, 'lcapy', 'node.py')
        try:
            with warnings.catch_warnings():
                warnings.simplefilter('ignore')
                tree = ast.parse(open(path).read())
        except Exception:
            self.unparsed.append('node.py')
            return False
        for cls in [n for n in tree.body if isinstance(n, ast.ClassDef) and n.name == 'Node']:
            for f in [n for n in cls.body if isinstance(n, ast.FunctionDef) and n.name == 'remove']:
                for n in ast.walk(f):
                    if isinstance(n, ast.If) and any(isinstance(c, ast.Call) and isinstance(c.func, ast.Attribute) and c.func.attr == '_delete'
                                                     for b in n.body for c in ast.walk(b)):
                        return 'connected' in ast.unparse(n.test)
                self.unparsed.append('Node.remove:no-_delete-branch')
                return False
        self.unparsed.append('node.py:no-Node.remove')
        return False

    def set_iteration_sites(self):
        """places where the simplify machinery takes elements of a Python set in iteration (= hash) order:
        `list(<set>)`, `sorted(<set>)` (harmless, listed for the record) and `<set>.pop()` that picks the
        next group to process (simplify mixin and NetlistMixin._find_combine_subsets)"""
        sites = []
        funcs = []
        for (fn, cls) in self.byclass.get('NetlistSimplifyMixin', []):
            funcs += [n for n in cls.body if isinstance(n, ast.FunctionDef)]
        for nm in ('_find_combine_subsets',):
            if nm in self.members:
                funcs.append(self.members[nm][2])
        for f in funcs:
            for n in ast.walk(f):
                if isinstance(n, ast.Call) and isinstance(n.func, ast.Name) and n.func.id in ('list', 'sorted') and len(n.args) >= 1 \
                        and isinstance(n.args[0], ast.Name) and ('set' in n.args[0].id):
                    sites.append('%s:%s(%s)' % (f.name, n.func.id, n.args[0].id))
            if f.name == '_find_combine_subsets':
                # the popped name decides which type group enters the result dict first
                for n in ast.walk(f):
                    if isinstance(n, ast.Assign) and isinstance(n.value, ast.Call) and isinstance(n.value.func, ast.Attribute) \
                            and n.value.func.attr == 'pop' and not n.value.args and isinstance(n.value.func.value, ast.Name) \
                            and 'set' in n.value.func.value.id:
                        sites.append('%s:%s.pop()' % (f.name, n.value.func.value.id))
        return sites

    # ---- transformers
    def transformers(self):
        out = []
        for fn in TRANSFORMER_FILES:
            path = os.path.join(self.repo, 'lcapy', fn)
            if not os.path.exists(path):
                continue
            try:
                with warnings.catch_warnings():
                    warnings.simplefilter('ignore')
                    tree = ast.parse(open(path).read())
            except SyntaxError:
                self.unparsed.append('syntax:' + fn)
                continue
            for cls in [n for n in tree.body if isinstance(n, ast.ClassDef)]:
                if not any('Transformer' in ast.unparse(b) for b in cls.bases):
                    continue
                keyf = None
                for f in cls.body:
                    if isinstance(f, ast.FunctionDef) and f.name == 'key':
                        keyf = f
                if keyf is None:
                    continue

                def pairs(node):
                    ps = []
                    for n in ast.walk(node):
                        if isinstance(n, ast.Call) and isinstance(n.func, ast.Attribute) and n.func.attr in ('get', 'pop') \
                                and isinstance(n.func.value, ast.Name) and n.func.value.id in ('kwargs', 'assumptions') \
                                and n.args and isinstance(n.args[0], ast.Constant):
                            d = ast.unparse(n.args[1]) if len(n.args) > 1 else 'None'
                            # defaults are compared by truth value (None / False / 0 behave alike in `if kwargs.get(...)`)
                            d = {'True': 'true', 'False': 'false', 'None': 'false', '0': 'false'}.get(d, d)
                            p = (n.args[0].value, d)
                            if p not in ps:
                                ps.append(p)
                        if isinstance(n, ast.Subscript) and isinstance(n.value, ast.Name) and n.value.id in ('kwargs', 'assumptions') \
                                and isinstance(n.slice, ast.Constant):
                            p = (n.slice.value, '<required>')
                            if p not in ps:
                                ps.append(p)
                    return ps
                # only the first `return` of key() is live
                rets = [n for n in ast.walk(keyf) if isinstance(n, ast.Return)]
                kp = pairs(rets[0]) if rets else []
                rp = []
                for f in cls.body:
                    if isinstance(f, ast.FunctionDef) and f.name not in ('key',):
                        for p in pairs(f):
                            if p[0] in ('pdb', 'debug'):
                                continue
                            if p not in rp:
                                rp.append(p)
                # keyword parameters of methods that are called with `**kwargs` inside the class
                # (e.g. derivative_undef(self, expr, t, s, zero_initial_conditions=True))
                fwd = set()
                for f in cls.body:
                    if isinstance(f, ast.FunctionDef):
                        for n in ast.walk(f):
                            if isinstance(n, ast.Call) and isinstance(n.func, ast.Attribute) and isinstance(n.func.value, ast.Name) \
                                    and n.func.value.id == 'self' and any(k.arg is None and isinstance(k.value, ast.Name)
                                                                         and k.value.id in ('kwargs', 'assumptions') for k in n.keywords):
                                fwd.add(n.func.attr)
                for f in cls.body:
                    if isinstance(f, ast.FunctionDef) and f.name in fwd and f.name != 'key':
                        a = f.args
                        pos = a.args[len(a.args) - len(a.defaults):] if a.defaults else []
                        for arg, d in list(zip(pos, a.defaults)) + [(x, y) for x, y in zip(a.kwonlyargs, a.kw_defaults) if y is not None]:
                            dv = ast.unparse(d)
                            dv = {'True': 'true', 'False': 'false', 'None': 'false', '0': 'false'}.get(dv, dv)
                            p = (arg.arg, dv)
                            if arg.arg not in ('pdb', 'debug') and p not in rp:
                                rp.append(p)
                out.append((cls.name, fn, kp, rp))
        return out


def generate(repo):
    sc = Scan(repo)
    cleared = sc.cleared()
    muts = sc.mutators()
    memo = [(s,) + sc.memo[s] for s in sc.memo_order]
    deps = [(s, sc.direct_deps(s)) for s in sc.memo_order]
    reads = []
    missing = []
    for q in QUERIES:
        if q not in sc.members and q not in sc.memo:
            missing.append(q)
            continue
        reads.append((q, sc.closure(q)))
    for q in missing:
        sc.unparsed.append('query-not-found:' + q)
    spawns = [s for s in sc.memo_order if sc.reaches(s, '_new')]
    spawn_members = [q for q in QUERIES if q in sc.members and q not in sc.memo and sc.reaches(q, '_new')]
    init_inv = False
    for (fn, cls) in sc.byclass.get('Netlist', []):
        for f in cls.body:
            if isinstance(f, ast.FunctionDef) and f.name == '__init__':
                init_inv = sc.calls_self(f, '_invalidate')
    detach = sc.override_detaches()
    keepn = sc.keep_connected_node()
    sites = sc.set_iteration_sites()
    trs = sc.transformers()
    mutd = {m[0]: m[1] for m in muts}
    info = {'memoised': [m[0] for m in memo], 'cleared': cleared,
            'not_cleared': [m[0] for m in memo if m[0] not in cleared],
            'mutators': muts, 'initInvalidates': init_inv, 'overrideDetaches': detach, 'keepConnectedNode': keepn,
            'deps': deps, 'reads': reads, 'spawns': spawns, 'setIterationSites': sites,
            'transformers': [(t[0], t[2], t[3]) for t in trs], 'unparsed': sc.unparsed}

    kindmap = {'lru': '.lru', 'cprop': '.cprop', 'hasattr': '.hasattr'}
    L = []
    L.append('/-')
    L.append('  GENERATED by harness/translate/tx_caches.py from the source text of /repo/lcapy/{%s}' % ', '.join(FILES))
    L.append('  and the transformer modules -- do not edit.')
    for u in sc.unparsed:
        L.append('  translator-unparsed: ' + u)
    L.append('-/')
    L.append('import Lcapy.Model.Cache')
    L.append('namespace Lcapy.Gen.Caches')
    L.append('open Lcapy.Cache')
    L.append('')
    L.append('/-- memoised members: slot, kind  (where found is in the comment) -/')
    L.append('def memoised : List (String × MemoKind) := [')
    L.append(',\n'.join('  (%s, %s)  /- %s %s.%s %s -/' % (lstr(m[0]), kindmap[m[1]], m[2], m[3], m[4], ('maxsize ' + m[5]) if m[5] else '')
                        for m in memo))
    L.append(']')
    L.append('')
    L.append('/-- slots dropped by `_invalidate` -/')
    L.append('def cleared : List String := ' + llist([lstr(c) for c in cleared]))
    L.append('')
    L.append('/-- members that change `_elements`, and whether they call `self._invalidate()` -/')
    L.append('def mutators : List (String × Bool) := ' + llist(['(%s, %s)' % (lstr(m[0]), 'true' if m[1] else 'false') for m in muts]))
    L.append('')
    L.append('/-- direct memo dependencies of each memoised member -/')
    L.append('def deps : List (String × List String) := ' + llist(['(%s, %s)' % (lstr(s), llist([lstr(d) for d in ds])) for (s, ds) in deps]))
    L.append('')
    L.append('/-- memo slots touched (dependencies first) by each public query / operation -/')
    L.append('def reads : List (String × List String) := [')
    L.append(',\n'.join('  (%s, %s)' % (lstr(q), llist([lstr(d) for d in ds])) for (q, ds) in reads))
    L.append(']')
    L.append('')
    L.append('/-- memoised members / operations that create a new Netlist while running -/')
    L.append('def spawns : List String := ' + llist([lstr(s) for s in spawns + spawn_members]))
    L.append('')
    L.append('def config : Config where')
    L.append('  memoised := memoised')
    L.append('  cleared := cleared')
    add1, addn = sc.add_invalidate_mode()
    info['addInvalidates'] = [add1, addn]
    L.append('  addInvalidates := %s' % ('true' if add1 else 'false'))
    L.append('  addMultiInvalidates := %s' % ('true' if addn else 'false'))
    L.append('  removeInvalidates := %s' % ('true' if mutd.get('remove') else 'false'))
    L.append('  initInvalidates := %s' % ('true' if init_inv else 'false'))
    L.append('  overrideDetaches := %s' % ('true' if detach else 'false'))
    L.append('  keepConnectedNode := %s' % ('true' if keepn else 'false'))
    L.append('  deps := deps')
    L.append('  reads := reads')
    L.append('  spawns := spawns')
    L.append('')
    L.append('/-- per transformer class: (kwarg, default) pairs used by `key()` and pairs read elsewhere in the class -/')
    L.append('def transformers : List (String × List (String × String) × List (String × String)) := [')
    L.append(',\n'.join('  (%s, %s, %s)' % (lstr(t[0]), llist(['(%s, %s)' % (lstr(a), lstr(b)) for (a, b) in t[2]]),
                                             llist(['(%s, %s)' % (lstr(a), lstr(b)) for (a, b) in t[3]])) for t in trs))
    L.append(']')
    L.append('')
    L.append('/-- conversions of a set to a list in the simplify mixin (iteration order = hash order) -/')
    L.append('def setIterationSites : List String := ' + llist([lstr(s) for s in sites]))
    L.append('')
    L.append('/-- those of them that are not sorted: the resulting order is the hash order -/')
    L.append('def hashOrderSites : List String := ' + llist([lstr(s) for s in sites if ':list(' in s or '.pop()' in s]))
    L.append('')
    L.append('end Lcapy.Gen.Caches')
    return '\n'.join(L) + '\n', info


if __name__ == '__main__':
    import json
    import sys
    text, info = generate(sys.argv[1] if len(sys.argv) > 1 else '/repo')
    if len(sys.argv) > 2:
        open(sys.argv[2], 'w').write(text)
    print(json.dumps(info, indent=1))
