"""tx_grammar: regenerate lean/Lcapy/Generated/Grammar.lean from /repo/lcapy/grammar.py
(and the suffix table of /repo/lcapy/valueparser.py, and which repairs of the printer
`mnacpts.Cpt._arg_format` / `_netmake1` the source contains).

Reads the *source text* with Python's `ast`: the module-level string constants `rules`,
`params`, `delimiters`, `comments` of grammar.py and the dict literal `suffixes` inside
`value_parser`.  Nothing of the parser is executed.  The only processing done here is the
line structure that `Parser._add_param` / `Parser._add_rule` apply before any parameter is
interpreted:

    param line   "<name>: <base>; <comment>"              -> (name, base)
    rule line    "<Class>: <T>name <p1> <p2> ...; <doc>"  -> (Class, ["<T>name", "<p1>", ...])

Everything else (optional brackets, `=default`, kind lookup, keyword position, component
type = first field minus "name") is done by the Lean model (`Lcapy.Parser.mkRule`) so that the
theorems `table_wf` / `rule_select_det` are re-checked against what the grammar says now.

Lines whose shape is not understood are listed in `unparsed` and not emitted.
"""
import ast
import os
import sys
from fractions import Fraction


def _consts(src, names):
    tree = ast.parse(src)
    out = {}
    for node in tree.body:
        if isinstance(node, ast.Assign) and len(node.targets) == 1 and isinstance(node.targets[0], ast.Name):
            n = node.targets[0].id
            if n in names and isinstance(node.value, ast.Constant) and isinstance(node.value.value, str):
                out[n] = node.value.value
    return out


def _suffixes(src):
    """the dict literal assigned to `suffixes` inside value_parser -> [(char, exponent10)]"""
    tree = ast.parse(src)
    for node in ast.walk(tree):
        if isinstance(node, ast.Assign) and len(node.targets) == 1 and isinstance(node.targets[0], ast.Name) \
                and node.targets[0].id == 'suffixes' and isinstance(node.value, ast.Dict):
            out = []
            bad = []
            for k, v in zip(node.value.keys, node.value.values):
                try:
                    key = k.value
                    val = Fraction(repr(v.value)) if isinstance(v, ast.Constant) else None
                    e = None
                    if val is not None and val > 0:
                        for ex in range(-30, 31):
                            if val == Fraction(10) ** ex:
                                e = ex
                    if not (isinstance(key, str) and len(key) == 1) or e is None:
                        raise ValueError
                    out.append((key, e))
                except Exception:
                    bad.append(ast.dump(k)[:40])
            return out, bad
    return None, ['suffixes dict not found']


def _opts_consts(src):
    """constants of opts.py `Opts.add` / `Opts.format`: the spellings read as True / False, the key that
    accumulates a list, the separator `format` joins with, the characters the local `split` treats
    specially"""
    tree = ast.parse(src)
    out = {'true': None, 'false': None, 'listkey': None, 'join': None, 'sep': None, 'open': None, 'close': None}
    notes = []
    for cls in tree.body:
        if not (isinstance(cls, ast.ClassDef) and cls.name == 'Opts'):
            continue
        for f in cls.body:
            if isinstance(f, ast.FunctionDef) and f.name == 'add':
                for n in ast.walk(f):
                    if isinstance(n, ast.If) and isinstance(n.test, ast.Compare) and len(n.test.ops) == 1:
                        t = n.test
                        left = ast.unparse(t.left)
                        comp = t.comparators[0]
                        body = ast.unparse(n.body[0]) if n.body else ''
                        if left == 'arg' and isinstance(t.ops[0], ast.In) and isinstance(comp, ast.Tuple) \
                                and all(isinstance(e, ast.Constant) and isinstance(e.value, str) for e in comp.elts):
                            vals = [e.value for e in comp.elts]
                            if body == 'arg = True':
                                out['true'] = vals
                            elif body == 'arg = False':
                                out['false'] = vals
                        if left == 'key' and isinstance(t.ops[0], ast.Eq) and isinstance(comp, ast.Constant) \
                                and 'append' in ' '.join(ast.unparse(b) for b in n.body):
                            out['listkey'] = comp.value
                        if left == 'c' and isinstance(t.ops[0], ast.Eq) and isinstance(comp, ast.Constant):
                            if 'bracket_level += 1' in body:
                                out['open'] = comp.value
                            elif 'bracket_level -= 1' in body:
                                out['close'] = comp.value
                    if isinstance(n, ast.For) and ast.unparse(n.target) == 'c' and isinstance(n.iter, ast.BinOp) \
                            and isinstance(n.iter.right, ast.Constant):
                        out['sep'] = n.iter.right.value
            if isinstance(f, ast.FunctionDef) and f.name == 'format':
                for n in ast.walk(f):
                    if isinstance(n, ast.Return) and isinstance(n.value, ast.Call) and isinstance(n.value.func, ast.Attribute) \
                            and n.value.func.attr == 'join' and isinstance(n.value.func.value, ast.Constant) \
                            and ast.unparse(n.value.args[0]) == 'parts':
                        out['join'] = n.value.func.value.value
    for k, v in out.items():
        if v is None:
            notes.append('opts.%s not found' % k)
    return out, notes


def _suffix_aliases(src):
    """`if arg.endswith(X): arg = arg[0:-n] + Y` in value_parser -> [(X, Y)] (n must be len(X))"""
    tree = ast.parse(src)
    out = []
    notes = []
    for f in ast.walk(tree):
        if isinstance(f, ast.FunctionDef) and f.name == 'value_parser':
            for n in ast.walk(f):
                if isinstance(n, ast.If) and isinstance(n.test, ast.Call) and ast.unparse(n.test.func) == 'arg.endswith' \
                        and len(n.body) == 1 and isinstance(n.body[0], ast.Assign):
                    x = n.test.args[0].value
                    rhs = ast.unparse(n.body[0].value)
                    import re as _re
                    m = _re.match(r"arg\[0:-(\d+)\] \+ '(\w+)'$", rhs)
                    if m and int(m.group(1)) == len(x):
                        out.append((x, m.group(2)))
                    else:
                        notes.append('value_parser alias %r: %s' % (x, rhs))
    return out, notes


def _printer_fixes(src):
    """Which of the repairs of the findings C06-e / C06-a / C06-b the printer in mnacpts.py contains
    (read from the AST of `Cpt._arg_format` / `Cpt._netmake1`; anything unrecognised counts as absent and
    is then caught by the print correspondence)."""
    tree = ast.parse(src)
    funcs = {}
    for node in ast.walk(tree):
        if isinstance(node, ast.ClassDef) and node.name == 'Cpt':
            for f in node.body:
                if isinstance(f, ast.FunctionDef) and f.name in ('_arg_format', '_netmake1', '_netsubs'):
                    funcs[f.name] = f
    fix_e = fix_a = fix_b = False
    braces_eq = False
    notes = []
    af = funcs.get('_arg_format')
    if af is None:
        notes.append('_arg_format not found')
    else:
        returns_unchanged_if_brace = False
        braces_bracket_start = False
        for n in ast.walk(af):
            if isinstance(n, ast.If):
                test = ast.unparse(n.test)
                body = ' '.join(ast.unparse(b) for b in n.body)
                if "startswith('{')" in test and body.strip() == 'return string':
                    returns_unchanged_if_brace = True
                if ("string == ''" in test and "in '{\"'" in test and "'=' in string" in test
                        and body.strip() == "return '{' + string + '}'"):
                    braces_bracket_start = True
                if test.strip() == "'=' in string" and body.strip() == "return '{' + string + '}'":
                    braces_eq = True
                if '.keywords(self.type)' in test and 'string.lower()' in test and body.strip() == "return '{' + string + '}'":
                    fix_a = True
        fix_e = braces_bracket_start and not returns_unchanged_if_brace
        if not returns_unchanged_if_brace and not braces_bracket_start:
            notes.append('_arg_format: unrecognised handling of a leading brace')
    nm = funcs.get('_netmake1')
    if nm is None:
        notes.append('_netmake1 not found')
    else:
        seen = False
        for n in ast.walk(nm):
            if isinstance(n, ast.If) and ' '.join(ast.unparse(b) for b in n.body).strip() == 'fmtargs = []':
                seen = True
                test = ast.unparse(n.test)
                if 'default_is_name(relname, keyword)' in test and 'fmtargs[0] == relname' in test:
                    fix_b = True
                elif test.strip() != 'len(fmtargs) == 1 and fmtargs[0] == relname':
                    notes.append('_netmake1: unrecognised elision test: ' + test[:60])
        if not seen:
            notes.append('_netmake1: elision of the name default not found')
    # does Cpt._netsubs print through _netmake1 (fix 8b2a96c) or with its own loop?
    deleg = False
    ns = funcs.get('_netsubs')
    if ns is None:
        notes.append('_netsubs not found')
    else:
        rets = [n for n in ast.walk(ns) if isinstance(n, ast.Return) and n.value is not None]
        calls = [ast.unparse(r.value) for r in rets]
        if len(calls) == 1 and calls[0].replace(' ', '').replace('\n', '') == \
                'self._netmake1(self.namespace+self.relname,nodes=nodes,args=args)':
            deleg = True
        elif calls == ['string']:
            deleg = False
        else:
            notes.append('_netsubs: unrecognised shape: ' + '; '.join(calls)[:80])
    return (fix_e, fix_a, fix_b, deleg, braces_eq), notes


def lchar(c):
    if c == '\t':
        return "'\\t'"
    if c == '\n':
        return "'\\n'"
    if c == "'":
        return "'\\''"
    if c == '\\':
        return "'\\\\'"
    if ord(c) < 32 or ord(c) > 126:
        return '(Char.ofNat %d)' % ord(c)
    return "'%s'" % c


def lstr(s):
    return '[' + ','.join(lchar(c) for c in s) + ']'


def generate(repo):
    gsrc = open(os.path.join(repo, 'lcapy', 'grammar.py')).read()
    vsrc = open(os.path.join(repo, 'lcapy', 'valueparser.py')).read()
    c = _consts(gsrc, ('rules', 'params', 'delimiters', 'comments'))
    unparsed = []
    for n in ('rules', 'params', 'delimiters', 'comments'):
        if n not in c:
            unparsed.append('grammar.%s' % n)
    params = []
    for line in c.get('params', '').split('\n'):
        if line == '':
            continue
        try:
            f = line.split(':')
            name = f[0]
            f2 = f[1].split(';', 1)
            base = f2[0].strip()
            f2[1]
            params.append((name, base))
        except Exception:
            unparsed.append('param-line:' + line[:40])
    rules = []
    for line in c.get('rules', '').split('\n'):
        if line == '':
            continue
        try:
            f = line.split(':')
            cls = f[0]
            f2 = f[1].split(';', 1)
            body = f2[0].strip()
            f2[1]
            fields = body.split(' ')
            if not fields[0].endswith('name') or any(x == '' for x in fields):
                raise ValueError
            rules.append((cls, fields))
        except Exception:
            unparsed.append('rule-line:' + line[:40])
    msrc = open(os.path.join(repo, 'lcapy', 'mnacpts.py')).read()
    fixes4, fnotes = _printer_fixes(msrc)
    fixes, netsubs_deleg, braces_eq = fixes4[:3], fixes4[3], fixes4[4]
    osrc = open(os.path.join(repo, 'lcapy', 'opts.py')).read()
    oc, onotes = _opts_consts(osrc)
    aliases, anotes = _suffix_aliases(vsrc)
    suff, bad = _suffixes(vsrc)
    unparsed += ['suffix:' + b for b in bad] + onotes + anotes
    suff = suff or []

    L = []
    L.append('/-')
    L.append('  GENERATED by harness/translate/tx_grammar.py from /repo/lcapy/grammar.py and')
    L.append('  /repo/lcapy/valueparser.py -- do not edit.  Raw grammar data only: the interpretation of a')
    L.append('  rule line (optional brackets, defaults, kinds, keyword position) is `Lcapy.Parser.mkRule`.')
    L.append('-/')
    L.append('namespace Lcapy.Gen.Grammar')
    L.append('')
    L.append('/-- grammar.delimiters -/')
    L.append('def delimiters : List Char := %s' % lstr(c.get('delimiters', '')))
    L.append('')
    L.append('/-- grammar.comments -/')
    L.append('def comments : List Char := %s' % lstr(c.get('comments', '')))
    L.append('')
    L.append('/-- grammar.params: (name, base) per line -/')
    L.append('def paramSrc : List (List Char × List Char) := [')
    L.append(',\n'.join('  (%s, %s)' % (lstr(n), lstr(b)) for n, b in params))
    L.append(']')
    L.append('')
    L.append('/-- grammar.rules: (classname, fields) per line; fields[0] is "<type>name" -/')
    L.append('def ruleSrc : List (List Char × List (List Char)) := [')
    L.append(',\n'.join('  (%s, [%s])' % (lstr(cls), ', '.join(lstr(x) for x in fields)) for cls, fields in rules))
    L.append(']')
    L.append('')
    L.append('/-- valueparser.value_parser: suffix character, power of ten -/')
    L.append('def suffixSrc : List (Char × Int) := [%s]' % ', '.join('(%s, %d)' % (lchar(k), e) for k, e in suff))
    L.append('')
    L.append('/-- valueparser.value_parser: `endswith` aliases (suffix text, replacement) -/')
    L.append('def suffixAliases : List (List Char × List Char) := [%s]' % ', '.join('(%s, %s)' % (lstr(a), lstr(b)) for a, b in aliases))
    L.append('')
    L.append('/-- opts.Opts.add / format: spellings read as True / False, the list-valued key, the separator of')
    L.append('    `format`, and the split / bracket characters of the local `split` -/')
    L.append('def optsTrue : List (List Char) := [%s]' % ', '.join(lstr(x) for x in (oc['true'] or [])))
    L.append('def optsFalse : List (List Char) := [%s]' % ', '.join(lstr(x) for x in (oc['false'] or [])))
    L.append('def optsListKey : List Char := %s' % lstr(oc['listkey'] or ''))
    L.append('def optsJoin : List Char := %s' % lstr(oc['join'] or ''))
    L.append('def optsSplitChars : List Char := %s' % lstr((oc['sep'] or '') + (oc['open'] or '') + (oc['close'] or '')))
    L.append('')
    L.append('/-- mnacpts.Cpt._arg_format / _netmake1: which repairs (C06-e, C06-a, C06-b) the source contains -/')
    L.append('def printerFix : Bool × Bool × Bool := (%s, %s, %s)' % tuple('true' if x else 'false' for x in fixes))
    L.append('')
    L.append('/-- mnacpts.Cpt._arg_format: is a value that contains `=` (and does not start with a brace) enclosed in braces -/')
    L.append('def printerBracesEquals : Bool := %s' % ('true' if braces_eq else 'false'))
    L.append('')
    L.append('/-- mnacpts.Cpt._netsubs: does it print through _netmake1 (else: its own legacy loop) -/')
    L.append('def netsubsDelegates : Bool := %s' % ('true' if netsubs_deleg else 'false'))
    L.append('')
    L.append('end Lcapy.Gen.Grammar')
    text = '\n'.join(L) + '\n'
    info = {'rules': len(rules), 'params': len(params), 'suffixes': len(suff), 'unparsed': unparsed,
            'rule_classes': [r[0] for r in rules], 'printer_fixes': {'C06-e': fixes[0], 'C06-a': fixes[1], 'C06-b': fixes[2]},
            'netsubs_delegates': netsubs_deleg, 'printer_braces_equals': braces_eq, 'printer_notes': fnotes, 'opts_constants': oc, 'suffix_aliases': aliases, 'opts_notes': onotes + anotes}
    return text, info


if __name__ == '__main__':
    repo = sys.argv[1] if len(sys.argv) > 1 else '/repo'
    text, info = generate(repo)
    out = os.path.join(os.path.dirname(os.path.dirname(os.path.dirname(os.path.abspath(__file__)))),
                       'lean', 'Lcapy', 'Generated', 'Grammar.lean')
    with open(out, 'w') as f:
        f.write(text)
    print(info['rules'], 'rules', info['params'], 'params', info['suffixes'], 'suffixes', 'unparsed:', info['unparsed'])
