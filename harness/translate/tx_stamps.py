"""tx_stamps: regenerate lean/Lcapy/Generated/Stamps.lean from /repo/lcapy/mnacpts.py.

Second (static) tie of property C01: the `_stamp` methods are read as *source text* with Python's
`ast` module -- nothing of the modelled logic is executed -- and every matrix update

        mna._G/_B/_C/_D/_Is/_Es[row(, col)]  +=  /  -=  /  =   value

is extracted together with
  (i)   its operator (`+=`, `-=` and plain `=` are kept DISTINCT: a plain assignment is recorded in
        `assignments` and makes `allAccumulate` false),
  (ii)  the enclosing `if n >= 0 [and m >= 0]` guards (an entry must be guarded by exactly the `>= 0`
        tests of the node indices it uses: Python index -1 writes the LAST row/column; issues are
        recorded in `guardIssues` and make `guardsOk` false),
  (iii) the enclosing branch conditions (`mna.kind == 'dc'`, `self.cpt.has_ic`, the type of the
        controlling component, ...), which become `if ... then ... else` in the generated definition,
  (iv)  the value expression with local names resolved to the component's parameters
        (e.g. `Ap = Ac / 2 + Ad`), over a fixed per-class vocabulary of opaque atoms
        (`self.Y.sympy`, `self.Voc.sympy`, `ConstantDomainExpression(self.args[0]).sympy`, ...).

One Lean `def` per class is emitted: `Gen.Stamps.<Class> (sk : SrcKind) (<flags> : Bool) (<nodes, branches> : Nat)
(<atoms> : α) : MNA.Stamp α` in the sparse representation of Lcapy/Model/MNA.lean (every entry emitted; the
ground row/column is handled by `MNA.ground`).  The signature of each definition is FIXED by the table `SPEC`
below, not by the source, so that lean/Lcapy/Props/C01Stamps.lean always elaborates.

Anything the reader does not understand makes that class `unparsed` (flag `parsed_<Class> = false`, an empty
definition, an entry in `unparsed`): this is NOT an alarm, the class then relies on the correspondence tie only.
"""
import ast
import re
import copy
import json
import os
import sys


class Unparsed(Exception):
    pass


CDE = 'ConstantDomainExpression(self.args[%d]).sympy'
CTRL = 'self.cct.elements[self.args[0]]'
EL1 = 'mna.cct.elements[self.Lname1]'
EL2 = 'mna.cct.elements[self.Lname2]'

# class -> fixed signature and vocabulary.  nodes: number of entries of `mna._cpt_node_indexes(self)`;
# brs: branch roles in signature order; conds: (Lean Bool parameter, normalised source text);
# atoms: (Lean K parameter, normalised source text).  `cnodes`: nodes of the controlling component.
SPEC = {
    'AM': dict(nodes=2, brs=['m']),
    'RC': dict(nodes=2, conds=[('isC', "self.type == 'C'"), ('hasIc', 'self.cpt.has_ic')],
               atoms=[('eps', 'eps'), ('Y', 'self.Y.sympy'), ('Isc', 'self.Isc.sympy')]),
    'VCVS': dict(nodes=4, brs=['m'], conds=[('hasAc', 'len(self.args) > 1')],
                 atoms=[('Ad', CDE % 0), ('Ac', CDE % 1)]),
    'CCCS': dict(nodes=2, brs=['mc'], atoms=[('F', CDE % 1)]),
    'VCCS': dict(nodes=4, atoms=[('G', CDE % 0)]),
    'GY': dict(nodes=4, brs=['mx', 'm'], atoms=[('Z1', CDE % 0)]),
    'CCVS': dict(nodes=2, brs=['m', 'mc'], cnodes=2,
                 conds=[('ctrlIsV', CTRL + '.is_voltage_source'), ('ctrlNeedsBranch', CTRL + '.need_branch_current'),
                        ('ctrlIsC', CTRL + ".type == 'C'"), ('ctrlHasIc', CTRL + '.cpt.has_ic')],
                 atoms=[('H', CDE % 1), ('eps', 'eps'), ('Yc', CTRL + '.Y.sympy'), ('Iscc', CTRL + '.Isc.sympy')]),
    'I': dict(nodes=2, atoms=[('Isc', 'self.Isc.sympy')]),
    'K': dict(nodes=0, brs=['m1', 'm2'],
              conds=[('hasIc1', EL1 + '.cpt.has_ic'), ('hasIc2', EL2 + '.cpt.has_ic')],
              atoms=[('k', 'self.cpt.K.sympy'),
                     ('sqrtLL', 'sym.sqrt(%s.Z.sympy * %s.Z.sympy / ssym ** 2)' % (EL1, EL2)),
                     ('sqrtZZ', 'sym.sqrt(%s.Z.sympy * %s.Z.sympy)' % (EL1, EL2)),
                     ('s', 'ssym'), ('i01', EL1 + '.cpt.i0.sympy'), ('i02', EL2 + '.cpt.i0.sympy')]),
    'L': dict(nodes=2, brs=['m'], conds=[('hasIc', 'self.cpt.has_ic')],
              atoms=[('Z', 'self.Z.sympy'), ('Voc', 'self.Voc.sympy')]),
    'SPpp': dict(nodes=3, brs=['m']),
    'SPpm': dict(nodes=3, brs=['m']),
    'SPppp': dict(nodes=4, brs=['m']),
    'SPpmm': dict(nodes=4, brs=['m']),
    'SPppm': dict(nodes=4, brs=['m']),
    'TF': dict(nodes=4, brs=['m'], atoms=[('T', 'self.cpt.alpha.sympy')]),
    'TPA': dict(nodes=4, brs=['m'], atoms=[('A11', 'self.cpt.A11.sympy'), ('A12', 'self.cpt.A12.sympy'),
                                           ('A21', 'self.cpt.A21.sympy'), ('A22', 'self.cpt.A22.sympy')]),
    'TPY': dict(nodes=4, atoms=[('Y11', 'self.cpt.Y11.sympy'), ('Y12', 'self.cpt.Y12.sympy'),
                                ('Y21', 'self.cpt.Y21.sympy'), ('Y22', 'self.cpt.Y22.sympy')]),
    'TR': dict(nodes=2, brs=['m'], atoms=[('A', CDE % 0)]),
    'V': dict(nodes=2, brs=['m'], atoms=[('Voc', 'self.Voc.sympy')]),
}
ORDER = ['AM', 'RC', 'VCVS', 'CCCS', 'VCCS', 'GY', 'CCVS', 'I', 'K', 'L', 'SPpp', 'SPpm', 'SPppp', 'SPpmm', 'SPppm',
         'TF', 'TPA', 'TPY', 'TR', 'V']
# classes whose `_stamp` must only check for internal sources and then call the parent's `_stamp`
DELEGATES = {'TPB': 'TPA', 'TPG': 'TPA', 'TPH': 'TPA', 'TPZ': 'TPY'}
# netlist component type -> the class whose `_stamp` is expected to be the effective one (method resolution)
EFFECTIVE = {'R': 'RC', 'NR': 'RC', 'C': 'RC', 'Y': 'RC', 'Z': 'RC', 'CPE': 'RC', 'L': 'L', 'V': 'V', 'I': 'I', 'E': 'VCVS',
             'F': 'CCCS', 'G': 'VCCS', 'H': 'CCVS', 'TF': 'TF', 'GY': 'GY', 'AM': 'AM', 'TR': 'TR', 'K': 'K',
             'TPA': 'TPA', 'TPB': 'TPB', 'TPG': 'TPG', 'TPH': 'TPH', 'TPY': 'TPY', 'TPZ': 'TPZ',
             'SPpp': 'SPpp', 'SPpm': 'SPpm', 'SPppp': 'SPppp', 'SPpmm': 'SPpmm', 'SPppm': 'SPppm',
             'O': 'Dummy', 'P': 'Dummy', 'W': 'Dummy'}
BRANCH_ROLE = {"self.name + 'X'": 'mx', 'self.args[0]': 'mc', 'self.Lname1': 'm1', 'self.Lname2': 'm2'}
KIND_STR = {'dc': 'dc', 's': 's', 'laplace': 's', 'transient': 's', 'ivp': 'ivp', 't': 'time', 'time': 'time'}
MATS = {'_G': ('node', 'node'), '_B': ('node', 'br'), '_C': ('br', 'node'), '_D': ('br', 'br'),
        '_Is': ('node',), '_Es': ('br',)}


class Subst(ast.NodeTransformer):
    """replace local names by the (already substituted) Python expressions bound to them"""

    def __init__(self, env):
        self.env = env

    def visit_Name(self, node):
        v = self.env.get(node.id)
        if v is not None and v[0] == 'py':
            return copy.deepcopy(v[1])
        return node


def norm(node, env):
    txt = ast.unparse(Subst(env).visit(copy.deepcopy(node)))
    # `self._arg_value(m)` (fix bb4bae7) is `self.args[m]` read through the value parser (engineering suffixes):
    # the same component parameter as far as the stamp is concerned
    return re.sub(r'self\._arg_value\((\d+)\)', r'self.args[\1]', txt)


def ignorable(st):
    """statements without effect on the matrices: docstrings, warnings, imports, pass, and `if`s made of those"""
    if isinstance(st, ast.Pass) or isinstance(st, (ast.Import, ast.ImportFrom)):
        return True
    if isinstance(st, ast.Expr):
        if isinstance(st.value, ast.Constant):
            return True
        if isinstance(st.value, ast.Call) and isinstance(st.value.func, ast.Name) and st.value.func.id == 'warn':
            return True
        return False
    if isinstance(st, ast.If):
        return all(ignorable(x) for x in st.body) and all(ignorable(x) for x in st.orelse)
    return False


def only_raises(stmts):
    return len(stmts) >= 1 and all(isinstance(x, ast.Raise) or ignorable(x) for x in stmts) and \
        any(isinstance(x, ast.Raise) for x in stmts)


class ClassTx:
    def __init__(self, cname, fdef, spec):
        self.cname = cname
        self.fdef = fdef
        self.spec = spec
        self.atoms = {src: lean for (lean, src) in spec.get('atoms', [])}
        self.conds = {src: lean for (lean, src) in spec.get('conds', [])}
        self.assignments = []       # plain `=` on a matrix entry
        self.guard_issues = []
        self.sort_issues = []
        self.preconditions = []
        self.nentries = 0
        self.updates = []           # (class, line, block, operator, index sorts, node indices used, node indices guarded)
        self.mna = fdef.args.args[1].arg if len(fdef.args.args) > 1 else 'mna'

    # ------------------------------------------------------------------ values
    def value(self, node, env):
        if isinstance(node, ast.Constant) and isinstance(node.value, int) and not isinstance(node.value, bool):
            if node.value not in (0, 1, 2):
                raise Unparsed('numeral %r' % node.value)
            return str(node.value)
        if isinstance(node, ast.Name):
            v = env.get(node.id)
            if v is not None:
                if v[0] == 'py':
                    return self.value(v[1], env)
                raise Unparsed('index %s used as a value' % node.id)
        if isinstance(node, ast.UnaryOp) and isinstance(node.op, ast.USub):
            return '(-%s)' % self.value(node.operand, env)
        if isinstance(node, ast.BinOp) and isinstance(node.op, (ast.Add, ast.Sub, ast.Mult, ast.Div)):
            key = norm(node, env)
            if key in self.atoms:
                return self.atoms[key]
            op = {ast.Add: '+', ast.Sub: '-', ast.Mult: '*', ast.Div: '/'}[type(node.op)]
            return '(%s %s %s)' % (self.value(node.left, env), op, self.value(node.right, env))
        key = norm(node, env)
        if key in self.atoms:
            return self.atoms[key]
        raise Unparsed('value %s' % key[:80])

    # ------------------------------------------------------------------ conditions
    def is_guard(self, test, env):
        """`n >= 0` / `n >= 0 and m >= 0` over node-index variables -> list of variable keys, else None"""
        def one(t):
            if (isinstance(t, ast.Compare) and len(t.ops) == 1 and isinstance(t.ops[0], ast.GtE)
                    and isinstance(t.left, ast.Name) and isinstance(t.comparators[0], ast.Constant)
                    and t.comparators[0].value == 0):
                v = env.get(t.left.id)
                if v is not None and v[0] in ('node', 'cnode'):
                    return v
            return None
        if isinstance(test, ast.BoolOp) and isinstance(test.op, ast.And):
            vs = [one(t) for t in test.values]
            return vs if all(v is not None for v in vs) else None
        v = one(test)
        return [v] if v is not None else None

    def mentions_index(self, test, env):
        for n in ast.walk(test):
            if isinstance(n, ast.Name) and env.get(n.id, ('',))[0] in ('node', 'cnode', 'br'):
                return True
        return False

    def cond(self, test, env):
        """branch condition -> Lean Prop text"""
        if isinstance(test, ast.BoolOp):
            op = ' ∧ ' if isinstance(test.op, ast.And) else ' ∨ '
            return '(' + op.join(self.cond(t, env) for t in test.values) + ')'
        if isinstance(test, ast.UnaryOp) and isinstance(test.op, ast.Not):
            return '(¬ %s)' % self.cond(test.operand, env)
        if isinstance(test, ast.Compare) and len(test.ops) == 1 and norm(test.left, env) == self.mna + '.kind':
            c = test.comparators[0]
            if isinstance(test.ops[0], (ast.Eq, ast.NotEq)) and isinstance(c, ast.Constant) and c.value in KIND_STR:
                t = '(sk = SrcKind.%s)' % KIND_STR[c.value]
                return t if isinstance(test.ops[0], ast.Eq) else '(¬ %s)' % t
            if isinstance(test.ops[0], (ast.In, ast.NotIn)) and isinstance(c, (ast.Tuple, ast.List)) and \
                    all(isinstance(e, ast.Constant) and e.value in KIND_STR for e in c.elts):
                ks = []
                for e in c.elts:
                    if KIND_STR[e.value] not in ks:
                        ks.append(KIND_STR[e.value])
                t = '(' + ' ∨ '.join('sk = SrcKind.%s' % k for k in ks) + ')'
                return t if isinstance(test.ops[0], ast.In) else '(¬ %s)' % t
            raise Unparsed('kind test %s' % ast.unparse(test))
        key = norm(test, env)
        if key in self.conds:
            return '(%s = true)' % self.conds[key]
        raise Unparsed('condition %s' % key[:80])

    # ------------------------------------------------------------------ statements
    def index(self, node, env, want):
        if not isinstance(node, ast.Name) or node.id not in env:
            raise Unparsed('index %s' % ast.unparse(node))
        v = env[node.id]
        if v[0] in ('node', 'cnode'):
            sort, text = 'node', 'node %s' % v[1]
        elif v[0] == 'br':
            sort, text = 'br', 'br %s' % v[1]
        else:
            raise Unparsed('index %s' % ast.unparse(node))
        if sort != want:
            self.sort_issues.append('%s line %d: %s index `%s` where a %s index is expected'
                                    % (self.cname, node.lineno, sort, node.id, want))
        return v, text

    def update(self, target, op, valnode, env, guards, acc, lineno):
        """one matrix update -> appended to acc = (lhs list, rhs list)"""
        if not (isinstance(target, ast.Subscript) and isinstance(target.value, ast.Attribute)
                and isinstance(target.value.value, ast.Name) and target.value.value.id == self.mna
                and target.value.attr in MATS):
            raise Unparsed('assignment target %s' % ast.unparse(target)[:60])
        mat = target.value.attr
        sorts = MATS[mat]
        sl = target.slice
        idx = list(sl.elts) if isinstance(sl, ast.Tuple) else [sl]
        if len(idx) != len(sorts):
            raise Unparsed('index count in %s' % ast.unparse(target))
        used, texts, idxvals = [], [], []
        for n, want in zip(idx, sorts):
            v, t = self.index(n, env, want)
            idxvals.append(v)
            texts.append(t)
            if v[0] in ('node', 'cnode') and v not in used:
                used.append(v)
        val = self.value(valnode, env)
        if op == '-=':
            val = '(-%s)' % val
        elif op == '=':
            self.assignments.append('%s line %d: %s' % (self.cname, lineno, ast.unparse(target)))
        g = []
        for x in guards:
            if x not in g:
                g.append(x)
        if sorted(map(str, g)) != sorted(map(str, used)):
            self.guard_issues.append('%s line %d: %s uses node indices [%s] but is guarded by [%s]'
                                     % (self.cname, lineno, ast.unparse(target),
                                        ', '.join(str(u[1]) for u in used), ', '.join(str(u[1]) for u in g)))
        self.nentries += 1
        code = {'p0': 0, 'p1': 1, 'p2': 2, 'p3': 3, 'c0': 10, 'c1': 11}
        self.updates.append((self.cname, lineno, mat, {'+=': 'add', '-=': 'sub', '=': 'assign'}[op],
                             [('node' if v_[0] in ('node', 'cnode') else 'br') for v_ in idxvals],
                             sorted(code.get(u[1], 99) for u in used), sorted(code.get(u[1], 99) for u in g)))
        lhs, rhs = acc
        if len(texts) == 2:
            return (lhs + ['(%s, %s, %s)' % (texts[0], texts[1], val)], rhs)
        return (lhs, rhs + ['(%s, %s)' % (texts[0], val)])

    def bind(self, targets, valnode, env):
        """local assignment; returns the new environment"""
        env = dict(env)
        mna = self.mna
        src = ast.unparse(valnode)
        if len(targets) == 1 and isinstance(targets[0], ast.Name):
            name = targets[0].id
            if src == '%s._cpt_branch_index(self)' % mna:
                env[name] = ('br', 'm')
                return env
            if isinstance(valnode, ast.Call) and ast.unparse(valnode.func) == '%s._branch_index' % mna and len(valnode.args) == 1:
                key = norm(valnode.args[0], env)
                role = BRANCH_ROLE.get(key)
                if role is None or role not in self.spec.get('brs', []):
                    raise Unparsed('branch index of %s' % key)
                env[name] = ('br', role)
                return env
            env[name] = ('py', Subst(env).visit(copy.deepcopy(valnode)))
            return env
        if len(targets) == 1 and isinstance(targets[0], (ast.Tuple, ast.List)) and \
                all(isinstance(e, ast.Name) for e in targets[0].elts):
            names = [e.id for e in targets[0].elts]
            if src == '%s._cpt_node_indexes(self)' % mna:
                if len(names) != self.spec['nodes']:
                    raise Unparsed('node count %d' % len(names))
                for i, nm in enumerate(names):
                    env[nm] = ('node', 'p%d' % i)
                return env
            if isinstance(valnode, ast.ListComp) and self.spec.get('cnodes'):
                # [mna._node_index(name) for name in ccpt.node_names[0:2]]
                want = '[%s._node_index(name) for name in %s.node_names[0:%d]]' % (mna, CTRL, self.spec['cnodes'])
                if norm(valnode, env) != want or len(names) != self.spec['cnodes']:
                    raise Unparsed('node list %s' % norm(valnode, env)[:80])
                for i, nm in enumerate(names):
                    env[nm] = ('cnode', 'c%d' % i)
                return env
            if isinstance(valnode, (ast.Tuple, ast.List)) and len(valnode.elts) == len(names):
                vals = [Subst(env).visit(copy.deepcopy(e)) for e in valnode.elts]
                for nm, v in zip(names, vals):
                    env[nm] = ('py', v)
                return env
        raise Unparsed('assignment %s' % ast.unparse(targets[0])[:40])

    def guarded(self, stmts, env, guards, acc):
        """body of an `if n >= 0` guard: updates and nested guards only"""
        for st in stmts:
            if ignorable(st):
                continue
            if isinstance(st, ast.AugAssign) and isinstance(st.op, (ast.Add, ast.Sub)):
                acc = self.update(st.target, '+=' if isinstance(st.op, ast.Add) else '-=', st.value, env, guards, acc, st.lineno)
            elif isinstance(st, ast.Assign) and len(st.targets) == 1 and isinstance(st.targets[0], ast.Subscript):
                acc = self.update(st.targets[0], '=', st.value, env, guards, acc, st.lineno)
            elif isinstance(st, ast.If) and not st.orelse and self.is_guard(st.test, env) is not None:
                acc = self.guarded(st.body, env, guards + self.is_guard(st.test, env), acc)
            else:
                raise Unparsed('statement inside a guard: %s' % ast.unparse(st)[:60])
        return acc

    def block(self, stmts, env, acc):
        """statement list -> Lean text of type `Stamp K` (continuation style: the rest of the method is
        translated inside both arms of every branch condition, so early returns need no special care)"""
        if not stmts:
            return self.leaf(acc)
        st, rest = stmts[0], stmts[1:]
        if ignorable(st):
            return self.block(rest, env, acc)
        if isinstance(st, ast.Return) and st.value is None:
            return self.leaf(acc)
        if isinstance(st, ast.AugAssign) and isinstance(st.op, (ast.Add, ast.Sub)):
            acc = self.update(st.target, '+=' if isinstance(st.op, ast.Add) else '-=', st.value, env, [], acc, st.lineno)
            return self.block(rest, env, acc)
        if isinstance(st, ast.Assign) and len(st.targets) == 1 and isinstance(st.targets[0], ast.Subscript):
            acc = self.update(st.targets[0], '=', st.value, env, [], acc, st.lineno)
            return self.block(rest, env, acc)
        if isinstance(st, ast.Assign):
            return self.block(rest, self.bind(st.targets, st.value, env), acc)
        if isinstance(st, ast.If):
            g = self.is_guard(st.test, env)
            if g is not None:
                if st.orelse:
                    raise Unparsed('guard with else')
                return self.block(rest, env, self.guarded(st.body, env, g, acc))
            if self.mentions_index(st.test, env):
                raise Unparsed('test on an index: %s' % ast.unparse(st.test)[:60])
            if only_raises(st.body) and not st.orelse:
                # `if <unsupported>: raise ...` : a precondition of the stamp, not part of it
                self.preconditions.append('%s: not (%s)' % (self.cname, norm(st.test, env)[:120]))
                return self.block(rest, env, acc)
            c = self.cond(st.test, env)
            a = self.block(list(st.body) + list(rest), env, acc)
            b = self.block(list(st.orelse) + list(rest), env, acc)
            return 'if %s then\n%s\nelse\n%s' % (c, indent(a), indent(b))
        raise Unparsed('statement %s' % ast.unparse(st)[:60])

    def leaf(self, acc):
        lhs, rhs = acc
        return '{ lhs := [%s],\n  rhs := [%s] }' % (', '.join(lhs), ', '.join(rhs))

    def run(self):
        return self.block(list(self.fdef.body), {}, ([], []))


def indent(text, n=2):
    return '\n'.join(' ' * n + l for l in text.split('\n'))


def signature(cname):
    spec = SPEC[cname]
    parts = ['(sk : SrcKind)']
    if spec.get('conds'):
        parts.append('(%s : Bool)' % ' '.join(l for (l, _) in spec['conds']))
    nats = ['p%d' % i for i in range(spec['nodes'])] + list(spec.get('brs', [])) + ['c%d' % i for i in range(spec.get('cnodes', 0))]
    if nats:
        parts.append('(%s : Nat)' % ' '.join(nats))
    if spec.get('atoms'):
        parts.append('(%s : α)' % ' '.join(l for (l, _) in spec['atoms']))
    return ' '.join(parts)


HEADER = '''/-
  GENERATED by harness/translate/tx_stamps.py from lcapy/mnacpts.py -- do not edit.
  One definition per class with a `_stamp` method: the matrix updates exactly as they are written in
  the source (operator, guards, branch conditions, value expressions), in the sparse representation of
  Lcapy/Model/MNA.lean.  No Mathlib import.
-/
import Lcapy.Model.MNA
set_option linter.unusedVariables false
namespace Lcapy.Gen.Stamps
open Lcapy.MNA Lcapy.MNA.Ix

/-- the values of `mna.kind` that the `_stamp` methods distinguish ('s' also stands for 'laplace'/'transient',
    `ac` for a phasor kind (kind = the angular frequency), `time` for 't'/'time') -/
inductive SrcKind where
  | dc | s | ivp | ac | time
deriving DecidableEq, Repr

/-- one matrix update `mna._<blk>[i(, j)] <op> v` of a `_stamp` method, as read from the source -/
inductive Op where
  | add | sub | assign      -- `+=`, `-=`, `=`
deriving DecidableEq, Repr
inductive Blk where
  | G | B | C | D | Is | Es
deriving DecidableEq, Repr
inductive Srt where
  | node | br
deriving DecidableEq, Repr
structure Update where
  cls : String
  line : Nat
  blk : Blk
  op : Op
  idx : List Srt          -- sort of each index expression (node index / branch index)
  used : List Nat         -- node-index variables used (0-3: the component's nodes, 10-11: nodes of the controlling component), sorted
  guards : List Nat       -- node-index variables tested `>= 0` by the enclosing `if`s, sorted
deriving Repr

/-- the sorts with which each block must be indexed: G[node,node] B[node,br] C[br,node] D[br,br] Is[node] Es[br] -/
def Blk.sorts : Blk → List Srt
  | .G => [.node, .node] | .B => [.node, .br] | .C => [.br, .node] | .D => [.br, .br] | .Is => [.node] | .Es => [.br]

variable {α : Type} [Add α] [Mul α] [Neg α] [Sub α] [Div α] [OfNat α 0] [OfNat α 1] [OfNat α 2]

'''


def lean_strlist(xs):
    return '[' + ', '.join('"%s"' % x.replace('\\', '\\\\').replace('"', "'") for x in xs) + ']'


def effective_class(classes, bases, dyn, ty):
    """name of the class that provides `_stamp` for netlist type `ty` (method resolution over single inheritance)"""
    c = ty
    seen = 0
    while c is not None and seen < 20:
        seen += 1
        if c in classes:
            if '_stamp' in classes[c]:
                return c
            c = bases.get(c)
        elif c in dyn:
            c = dyn[c]
        else:
            return None
    return None


def generate(repo='/repo'):
    path = os.path.join(repo, 'lcapy', 'mnacpts.py')
    src = open(path).read()
    tree = ast.parse(src)
    classes, bases, dyn = {}, {}, {}
    for node in tree.body:
        if isinstance(node, ast.ClassDef):
            classes[node.name] = {f.name: f for f in node.body if isinstance(f, ast.FunctionDef)}
            bases[node.name] = node.bases[0].id if node.bases and isinstance(node.bases[0], ast.Name) else None
        elif isinstance(node, ast.Expr) and isinstance(node.value, ast.Call) and isinstance(node.value.func, ast.Name) \
                and node.value.func.id == 'defcpt' and len(node.value.args) >= 2:
            a0, a1 = node.value.args[0], node.value.args[1]
            if isinstance(a0, ast.Constant):
                dyn[a0.value] = a1.id if isinstance(a1, ast.Name) else (a1.value if isinstance(a1, ast.Constant) else None)
    parts = [HEADER]
    info = {'source': path, 'classes': {}, 'unparsed': [], 'assignments': [], 'guard_issues': [], 'sort_issues': [],
            'preconditions': [], 'entries': 0}
    parsed = []
    all_updates = []
    for cname in ORDER:
        f = classes.get(cname, {}).get('_stamp')
        body = None
        reason = None
        if f is None:
            reason = 'class or _stamp method not found'
        else:
            tx = ClassTx(cname, f, SPEC[cname])
            try:
                body = tx.run()
            except Unparsed as e:
                reason = str(e)
            except Exception as e:   # noqa  (a reader bug must not become an alarm)
                reason = 'reader error %s: %s' % (type(e).__name__, e)
        if body is None:
            reason = ' '.join(str(reason).split())
            info['unparsed'].append('%s: %s' % (cname, reason))
            info['classes'][cname] = {'parsed': False, 'reason': reason}
            parts.append('/-- %s._stamp : NOT PARSED (%s) -/\n' % (cname, reason.replace('-/', '- /')))
            parts.append('def %s %s : Stamp α := {}\n' % (cname, signature(cname)))
            parts.append('def parsed_%s : Bool := false\n\n' % cname)
            continue
        parsed.append(cname)
        info['classes'][cname] = {'parsed': True, 'line': f.lineno, 'entries': tx.nentries}
        info['entries'] += tx.nentries
        for u in tx.updates:
            if u not in all_updates:
                all_updates.append(u)
        info['assignments'] += tx.assignments
        info['guard_issues'] += tx.guard_issues
        info['sort_issues'] += tx.sort_issues
        info['preconditions'] += tx.preconditions
        parts.append('/-- %s._stamp (mnacpts.py:%d) -/\n' % (cname, f.lineno))
        parts.append('def %s %s : Stamp α :=\n%s\n' % (cname, signature(cname), indent(body)))
        parts.append('def parsed_%s : Bool := true\n\n' % cname)
    # delegating classes: `if <sources>: raise ...; super(X, self)._stamp(mna)`
    delegations = []
    for cname, parent in sorted(DELEGATES.items()):
        f = classes.get(cname, {}).get('_stamp')
        ok = False
        if f is not None and bases.get(cname) == parent:
            rest = [st for st in f.body if not ignorable(st)]
            rest = [st for st in rest if not (isinstance(st, ast.If) and only_raises(st.body) and not st.orelse)]
            mna = f.args.args[1].arg if len(f.args.args) > 1 else 'mna'
            ok = len(rest) == 1 and isinstance(rest[0], ast.Expr) and \
                ast.unparse(rest[0].value) in ('super(%s, self)._stamp(%s)' % (cname, mna), 'super()._stamp(%s)' % mna)
        elif f is None and bases.get(cname) == parent:
            ok = True
        if ok:
            delegations.append((cname, parent))
        else:
            info['unparsed'].append('%s: does not simply delegate to %s._stamp' % (cname, parent))
    # which class stamps each netlist type
    eff = []
    for ty in sorted(EFFECTIVE):
        got = effective_class(classes, bases, dyn, ty)
        eff.append((ty, got or '?'))
        if got != EFFECTIVE[ty]:
            info['unparsed'].append('%s: stamped by %s._stamp, expected %s._stamp' % (ty, got, EFFECTIVE[ty]))
    for k in ('assignments', 'guard_issues', 'sort_issues', 'preconditions'):      # the same statement is met once per path
        info[k] = [x for i, x in enumerate(info[k]) if x not in info[k][:i]]
    all_acc = not info['assignments']
    guards_ok = not info['guard_issues'] and not info['sort_issues']
    parts.append('/-- EVERY matrix update of every parsed `_stamp` method, as data: class, source line, block, operator, sorts of the\n'
                 '    index expressions, node-index variables used, node-index variables guarded by the enclosing `if n >= 0` tests -/\n')
    parts.append('def updates : List Update :=\n  [' + ',\n   '.join(
        '⟨"%s", %d, .%s, .%s, [%s], [%s], [%s]⟩' % (c, ln, blk.lstrip('_'), op, ', '.join('.' + x for x in srt),
                                                   ', '.join(map(str, us)), ', '.join(map(str, gs)))
        for (c, ln, blk, op, srt, us, gs) in all_updates) + ']\n\n')
    parts.append('/-- no update is a plain assignment (COMPUTED from `updates`) -/\n')
    parts.append('def allAccumulate : Bool := updates.all (fun u => u.op != Op.assign)\n\n')
    parts.append('/-- every update is guarded by exactly the `>= 0` tests of the node indices it uses, and indexes its block with indices\n'
                 '    of the right sort (COMPUTED from `updates`) -/\n')
    parts.append('def guardsOk : Bool := updates.all (fun u => u.used == u.guards && u.idx == u.blk.sorts)\n\n')
    parts.append('/-- the reader\'s own (Python-side) description of the offending updates, for the evidence only -/\n')
    parts.append('def assignments : List String := %s\n' % lean_strlist(info['assignments']))
    parts.append('def guardIssues : List String := %s\n\n' % lean_strlist(info['guard_issues'] + info['sort_issues']))
    parts.append('/-- `if <unsupported>: raise` preconditions met on the way (not part of a stamp) -/\n')
    parts.append('def preconditions : List String := %s\n\n' % lean_strlist(info['preconditions']))
    parts.append('/-- classes whose `_stamp` only refuses internal sources and then calls the parent\'s `_stamp` -/\n')
    parts.append('def delegations : List (String × String) := [%s]\n\n' % ', '.join('("%s", "%s")' % d for d in delegations))
    parts.append('/-- netlist component type ↦ class whose `_stamp` is the effective one -/\n')
    parts.append('def effective : List (String × String) := [%s]\n\n' % ', '.join('("%s", "%s")' % d for d in eff))
    parts.append('def parsed : List String := %s\n' % lean_strlist(parsed))
    parts.append('/-- what the reader could not understand (such a class relies on the correspondence tie only) -/\n')
    parts.append('def unparsed : List String := %s\n\n' % lean_strlist(info['unparsed']))
    parts.append('end Lcapy.Gen.Stamps\n')
    info['updates'] = len(all_updates)
    info['parsed'] = parsed
    info['all_accumulate'] = all_acc
    info['guards_ok'] = guards_ok
    info['delegations'] = delegations
    return ''.join(parts), info


def out_path():
    here = os.path.dirname(os.path.abspath(__file__))
    return os.path.normpath(os.path.join(here, '..', '..', 'lean', 'Lcapy', 'Generated', 'Stamps.lean'))


def write(repo='/repo'):
    text, info = generate(repo)
    out = out_path()
    old = open(out).read() if os.path.exists(out) else None
    info['changed'] = old != text
    if old != text:
        with open(out, 'w') as f:
            f.write(text)
    return info


def main():
    info = write(os.environ.get('VERIF_REPO', '/repo'))
    json.dump(info, sys.stdout, indent=1)


if __name__ == '__main__':
    main()
