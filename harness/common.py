"""Shared machinery for the /verif checks.

  Check        one run of one property: Lean build + audit, driver client, evidence, verdict
  Driver       line-protocol client of the native Lean driver (lean/.lake/build/bin/driver)
  helpers      exact rationals, sympy sampling, known-findings matching, replay files

Interpreter: /venv/bin/python (the one that has /repo installed).  Nothing here needs network.
"""
import fcntl
import json
import os
import random
import re
import subprocess
import sys
import time
import traceback
from fractions import Fraction

VERIF = os.path.dirname(os.path.dirname(os.path.abspath(__file__)))
LEAN = os.path.join(VERIF, 'lean')
REPO = os.environ.get('VERIF_REPO', '/repo')
STD_AXIOMS = {'propext', 'Classical.choice', 'Quot.sound'}
FORBIDDEN = re.compile(r'\bsorry\b|\badmit\b|^axiom |native_decide|bv_decide|implemented_by|\bunsafe |maxHeartbeats 0', re.M)

TRUSTED_BASE = [
    'Lean 4.33 kernel; axioms propext, Classical.choice, Quot.sound only (audited by #print axioms on every run)',
    'Lean compiler/runtime for the native driver that executes the model and the spec predicates',
    'the translators under harness/translate (Python ast) and the harness canonicalisers',
    'SymPy exact substitution when sampling symbolic Lcapy results at rational points',
]


class Infra(Exception):
    """infrastructure failure (exit 2, never a VIOLATION)"""


def frac(x):
    """exact Fraction from int / str / sympy Rational / Fraction"""
    if isinstance(x, Fraction):
        return x
    if isinstance(x, int):
        return Fraction(x)
    if isinstance(x, str):
        return Fraction(x)
    try:
        import sympy
        x = sympy.nsimplify(x) if isinstance(x, float) else sympy.sympify(x)
        if x.is_Rational:
            return Fraction(int(x.p), int(x.q))
    except Exception:
        pass
    raise ValueError('not rational: %r' % (x,))


def fstr(x):
    x = Fraction(x)
    return str(x.numerator) if x.denominator == 1 else '%d/%d' % (x.numerator, x.denominator)


def gauss_rational(x):
    """exact (re, im) Fractions of a sympy expression built from rationals and I, or None"""
    import sympy
    x = sympy.sympify(x)
    if x.is_Rational:
        return (Fraction(int(x.p), int(x.q)), Fraction(0))
    if x.free_symbols or x.has(sympy.zoo, sympy.nan, sympy.oo):
        return None
    i = sympy.Symbol('i__')
    num, den = sympy.fraction(sympy.together(x.subs(sympy.I, i)))
    try:
        pn = sympy.Poly(num, i, domain='QQ').rem(sympy.Poly(i**2 + 1, i, domain='QQ'))
        pd = sympy.Poly(den, i, domain='QQ').rem(sympy.Poly(i**2 + 1, i, domain='QQ'))
    except Exception:
        return None

    def ab(p):
        c = [sympy.Rational(v) for v in p.all_coeffs()]
        c = [sympy.Integer(0)] * (2 - len(c)) + list(c)
        return (Fraction(int(c[1].p), int(c[1].q)), Fraction(int(c[0].p), int(c[0].q)))
    (a, b), (c, d) = ab(pn), ab(pd)
    n = c * c + d * d
    if n == 0:
        return None
    return ((a * c + b * d) / n, (b * c - a * d) / n)


def strip_lean_comments(text):
    text = re.sub(r'/-.*?-/', '', text, flags=re.S)
    text = re.sub(r'--[^\n]*', '', text)
    return text


# --------------------------------------------------------------------------- Lean side

class LakeLock:
    def __enter__(self):
        os.makedirs(os.path.join(LEAN, '.lake'), exist_ok=True)
        self.f = open(os.path.join(LEAN, '.lake', 'verif.lock'), 'w')
        fcntl.flock(self.f, fcntl.LOCK_EX)
        return self

    def __exit__(self, *a):
        fcntl.flock(self.f, fcntl.LOCK_UN)
        self.f.close()


def run_cmd(cmd, cwd=None, timeout=3600, env=None):
    e = dict(os.environ)
    if env:
        e.update(env)
    p = subprocess.run(cmd, cwd=cwd, stdout=subprocess.PIPE, stderr=subprocess.STDOUT, timeout=timeout, env=e,
                       universal_newlines=True)
    return p.returncode, p.stdout


def theorems_in(path):
    """[(name, line)] of theorem declarations in a Lean file (comments stripped, lines preserved)"""
    out = []
    src = open(path).read()
    # blank out block comments but keep newlines
    src = re.sub(r'/-.*?-/', lambda m: re.sub(r'[^\n]', ' ', m.group(0)), src, flags=re.S)
    for i, line in enumerate(src.split('\n'), 1):
        m = re.match(r'\s*(?:private\s+|protected\s+)?theorem\s+([A-Za-z0-9_.\']+)', line)
        if m:
            out.append((m.group(1), i))
    return out


def namespace_of(path):
    m = re.search(r'^namespace\s+(\S+)', open(path).read(), re.M)
    return m.group(1) if m else ''


def lean_build(targets, timeout=3000):
    """lake build under the lock.  Returns (ok, log, failed) where failed = [(file, line, msg)]"""
    with LakeLock():
        rc, out = run_cmd(['lake', 'build'] + list(targets), cwd=LEAN, timeout=timeout)
    failed = []
    for m in re.finditer(r'^error: (\S+?\.lean):(\d+):(\d+): (.*)$', out, re.M):
        failed.append((m.group(1), int(m.group(2)), m.group(4)[:200]))
    return rc == 0, out, failed


def failed_theorems(failed):
    """map error locations to enclosing theorem names"""
    names = []
    cache = {}
    for (f, line, msg) in failed:
        path = os.path.join(LEAN, f)
        if not os.path.exists(path):
            continue
        if path not in cache:
            cache[path] = theorems_in(path)
        encl = None
        for (n, l) in cache[path]:
            if l <= line:
                encl = n
        tag = '%s:%s' % (os.path.basename(f), encl or ('line%d' % line))
        if tag not in names:
            names.append(tag)
    return names


def lean_audit(prop_files, extra_src_files=()):
    """#print axioms for every theorem of the given Props files, plus a grep for forbidden
    constructs in those files and their helper files.  Returns dict."""
    thms = []
    for pf in prop_files:
        path = os.path.join(LEAN, pf)
        ns = namespace_of(path)
        for (n, _) in theorems_in(path):
            thms.append((ns + '.' + n) if ns else n)
    mods = [pf[:-5].replace('/', '.') for pf in prop_files]
    src = ''.join('import %s\n' % m for m in mods) + ''.join('#print axioms %s\n' % t for t in thms)
    os.makedirs(os.path.join(LEAN, '.lake', 'audit'), exist_ok=True)
    ap = os.path.join(LEAN, '.lake', 'audit', 'Audit_%s_%d.lean' % (re.sub(r'\W', '_', '_'.join(mods)), os.getpid()))
    with open(ap, 'w') as f:
        f.write(src)
    try:
        rc, out = run_cmd(['lake', 'env', 'lean', ap], cwd=LEAN, timeout=1800)
    finally:
        try:
            os.unlink(ap)
        except OSError:
            pass
    axioms = {}
    for m in re.finditer(r"'(\S+?)' depends on axioms: \[([^\]]*)\]", out.replace('\n', ' ')):
        axioms[m.group(1)] = [a.strip() for a in m.group(2).split(',') if a.strip()]
    for m in re.finditer(r"'(\S+?)' does not depend on any axioms", out):
        axioms[m.group(1)] = []
    bad = {t: a for t, a in axioms.items() if set(a) - STD_AXIOMS}
    missing = [t for t in thms if t not in axioms]
    forb = []
    for pf in list(prop_files) + list(extra_src_files):
        path = os.path.join(LEAN, pf)
        if os.path.exists(path):
            txt = strip_lean_comments(open(path).read())
            for m in FORBIDDEN.finditer(txt):
                forb.append('%s: %s' % (pf, m.group(0).strip()))
    return {'theorems': thms, 'axioms': axioms, 'nonstandard': bad, 'missing': missing, 'forbidden': forb,
            'ok': rc == 0 and not bad and not missing and not forb, 'log': out[-2000:] if rc else ''}


class Driver:
    """client of the native Lean driver; `ask(lines)` sends a batch and returns the replies"""

    def __init__(self, name='driver'):
        exe = os.path.join(LEAN, '.lake', 'build', 'bin', name)
        if not os.path.exists(exe):
            raise Infra('driver not built: %s' % exe)
        self.p = subprocess.Popen([exe], stdin=subprocess.PIPE, stdout=subprocess.PIPE, universal_newlines=True, bufsize=1)
        self.n = 0
        if self.ask1('ping') != 'pong':
            raise Infra('driver does not answer ping')

    def ask1(self, line):
        assert '\n' not in line
        self.p.stdin.write(line + '\n')
        self.p.stdin.flush()
        r = self.p.stdout.readline()
        if r == '':
            raise Infra('driver died on: %s' % line[:200])
        self.n += 1
        return r.rstrip('\n')

    def ask(self, lines):
        return [self.ask1(l) for l in lines]

    def close(self):
        try:
            self.p.stdin.close()
            self.p.wait(timeout=5)
        except Exception:
            self.p.kill()


# --------------------------------------------------------------------------- findings / replays

def load_findings(pid):
    path = os.path.join(VERIF, 'known-findings.json')
    if not os.path.exists(path):
        return []
    data = json.load(open(path))
    return [f for f in data.get('findings', []) if f.get('property') == pid]


def match_finding(findings, key):
    """A finding matches when every item of its `match` dict equals the same item in `key`
    (lists in the finding mean 'one of').  Only status=known entries suppress."""
    for f in findings:
        if f.get('status') != 'known':
            continue
        ok = True
        for k, v in f.get('match', {}).items():
            kv = key.get(k)
            if isinstance(v, list):
                if kv not in v:
                    ok = False
            elif kv != v:
                ok = False
        if ok:
            return f
    return None


class TimeLimit(BaseException):
    """raised by time_limit; a BaseException so that `except Exception` in case code does not swallow it"""


class time_limit:
    """`with time_limit(20): ...` raises TimeLimit after the given seconds (SIGALRM).
    Lcapy/SymPy calls occasionally do not return; such cases are counted, never reported."""

    def __init__(self, seconds):
        self.seconds = int(seconds)

    def __enter__(self):
        import signal

        def handler(signum, frame):
            raise TimeLimit('time limit %ds' % self.seconds)
        self.old = signal.signal(signal.SIGALRM, handler)
        # re-arming: Lcapy and SymPy contain bare `except:` clauses that swallow the first TimeLimit and carry on;
        # the timer keeps firing every 2 s after the limit until the block is left
        signal.setitimer(signal.ITIMER_REAL, max(1, self.seconds), 2.0)
        return self

    def __exit__(self, *a):
        import signal
        signal.setitimer(signal.ITIMER_REAL, 0, 0)
        signal.signal(signal.SIGALRM, self.old)
        return False


# --------------------------------------------------------------------------- the check object

class Check:
    def __init__(self, pid, tier, seed):
        self.pid = pid
        self.tier = tier if tier in ('quick', 'thorough') else 'quick'
        self.seed = int(seed)
        self.rng = random.Random('%s-%d' % (pid, self.seed))
        self.t0 = time.time()
        self.violations = []          # (replay_path, note)
        self.known_seen = []
        self.coverage = {'obligations': 0, 'discharged': 0, 'checker_cmd': '', 'trusted_base': list(TRUSTED_BASE),
                         'evaluations': 0, 'distinct_nontrivial': 0, 'rule': '', 'samples': [],
                         'distribution': {}, 'translator': {}, 'broken_obligations': [],
                         'correspondence': {'compared': 0, 'disagreements': 0, 'diagnostics': []},
                         'known_findings_seen': []}
        self.assumptions = []
        self.findings = load_findings(pid)
        self.replay_n = 0
        self._distinct = set()
        self._reported_keys = set()
        self.driver = None

    # ---- counting
    def count(self, table, key, n=1):
        d = self.coverage['distribution'].setdefault(table, {})
        d[key] = d.get(key, 0) + n

    def case(self, canon, nontrivial=True):
        """register one explored case; `canon` is any hashable canonical form"""
        self.coverage['evaluations'] += 1
        if nontrivial:
            self._distinct.add(canon)

    def sample(self, obj, limit=6):
        if len(self.coverage['samples']) < limit:
            self.coverage['samples'].append(obj)

    # ---- Lean
    def lean(self, prop_files, targets=None, helper_files=(), leanchecker=False):
        """build the property modules + driver, audit axioms; returns list of broken obligation tags"""
        targets = list(targets or []) + [pf[:-5].replace('/', '.') for pf in prop_files] + ['drv_' + self.pid.lower()]
        ok, log, failed = lean_build(targets)
        broken = failed_theorems(failed) if not ok else []
        if not ok and not broken:
            # could not attribute: treat the whole module as broken unless it is an infrastructure problem
            if 'error' not in log:
                raise Infra('lake build failed without Lean errors:\n' + log[-1500:])
            broken = ['build:' + (failed[0][0] if failed else 'unknown')]
        self.coverage['checker_cmd'] = 'cd lean && lake build %s && lake env lean <#print axioms of every theorem>' % ' '.join(targets)
        nthm = sum(len(theorems_in(os.path.join(LEAN, pf))) for pf in prop_files)
        self.coverage['obligations'] = nthm
        if ok:
            # The audit reads the compiled .olean files: run it under the build lock (another check may be rebuilding
            # shared modules) and, when the audit file itself does not elaborate or theorems are missing from its output,
            # rebuild and retry; a failure that persists although the build is green is infrastructure, never a violation.
            aud = None
            for attempt in range(4):
                with LakeLock():
                    aud = lean_audit(prop_files, helper_files)
                if not aud['log'] and not aud['missing']:
                    break
                time.sleep(5 + 10 * attempt)
                ok2, log2, failed2 = lean_build(targets)
                if not ok2:
                    ok, log, failed = ok2, log2, failed2
                    break
            else:
                raise Infra('axiom audit keeps failing although the build succeeds:\n' + (aud['log'] or str(aud['missing'][:5])))
        if not ok:
            broken = failed_theorems(failed) or ['build:' + (failed[0][0] if failed else 'unknown')]
        if ok:
            self.coverage['axioms_used'] = sorted({a for v in aud['axioms'].values() for a in v})
            self.coverage['audit'] = {'theorems': len(aud['theorems']), 'nonstandard': aud['nonstandard'],
                                      'missing': aud['missing'], 'forbidden': aud['forbidden']}
            for t in list(aud['nonstandard']) + aud['missing'] + aud['forbidden']:
                broken.append('audit:' + str(t))
            if aud['log']:
                broken.append('audit:lean-error')
                self.coverage['audit']['log'] = aud['log']
            self.coverage['discharged'] = nthm - len([b for b in broken if not b.startswith('audit:')])
            if leanchecker:
                mods = [pf[:-5].replace('/', '.') for pf in prop_files]
                rc, out = run_cmd(['lake', 'env', 'leanchecker'] + mods, cwd=LEAN, timeout=3000)
                self.coverage['leanchecker'] = {'modules': mods, 'ok': rc == 0}
                if rc != 0:
                    broken.append('leanchecker:' + out[-300:])
        else:
            self.coverage['discharged'] = max(0, nthm - len(broken))
            self.coverage['build_log_tail'] = log[-1500:]
        self.coverage['broken_obligations'] = broken
        return broken

    def get_driver(self):
        if self.driver is None:
            self.driver = Driver('drv_' + self.pid.lower())
        return self.driver

    # ---- verdicts
    def write_replay(self, obj):
        d = os.path.join(VERIF, 'replays', self.pid)
        os.makedirs(d, exist_ok=True)
        self.replay_n += 1
        path = os.path.join(d, '%d-%d.json' % (self.seed, self.replay_n))
        obj = dict(obj)
        obj.setdefault('property', self.pid)
        obj.setdefault('how_to_replay', './vcheck %s --replay %s' % (self.pid, os.path.relpath(path, VERIF)))
        with open(path, 'w') as f:
            json.dump(obj, f, indent=1, default=str)
        return os.path.relpath(path, VERIF)

    def counterexample(self, key, replay, what):
        """a concrete failing input on the real code.  `key` is the structural key matched
        against known-findings.json"""
        f = match_finding(self.findings, key)
        if f is not None:
            tag = f.get('id', '?')
            if tag not in self.known_seen:
                self.known_seen.append(tag)
                print('KNOWN-FINDING: property=%s %s' % (self.pid, f.get('what', tag)))
            self.coverage['known_findings_seen'] = self.known_seen
            return False
        kk = json.dumps(key, sort_keys=True, default=str)
        if kk in self._reported_keys:
            self.coverage['counterexamples_suppressed_as_duplicates'] = self.coverage.get('counterexamples_suppressed_as_duplicates', 0) + 1
            return True
        self._reported_keys.add(kk)
        replay = dict(replay)
        replay['kind'] = 'counterexample'
        replay['key'] = key
        replay['what'] = what
        path = self.write_replay(replay)
        self.violations.append((path, ''))
        return True

    def unexplained(self, kind, name, detail):
        """a broken obligation / correspondence for which no failing input was found"""
        path = self.write_replay({'kind': kind, 'obligation': name, 'detail': detail})
        self.violations.append((path, 'no-failing-input-found'))

    def finish(self):
        if self.driver is not None:
            self.driver.close()
        if self._distinct or not self.coverage.get('distinct_nontrivial'):
            self.coverage['distinct_nontrivial'] = len(self._distinct)
        # keep the typed keys of EVIDENCE.schema.json well-typed whatever a harness stored there
        cov = self.coverage
        if 'exhaustive' in cov and not isinstance(cov['exhaustive'], bool):
            cov['exhaustive_detail'] = cov['exhaustive']
            cov['exhaustive'] = bool(cov['exhaustive'])
        for k in ('evaluations', 'distinct_nontrivial', 'obligations', 'discharged', 'states', 'transitions',
                  'traces_validated_against_impl', 'programs', 'disagreements_checked'):
            if k in cov and not isinstance(cov[k], int):
                try:
                    cov[k] = int(cov[k])
                except Exception:
                    cov[k + '_detail'] = cov.pop(k)
        if not isinstance(cov.get('samples', []), list):
            cov['samples'] = [cov['samples']]
        if not isinstance(cov.get('rule', ''), str):
            cov['rule'] = json.dumps(cov['rule'])
        cov['trusted_base'] = [str(x) for x in cov.get('trusted_base', [])]
        cov['checker_cmd'] = str(cov.get('checker_cmd', ''))
        ev = {'property_id': self.pid, 'tier': self.tier, 'seed': self.seed, 'level': 'proof',
              'coverage': self.coverage, 'assumptions': self.assumptions,
              'wall_s': round(time.time() - self.t0, 2), 'violations': len(self.violations)}
        os.makedirs(os.path.join(VERIF, 'evidence'), exist_ok=True)
        with open(os.path.join(VERIF, 'evidence', self.pid + '.json'), 'w') as f:
            json.dump(ev, f, indent=1, default=str)
        seen = set()
        for (path, note) in self.violations:
            if (path, note) in seen:
                continue
            seen.add((path, note))
            print(('VIOLATION property=%s replay=%s %s' % (self.pid, path, note)).rstrip())
        sys.stdout.flush()
        return 1 if self.violations else 0


def main_wrapper(pid, run):
    """common entry: run(check) ; exit 0/1 ; infrastructure errors exit 2"""
    import argparse
    ap = argparse.ArgumentParser()
    ap.add_argument('tier', nargs='?', default=os.environ.get('VERIF_TIER', 'quick'))
    ap.add_argument('--replay')
    a = ap.parse_args(sys.argv[2:] if len(sys.argv) > 1 and sys.argv[1] == pid else sys.argv[1:])
    seed = int(os.environ.get('VERIF_SEED', '0') or 0)
    chk = Check(pid, a.tier, seed)
    if not a.replay:
        # replay files of earlier runs with this seed would otherwise be mistaken for results of this run
        d = os.path.join(VERIF, 'replays', pid)
        if os.path.isdir(d):
            for fn in os.listdir(d):
                if fn.startswith('%d-' % seed) and fn.endswith('.json'):
                    try:
                        os.remove(os.path.join(d, fn))
                    except OSError:
                        pass
    try:
        run(chk, a.replay)
        rc = chk.finish()
    except Infra as e:
        print('INFRA-ERROR %s: %s' % (pid, e))
        sys.exit(2)
    except subprocess.TimeoutExpired as e:
        print('INFRA-ERROR %s: timeout %s' % (pid, e))
        sys.exit(2)
    except Exception:
        traceback.print_exc()
        print('INFRA-ERROR %s: unexpected exception' % pid)
        sys.exit(2)
    sys.exit(rc)
